"""Generator + printers for merge expressions over data records (shared by C05, C06, C15, C04).

An expression is a nested python tuple:
  ("n", p, q) ("s", k) ("b", 0|1) ("z",) ("t", k)       atoms
  ("v", k, e)                                            enum variant 'Vk e
  ("a", [e...])                                          array
  ("r", [field...])   field = (k, prio, opt, hid, [cid...], e|None); prio = "d"|"x"|"F"|("p", p, q)
  ("m", e1, e2)                                          merge
`sexp` prints it for the OCaml model, `nickel` prints Nickel source.
"""
from math import gcd

CONTRACTS = ["Number", "String", "Bool", "Pos", "Even", "NonEmpty"]
PRELUDE = ("let Pos = std.contract.from_predicate (fun x => std.is_number x && x > 0) in\n"
           "let Even = std.contract.from_predicate (fun x => std.is_number x && std.number.is_integer x && x % 2 == 0) in\n"
           "let NonEmpty = std.contract.from_predicate (fun x => std.is_string x && x != \"\") in\n")


def key(k):
    return chr(97 + k)


def sexp(e):
    t = e[0]
    if t == "n":
        return "(n %d %d)" % (e[1], e[2])
    if t in ("s", "b", "t"):
        return "(%s %d)" % (t, e[1])
    if t == "z":
        return "(z)"
    if t == "v":
        return "(v %d %s)" % (e[1], sexp(e[2]))
    if t == "a":
        return "(a %s)" % " ".join(sexp(x) for x in e[1]) if e[1] else "(a)"
    if t == "r":
        fs = []
        for (k, p, o, h, cs, v) in e[1]:
            ps = p if isinstance(p, str) else "(p %d %d)" % (p[1], p[2])
            fs.append("(f %d %s %d %d (%s) %s)" % (k, ps, o, h, " ".join(str(c) for c in cs), sexp(v) if v is not None else "_"))
        return "(r %s)" % " ".join(fs) if fs else "(r)"
    if t == "m":
        return "(m %s %s)" % (sexp(e[1]), sexp(e[2]))
    raise ValueError(e)


def num(p, q):
    if q == 1:
        return str(p) if p >= 0 else "(%d)" % p
    return "(%d / %d)" % (p, q) if p >= 0 else "((%d) / %d)" % (p, q)


def dec(p, q):
    """exact decimal literal of p/q (q divides a power of ten); priorities need a signed literal"""
    from fractions import Fraction
    f = Fraction(p, q)
    s, k = "", 0
    while (f * 10 ** k).denominator != 1:
        k += 1
    n = int(f * 10 ** k)
    sign = "-" if n < 0 else ""
    digits = str(abs(n)).rjust(k + 1, "0")
    return sign + (digits[:-k] + "." + digits[-k:] if k else digits)


def nickel(e):
    t = e[0]
    if t == "n":
        return num(e[1], e[2])
    if t == "s":
        return '""' if e[1] == 0 else '"s%d"' % e[1]
    if t == "b":
        return "true" if e[1] else "false"
    if t == "z":
        return "null"
    if t == "t":
        return "'T%d" % e[1]
    if t == "v":
        return "('V%d %s)" % (e[1], atomic(e[2]))
    if t == "a":
        return "[%s]" % ", ".join(nickel(x) for x in e[1])
    if t == "r":
        fs = []
        for (k, p, o, h, cs, v) in e[1]:
            s = key(k)
            if p == "d":
                s += " | default"
            elif p == "F":
                s += " | force"
            elif p != "x":
                s += " | priority %s" % dec(p[1], p[2])
            if o:
                s += " | optional"
            if h:
                s += " | not_exported"
            for c in cs:
                s += " | " + CONTRACTS[c]
            if v is not None:
                s += " = " + nickel(v)
            fs.append(s)
        return "{%s}" % ", ".join(fs)
    if t == "m":
        return "(%s & %s)" % (nickel(e[1]), nickel(e[2]))
    raise ValueError(e)


def atomic(e):
    s = nickel(e)
    return s if s[0] in "([{\"'" or s.isalnum() else "(%s)" % s


def program(e):
    return PRELUDE + nickel(e)


# ------------------------------------------------------------------ generation

def gen_atom(rng, small=True):
    c = rng.below(10)
    if c < 4:
        p = rng.choice([0, 1, 2, 3, -1, 4, 7]) if small else rng.range(-20, 20)
        q = rng.choice([1, 1, 1, 2, 3])
        g = gcd(abs(p), q) or 1
        return ("n", p // g, q // g)
    if c < 7:
        return ("s", rng.below(3))
    if c < 8:
        return ("b", rng.below(2))
    if c < 9:
        return ("z",)
    return ("t", rng.below(2))


def gen_plain(rng, depth):
    """plain data: no metadata anywhere (array elements, variant arguments)"""
    c = rng.below(10)
    if depth <= 0 or c < 6:
        return gen_atom(rng)
    if c < 8:
        return ("a", [gen_plain(rng, depth - 1) for _ in range(rng.below(3))])
    ks = sorted(set(rng.below(3) for _ in range(rng.below(3))))
    return ("r", [(k, "x", 0, 0, [], gen_plain(rng, depth - 1)) for k in ks])


def gen_prio(rng):
    return rng.weighted([("x", 10), ("d", 4), ("F", 2), (("p", 1, 1), 1), (("p", -1, 1), 1), (("p", 0, 1), 1),
                         (("p", 1, 2), 1), (("p", 2, 4), 1), (("p", 5, 1), 1)])


def canon_atom(k, depth):
    """the atom a field usually holds, so that both operands of a merge mostly agree"""
    return [("n", 1, 1), ("s", 1), ("n", 4, 1), ("b", 1), ("s", 0), ("n", 5, 2)][(k + 2 * depth) % 6]


def sat(c, a):
    if a[0] == "n":
        return c == 0 or (c == 3 and a[1] > 0) or (c == 4 and a[2] == 1 and a[1] % 2 == 0)
    if a[0] == "s":
        return c == 1 or (c == 5 and a[1] != 0)
    if a[0] == "b":
        return c == 2
    return False


def gen_value(rng, depth, nkeys, k=0, wild=3):
    c = rng.below(20)
    if depth <= 0 or c < 9:
        return gen_atom(rng) if rng.below(10) < wild else canon_atom(k, depth)
    if c < 15:
        return gen_record(rng, depth - 1, nkeys, wild=wild)
    if c < 17:
        return ("a", [canon_atom(k + i, depth) if rng.below(10) >= wild else gen_plain(rng, 1) for i in range(rng.below(3))])
    if c < 18:
        return ("v", rng.below(2), canon_atom(k, depth) if rng.chance(1, 2) else gen_record(rng, 0, nkeys, wild=wild))
    return ("m", gen_value(rng, depth - 1, nkeys, k, wild), gen_value(rng, depth - 1, nkeys, k, wild))


def gen_record(rng, depth, nkeys, dup=False, wild=3):
    n = rng.weighted([(0, 1), (1, 4), (2, 5), (3, 3)])
    ks = [rng.below(nkeys) for _ in range(n)]
    if not dup:
        ks = list(dict.fromkeys(ks))
    fs = []
    for k in ks:
        v = None if rng.below(40) < wild else gen_value(rng, depth, nkeys, k, wild)
        cs = []
        if rng.chance(1, 3):
            if v is not None and v[0] in "nsb" and rng.below(10) >= wild:
                good = [c for c in range(len(CONTRACTS)) if sat(c, v)]
                cs = [rng.choice(good)] if good else []
            elif v is None or v[0] in "nsbzt":
                cs = [rng.below(len(CONTRACTS)) for _ in range(rng.range(1, 2))]
        fs.append((k, gen_prio(rng), int(rng.chance(1, 7)), int(rng.chance(1, 8)), cs, v))
    return ("r", fs)


def gen_expr(rng, depth=2, nkeys=3, wild=3):
    """a record-valued expression: literal or merge of literals; `wild` (0..10) is the share of
    choices made at random instead of the agreeing/satisfying default (malformed stream: 10)"""
    c = rng.below(10)
    if c < 7:
        return gen_record(rng, depth, nkeys, dup=rng.chance(1, 6), wild=wild)
    return ("m", gen_record(rng, depth, nkeys, wild=wild), gen_record(rng, depth, nkeys, wild=wild))


def permute_fields(rng, e):
    """the same expression with the fields of every record literal written in another order
    (only literals whose field names are distinct)"""
    t = e[0]
    if t == "r":
        fs = [(k, p, o, h, cs, permute_fields(rng, v) if v is not None else None) for (k, p, o, h, cs, v) in e[1]]
        if len(set(f[0] for f in fs)) == len(fs):
            fs = rng.shuffle(fs)
        return ("r", fs)
    if t == "m":
        return ("m", permute_fields(rng, e[1]), permute_fields(rng, e[2]))
    if t == "v":
        return ("v", e[1], permute_fields(rng, e[2]))
    if t == "a":
        return ("a", [permute_fields(rng, x) for x in e[1]])
    return e


def size(e):
    t = e[0]
    if t == "r":
        return 1 + sum(1 + (size(f[5]) if f[5] is not None else 0) for f in e[1])
    if t == "m":
        return 1 + size(e[1]) + size(e[2])
    if t == "v":
        return 1 + size(e[2])
    if t == "a":
        return 1 + sum(size(x) for x in e[1])
    return 1


# ------------------------------------------------------------------ priority chains
CHAIN_PRIOS = ["d", "x", ("p", 1, 1), ("p", -1, 2), "F"]
CHAIN_VALUES = [None, ("n", 1, 1), ("n", 2, 1), ("r", [(1, "x", 0, 0, [], ("n", 1, 1))])]


def chain_operand(code):
    """operand number `code` of the single-field universe: {} or {a | prio [| optional] [| not_exported] [= value]}"""
    if code == 0:
        return ("r", [])
    code -= 1
    v = CHAIN_VALUES[code % len(CHAIN_VALUES)]
    code //= len(CHAIN_VALUES)
    p = CHAIN_PRIOS[code % len(CHAIN_PRIOS)]
    code //= len(CHAIN_PRIOS)
    flags = code % 3
    return ("r", [(0, p, int(flags == 1), int(flags == 2), [], v)])


N_CHAIN_OPERANDS = 1 + len(CHAIN_VALUES) * len(CHAIN_PRIOS) * 3


def gen_chain_triple(rng):
    """three operands defining (or not) the SAME field with every combination of priority annotation, presence of
    a value, optional / not_exported: the cases where bracketing and operand order could matter (a priority
    annotation on a field without value, a value overridden twice, ...)"""
    def pick():
        # flags rarely, so that most triples are about priorities and values
        c = rng.below(1 + len(CHAIN_VALUES) * len(CHAIN_PRIOS))
        if c and rng.chance(1, 6):
            c += len(CHAIN_VALUES) * len(CHAIN_PRIOS) * rng.range(1, 2)
        return chain_operand(c)
    return pick(), pick(), pick()


def all_chain_triples(flags=False):
    n = N_CHAIN_OPERANDS if flags else 1 + len(CHAIN_VALUES) * len(CHAIN_PRIOS)
    return [(chain_operand(i), chain_operand(j), chain_operand(k)) for i in range(n) for j in range(n) for k in range(n)]
