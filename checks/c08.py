"""C08 - delayed contracts guard every access path and nothing else.

Cases are `observe (v | T)` programs: a container literal v (array, array of arrays, record, function)
with at most one special component (a violating `"bad"` or a failing `std.fail_with "boom"`) at a
chosen position, an annotation T, and an observer pipeline.  The same abstract case is printed (a)
as an S-expression for the extracted Coq model and (b) as Nickel source for nkeval.

Three things are compared per case:
  model   : extracted Coq model (coq/Delayed/Model.v) run on (v | T)
  impl    : nkeval on the Nickel text of observe (v | T), and of observe v (no annotation)
  oracle  : an independent reach table in this file (`py_reach`: a plain-Python lazy interpretation of
            the observers that knows nothing about contracts): impl(v | T) must be the component's
            error iff the special component is reached, and equal to impl(v) otherwise.
"""
import json
import os
import re
from vlib import core

META = {
    "harness_bins": ["nkeval"],
    "extract": "C08.v",
    "technique": "Coq proof on a mechanism-shaped model of pending contracts (arrays = (elements, pending_contracts), fields with pending contracts, primitives building closures exactly where operation.rs does): per-primitive pending_tracked lemmas + pipeline composition; a step-indexed logical relation between two runs that differ at one marked component and in how/with which labels the obligations are stored gives, for every pipeline of the 54 supported observers; a pending list guards like the conjunction of its contracts and only the set of (flat) contracts of a stack is observable and every fuel, laziness (bottom_insensitive), blames-iff-reached and annotated-run = unannotated-run when not reached; refutation lemmas for two deliberately broken primitives and for the blame label after ArrayConcat. The model is tied to nickel by differential runs of generated `observe (v | T)` programs (extracted model vs nkeval, annotated and unannotated) with an independent reach-table oracle on the implementation",
    "level_text": "Theorems (coq/Props/C08.v, 43 statements, closed under the global context) quantify over every container literal, position, annotation of the stated families, every pipeline (any length and nesting) of the supported observers, every fuel: (T0) each primitive delivers every component under its obligations and this composes along pipelines; (T0) a violating component is blamed iff the observation marker put in its place in the *unannotated* run comes out, otherwise the annotated run equals the unannotated one; (T0) an unreached component can be replaced by anything, e.g. a failing one, without changing the outcome; (T1) $func wraps every call; the closed index-arithmetic reach table for single observers agrees with the marker semantics. Outcomes of whole pipelines are compared up to the polarity of a blame; at the primitive level the labels are exact (C08_pending_tracked_concat: every element of a concatenation keeps the pending list of its own operand; the pre-95e63eb ArrayConcat is refuted: C08_concat_prefix_label_refuted - that defect was found by this check and is fixed). The model is hand-written from operation.rs / record.rs / merge.rs / internals.ncl / std.ncl; the tie is the correspondence run (same generated programs on the extracted model and on nickel built from /repo) plus the direct oracle (Python reach table; annotated vs unannotated run).",
    "level_note": "Trusted: Coq kernel; extraction (ExtrOcamlBasic, ExtrOcamlNativeString); the hand-written model's reading of the Rust/Nickel sources; the generator, Nickel printer and Python reach table. Partial: record merge (`&`) is modelled and generated but outside the theorems (a merged field is `(x & y) | contracts`, the merge inspects x before the check); the blames-iff-reached theorems need the annotation to check every component against Number with the listed names = the record's fields (wf_case), a record type / open record contract that reorders the fields changes the order in which `==` visits them (covered by the correspondence only); function containers have their own theorems (func_wraps_call, func_domain_blames_iff_forced). Not modelled: thunk sharing/memoisation, environments other than the recursive environment of a record (modelled: a field definition sees its siblings with their pending contracts, re-bound after every lazily applied contract or merge; recursive records are outside the logical-relation theorems and have their own: C08_sibling_ref_guarded, C08_dependent_blames), labels other than polarity, contract deduplication (push_dedup modelled as push), optional/undefined fields, the sealing contracts attached by the stdlib's polymorphic static types (C11), sort/generate/partition, array merge, non-integer numbers.",
}

# --------------------------------------------------------------------------------------------------
# abstract syntax = nested tuples; first element is the constructor name

BAD = ("s", "bad")
FAIL = ("fail",)


def sx(x):
    """S-expression text of an abstract term."""
    if isinstance(x, tuple):
        if x and x[0] == "s" and len(x) == 2:
            return '"%s"' % x[1]
        if x == FAIL:
            return "fail"
        if x and x[0] == "n":
            return str(x[1])
        return "(" + " ".join(sx(y) for y in x) + ")"
    if isinstance(x, bool):
        return "true" if x else "false"
    if isinstance(x, list):
        return "(" + " ".join(sx(y) for y in x) + ")"
    return str(x)


def nk_num(z):
    return str(z) if z >= 0 else "(%d)" % z


def nk_atom(a):
    if a == FAIL:
        return '(std.fail_with "boom")'
    if a[0] == "s":
        return json.dumps(a[1])
    return nk_num(a[1])


def nk_ctr(c):
    if c == "num":
        return "Number"
    if c == "str":
        return "String"
    if c == "dyn":
        return "Dyn"
    k = c[0]
    if k == "gt":
        return "(std.contract.from_predicate (fun v => std.is_number v && v > %s))" % nk_num(c[1])
    if k == "arr":
        return "Array (%s)" % nk_ctr(c[1])
    if k == "dictt":
        return "{_ : %s}" % nk_ctr(c[1])
    if k == "dictc":
        return "{_ | %s}" % nk_ctr(c[1])
    if k == "rect":
        return "{" + ", ".join("%s : %s" % (n, nk_ctr(c[2])) for n in c[1]) + "}"
    if k == "recc":
        return "{" + ", ".join(["%s | %s" % (n, nk_ctr(c[2])) for n in c[1]] + ([".."] if c[3] == "open" else [])) + "}"
    if k == "fun":
        return "(%s) -> (%s)" % (nk_ctr(c[1]), nk_ctr(c[2]))
    raise ValueError(c)


def nk_lit(l):
    if l[0] == "larr":
        body = "[" + ", ".join(nk_atom(a) for a in l[1]) + "]"
    else:
        body = "{" + ", ".join("%s = %s" % (k[1], nk_atom(a)) for k, a in l[1]) + "}"
    if l[2] == "none":
        return body
    return "(%s | %s)" % (body, "C" if _alias[0] is not None and l[2] == _alias[0] else nk_ctr(l[2]))


_alias = [None]


F2 = {"add": "a + b", "count": "a + 1", "fst": "a", "snd": "b"}


def nk_fun2(f):
    if isinstance(f, tuple):
        body = "b + %s" % nk_num(f[1]) if f[0] == "sndadd" else nk_num(f[1])
    else:
        body = F2[f]
    return "(fun a b => %s)" % body


_ctr = [0]


def nk_fun(o):
    _ctr[0] += 1
    v = "v%d" % _ctr[0]
    return "(fun %s => %s)" % (v, nk_body(o, v))


def nk_body(o, v):
    """Nickel expression for observer o applied to the variable / expression v (v is used once,
    or bound by a let when it must be used twice)."""
    if o == "id":
        return v
    if isinstance(o, str):
        simple = {"first": "std.array.first %s", "last": "std.array.last %s", "length": "std.array.length %s",
                  "reverse": "std.array.reverse %s", "flatten": "std.array.flatten %s",
                  "sort": "std.array.sort (fun a b => if a < b then 'Lesser else if a == b then 'Equal else 'Greater) %s",
                  "fields": "std.record.fields %s", "values": "std.record.values %s",
                  "freeze": "%%record/freeze%% %s", "toarray": "std.record.to_array %s",
                  "fromarray": "std.record.from_array %s",
                  "pathead": "(%s |> match { [h, ..t] => h })", "pattail": "(%s |> match { [h, ..t] => t })",
                  "serde": "std.deserialize 'Json (std.serialize 'Json %s)"}
        if o in simple:
            return simple[o] % v
        if o in ("seq", "deepseq"):
            _ctr[0] += 1
            w = "w%d" % _ctr[0]
            return "(let %s = %s in std.%s %s %s)" % (w, v, "seq" if o == "seq" else "deep_seq", w, w)
        raise ValueError(o)
    k = o[0]
    if k == "const":
        return "(%s (%s))" % (nk_constfun(nk_num(o[1])), v)
    if k == "constb":
        return "(%s (%s))" % (nk_constfun("true" if o[1] else "false"), v)
    if k == "consts":
        return "(%s (%s))" % (nk_constfun(json.dumps(o[1][1])), v)
    if k == "addk":
        return "(%s + %s)" % (v, nk_num(o[1]))
    if k == "gtk":
        return "(%s > %s)" % (v, nk_num(o[1]))
    if k == "eqk":
        return "(%s == %s)" % (v, nk_num(o[1]))
    if k == "comp":
        return nk_body(o[2], "(" + nk_body(o[1], v) + ")")
    if k == "atp":
        return "%%array/at%% %s %d" % (v, o[1])
    if k == "at":
        return "std.array.at %d %s" % (o[1], v)
    if k == "map":
        return "std.array.map %s %s" % (nk_fun(o[1]), v)
    if k == "concatr":
        return "(%s @ %s)" % (v, nk_lit(o[1]))
    if k == "concatl":
        return "(%s @ %s)" % (nk_lit(o[1]), v)
    if k == "slice":
        return "std.array.slice %d %d %s" % (o[1], o[2], v)
    if k == "slicep":
        return "%%array/slice%% %d %d %s" % (o[1], o[2], v)
    if k in ("foldl", "foldr"):
        return "std.array.fold_%s %s %s %s" % ("left" if k == "foldl" else "right", nk_fun2(o[1]), nk_num(o[2]), v)
    if k in ("filter", "any", "all"):
        return "std.array.%s %s %s" % (k, nk_fun(o[1]), v)
    if k == "elem":
        return "std.array.elem %s %s" % (nk_num(o[1]), v)
    if k == "eqr":
        return "(%s == %s)" % (v, nk_lit(o[1]))
    if k == "eql":
        return "(%s == %s)" % (nk_lit(o[1]), v)
    if k == "ctr":
        return "(%s | %s)" % (v, nk_ctr(o[1]))
    if k in ("eq2", "concat2", "merge2", "elemof"):
        # the argument is bound once and used twice: both uses share the same value
        _ctr[0] += 1
        w = "w%d" % _ctr[0]
        if k == "elemof":
            return "(let %s = %s in std.array.elem (%s) %s)" % (w, v, nk_body(o[1], w), w)
        op = {"eq2": "==", "concat2": "@", "merge2": "&"}[k]
        return "(let %s = %s in ((%s) %s (%s)))" % (w, v, nk_body(o[1], w), op, nk_body(o[2], w))
    if k == "access":
        return "(%s).%s" % (v, o[1][1])
    if k == "get":
        return "std.record.get %s %s" % (json.dumps(o[1][1]), v)
    if k == "recmap":
        return "std.record.map %s %s" % (nk_fun2(o[1]), v)
    if k == "mapvalues":
        return "std.record.map_values %s %s" % (nk_fun(o[1]), v)
    if k == "patfield":
        return "(%s |> match { {%s = pv, ..rest} => pv })" % (v, o[1][1])
    if k == "patrest":
        return "(%s |> match { {%s = pv, ..rest} => rest })" % (v, o[1][1])
    if k == "recfilter":
        q = o[1]
        body = "true" if q == "true" else ("v > %s" % nk_num(q[1]) if q[0] == "valgt" else "k == %s" % json.dumps(q[1][1]))
        return "std.record.filter (fun k v => %s) %s" % (body, v)
    if k == "insert":
        return "std.record.insert %s %s %s" % (json.dumps(o[1][1]), nk_num(o[2]), v)
    if k == "remove":
        return "std.record.remove %s %s" % (json.dumps(o[1][1]), v)
    if k == "hasfield":
        return "std.record.has_field %s %s" % (json.dumps(o[1][1]), v)
    if k == "merger":
        return "(%s & %s)" % (v, nk_lit(o[1]))
    if k == "mergel":
        return "(%s & %s)" % (nk_lit(o[1]), v)
    if k == "call":
        return "(%s %s)" % (v, nk_atom(o[1]))
    raise ValueError(o)


def nk_constfun(body):
    _ctr[0] += 1
    return "(fun _c%d => %s)" % (_ctr[0], body)


def nk_container(k):
    if k[0] == "karr":
        return "[" + ", ".join(nk_atom(a) for a in k[1:]) + "]"
    if k[0] == "karr2":
        return "[" + ", ".join("[" + ", ".join(nk_atom(a) for a in r) + "]" for r in k[1:]) + "]"
    if k[0] == "krec":
        return "{" + ", ".join("%s = %s" % (f[0][1], nk_atom(f[1])) for f in k[1:]) + "}"
    if k[0] == "kfun":
        return nk_fun(k[1])
    if k[0] == "ktree":
        return nk_tree(k[1])
    if k[0] == "krecr":
        return "{" + ", ".join("%s = %s" % (f[0][1], nk_fdef(f[1])) for f in k[1:]) + "}"
    raise ValueError(k)


def nk_fdef(d):
    if d[0] == "datom":
        return nk_atom(d[1])
    if d[0] == "dcomp":      # a computed value: not a literal constant for the evaluator
        a = d[1]
        return nk_atom(a) if a == FAIL else ("(\"\" ++ %s)" % nk_atom(a) if a[0] == "s" else "(0 + %s)" % nk_atom(a))
    return "(%s)" % nk_body(d[1], d[2][1])      # a function of a sibling, through the recursive reference


def nk_tree(t):
    if t[0] == "l":
        return "[" + ", ".join(nk_tree(x) for x in t[1:]) + "]"
    if t[0] == "r":
        return "{" + ", ".join("%s = %s" % (f[0][1], nk_tree(f[1])) for f in t[1:]) + "}"
    return nk_atom(t)


def nk_program(k, T, o, entry="ann", alias=False, annotated=True):
    """observe (k | T).  entry "ann": `let x = (k | T) in o x`; entry "dom": the container goes through
    the domain of a function contract, `let f | T -> Dyn = fun x => o x in f k`.  With alias the
    annotation is bound once (`let C = T in`) and shared by the literals that carry the same annotation
    (physically equal contracts are the ones contract_eq equates)."""
    _ctr[0] = 0
    _alias[0] = T if alias else None
    c = nk_container(k)
    pre = "let C = %s in " % nk_ctr(T) if alias else ""
    tt = "C" if alias else nk_ctr(T)
    try:
        if entry == "dom":
            f = "fun x => %s" % nk_body(o, "x")
            if annotated:
                return "%slet f | %s -> Dyn = %s in f %s" % (pre, tt, f, c)
            return "%slet f = %s in f %s" % (pre, f, c)
        if annotated and T != "none":
            c = "(%s | %s)" % (c, tt)
        return "%slet x = %s in %s" % (pre, c, nk_body(o, "x"))
    finally:
        _alias[0] = None


def case_program(case, annotated=True):
    if case.get("kind") == "stack":
        return stack_program(case, annotated)
    return nk_program(case["k"], case["T"], case["o"], case.get("entry", "ann"), case.get("alias", False), annotated)


# --------------------------------------------------------------------------------------------------
# the independent reach table: plain lazy lists/dicts in Python, no contracts anywhere

class Probe(Exception):
    pass


class Stuck(Exception):
    """the observer pipeline fails on its own (type error, index out of bounds, ...)"""


class Th:
    __slots__ = ("f", "v", "done")

    def __init__(self, f):
        self.f, self.done, self.v = f, False, None

    def get(self):
        if not self.done:
            self.v = self.f()
            self.done = True
        return self.v


def th_val(v):
    t = Th(None)
    t.v, t.done = v, True
    return t


def py_atom(a, mark):
    if mark:
        def boom():
            raise Probe()
        return Th(boom)
    if a == FAIL:
        def f():
            raise Stuck("fail")
        return Th(f)
    return th_val(a[1])


def py_lit(l):
    if l[0] == "larr":
        return [py_atom(a, False) for a in l[1]]
    return {k[1]: py_atom(a, False) for k, a in l[1]}


def need(cond):
    if not cond:
        raise Stuck("type")


def isnum(v):
    return isinstance(v, int) and not isinstance(v, bool)


def py_fun2(f, a, b):
    if f == "add":
        x = a.get(); need(isnum(x)); y = b.get(); need(isnum(y)); return x + y
    if f == "count":
        x = a.get(); need(isnum(x)); return x + 1
    if f == "fst":
        return a.get()
    if f == "snd":
        return b.get()
    if f[0] == "sndadd":
        y = b.get(); need(isnum(y)); return y + f[1]
    return f[1]


class Maybe(Exception):
    """whether the component is reached depends on an evaluation order the property does not fix"""


def force_all(thunks):
    """force every thunk; a probe together with an independent failure is order dependent"""
    probe = stuck = False
    for t in thunks:
        try:
            py_force(t.get())
        except Probe:
            probe = True
        except Stuck:
            stuck = True
    if probe and stuck:
        raise Maybe()
    if probe:
        raise Probe()
    if stuck:
        raise Stuck("component")


def py_force(v):
    if isinstance(v, list):
        force_all(v)
    elif isinstance(v, dict):
        force_all(list(v.values()))
    elif callable(v):
        raise Stuck("function")
    return v


def py_eq(a, b):
    x = a.get(); y = b.get()
    if isinstance(x, list) and isinstance(y, list):
        if len(x) != len(y):
            return False
        for p, q in reversed(list(zip(x, y))):
            if not py_eq(p, q):
                return False
        return True
    if isinstance(x, dict) and isinstance(y, dict):
        if set(x) != set(y):
            return False
        probe = stuck = differ = False
        for k in x:
            try:
                if not py_eq(x[k], y[k]):
                    differ = True
            except Probe:
                probe = True
            except Stuck:
                stuck = True
        if probe and (differ or stuck):
            raise Maybe()          # the order of the fields decides (and annotations reorder fields)
        if stuck and differ:
            raise Maybe()
        if probe:
            raise Probe()
        if stuck:
            raise Stuck("field")
        return not differ
    if callable(x) and callable(y):
        raise Stuck("incomparable")
    return type(x) == type(y) and x == y


def py_merge(a, b):
    x = a.get(); y = b.get()
    if isinstance(x, dict) and isinstance(y, dict):
        r = {}
        for k in x:
            if k in y:
                r[k] = Th(lambda k=k: py_merge(x[k], y[k]))
            else:
                r[k] = x[k]
        for k in y:
            if k not in x:
                r[k] = y[k]
        return r
    need(not isinstance(x, (list, dict)) and not isinstance(y, (list, dict)) and not callable(x) and not callable(y))
    need(type(x) == type(y) and x == y)
    return x


MERGE_OBS = ("merger", "mergel", "merge2")


def py_obs(o, t):
    """value (weak head normal form) of observer o applied to thunk t"""
    if o == "id" or o == "seq":
        return t.get()
    if o == "deepseq":
        py_force(t.get())
        return t.get()
    if o == "serde":
        v = py_force(t.get())

        def copy(v):
            if isinstance(v, list):
                return [th_val(copy(e.get())) for e in v]
            if isinstance(v, dict):
                return {k: th_val(copy(e.get())) for k, e in v.items()}
            return v
        return copy(v)
    if isinstance(o, str):
        v = t.get()
        if o == "fromarray":
            need(isinstance(v, list))
            r = {}
            for e in v:
                b = e.get(); need(isinstance(b, dict) and set(b) == {"field", "value"})
                nm = b["field"].get(); need(isinstance(nm, str)); need(nm not in r)
                r[nm] = b["value"]
            return r
        if o in ("pathead", "pattail"):
            need(isinstance(v, list) and len(v) > 0)
            return v[0].get() if o == "pathead" else v[1:]
        if o in ("first", "last", "length", "reverse", "flatten", "sort"):
            need(isinstance(v, list))
            if o == "first":
                need(len(v) > 0); return v[0].get()
            if o == "last":
                need(len(v) > 0); return v[-1].get()
            if o == "length":
                return len(v)
            if o == "reverse":
                return list(reversed(v))
            if o == "sort":
                if len(v) <= 1:
                    return v
                vals = []
                for e in v:
                    x = e.get(); need(isnum(x)); vals.append(x)
                return [th_val(x) for x in sorted(vals)]
            out = []
            for r in v:
                rv = r.get(); need(isinstance(rv, list)); out += rv
            return out
        need(isinstance(v, dict))
        if o == "fields":
            return [th_val(k) for k in sorted(v)]
        if o == "values":
            return [v[k] for k in sorted(v)]
        if o == "freeze":
            return v
        if o == "toarray":
            return [th_val({"field": th_val(k), "value": v[k]}) for k in sorted(v)]
        raise ValueError(o)
    k = o[0]
    if k == "const" or k == "constb":
        return o[1]
    if k == "consts":
        return o[1][1]
    if k == "comp":
        return py_obs(o[2], Th(lambda: py_obs(o[1], t)))
    if k in ("addk", "gtk"):
        x = t.get(); need(isnum(x)); return x + o[1] if k == "addk" else x > o[1]
    if k == "eqk":
        return py_eq(t, th_val(o[1]))
    if k == "eqr":
        return py_eq(t, th_val(py_lit(o[1])))
    if k == "eql":
        return py_eq(th_val(py_lit(o[1])), t)
    if k == "merger":
        return py_merge(t, th_val(py_lit(o[1])))
    if k == "mergel":
        return py_merge(th_val(py_lit(o[1])), t)
    if k == "ctr":
        return t.get()
    if k == "eq2":
        return py_eq(Th(lambda: py_obs(o[1], t)), Th(lambda: py_obs(o[2], t)))
    if k == "merge2":
        return py_merge(Th(lambda: py_obs(o[1], t)), Th(lambda: py_obs(o[2], t)))
    if k == "concat2":
        a = py_obs(o[1], t); need(isinstance(a, list)); b = py_obs(o[2], t); need(isinstance(b, list))
        return a + b
    if k == "elemof":
        v = t.get(); need(isinstance(v, list))
        target = Th(lambda: py_obs(o[1], t))
        for e in v:
            if py_eq(e, target):
                return True
        return False
    if k == "call":
        f = t.get(); need(callable(f)); return f(py_atom(o[1], o[1] == ("probe",)))
    if k == "probe":
        raise Probe()
    v = t.get()
    if k in ("atp", "at", "map", "concatr", "concatl", "slice", "slicep", "foldl", "foldr", "filter", "any", "all", "elem"):
        need(isinstance(v, list))
        if k in ("atp", "at"):
            need(o[1] < len(v)); return v[o[1]].get()
        if k == "map":
            return [Th(lambda e=e: py_obs(o[1], e)) for e in v]
        if k == "concatr":
            return v + py_lit(o[1])
        if k == "concatl":
            return py_lit(o[1]) + v
        if k in ("slice", "slicep"):
            need(o[1] <= o[2] <= len(v)); return v[o[1]:o[2]]
        if k == "foldl":
            acc = th_val(o[2])
            for e in v:
                acc = th_val(py_fun2(o[1], acc, e))
            return acc.get()
        if k == "foldr":
            def go(i):
                if i == len(v):
                    return o[2]
                return py_fun2(o[1], v[i], Th(lambda: go(i + 1)))
            return go(0)
        if k == "filter":
            out = []
            for e in v:
                b = py_obs(o[1], e); need(isinstance(b, bool))
                if b:
                    out.append(e)
            return out
        if k in ("any", "all", "elem"):
            pred = o[1] if k != "elem" else ("eqk", o[1])
            for e in v:
                b = py_obs(pred, e); need(isinstance(b, bool))
                if k == "all" and not b:
                    return False
                if k != "all" and b:
                    return True
            return k == "all"
    need(isinstance(v, dict))
    if k in ("access", "get"):
        need(o[1][1] in v); return v[o[1][1]].get()
    if k == "recmap":
        return {n: Th(lambda n=n, e=e: py_fun2(o[1], th_val(n), e)) for n, e in v.items()}
    if k == "mapvalues":
        return {n: Th(lambda e=e: py_obs(o[1], e)) for n, e in v.items()}
    if k == "patfield":
        need(o[1][1] in v); return v[o[1][1]].get()
    if k == "patrest":
        need(o[1][1] in v); r = dict(v); del r[o[1][1]]; return r
    if k == "recfilter":
        q, r = o[1], {}
        for nm in sorted(v):
            if q == "true":
                keep = True
            elif q[0] == "valgt":
                x = v[nm].get(); need(isnum(x)); keep = x > q[1]
            else:
                keep = nm == q[1][1]
            if keep:
                r[nm] = v[nm]
        return r
    if k == "insert":
        need(o[1][1] not in v); r = dict(v); r[o[1][1]] = th_val(o[2]); return r
    if k == "remove":
        need(o[1][1] in v); r = dict(v); del r[o[1][1]]; return r
    if k == "hasfield":
        return o[1][1] in v
    raise ValueError(o)


def py_container(k, pos):
    if k[0] == "karr":
        return [py_atom(a, pos == (i,)) for i, a in enumerate(k[1:])]
    if k[0] == "karr2":
        return [th_val([py_atom(a, pos == (i, j)) for j, a in enumerate(r)]) for i, r in enumerate(k[1:])]
    if k[0] == "krec":
        return {f[0][1]: py_atom(f[1], pos == (i,)) for i, f in enumerate(k[1:])}
    if k[0] == "kfun":
        return lambda arg: py_obs(k[1], arg)
    if k[0] == "ktree":
        return py_tree(k[1], pos, ()).get()
    if k[0] == "krecr":
        r = {}
        for i, f in enumerate(k[1:]):
            d = f[1]
            if d[0] == "ddep":
                r[f[0][1]] = Th(lambda d=d: py_obs(d[1], Th(lambda: r[d[2][1]].get())))
            else:
                r[f[0][1]] = py_atom(d[1], pos == (i,))
        return r
    raise ValueError(k)


def py_tree(t, pos, here):
    if t[0] == "l":
        return th_val([py_tree(x, pos, here + (i,)) for i, x in enumerate(t[1:])])
    if t[0] == "r":
        return th_val({f[0][1]: py_tree(f[1], pos, here + (i,)) for i, f in enumerate(t[1:])})
    return py_atom(t, pos == here)


def subst_call_arg(o, a):
    if isinstance(o, tuple):
        if o[0] == "call":
            return ("call", a)
        if o[0] == "comp":
            return ("comp", subst_call_arg(o[1], a), subst_call_arg(o[2], a))
    return o


def py_reach(k, o, pos):
    """True / False: the component at pos is observed by `export (o k)`; "maybe" when that depends on
    an evaluation order the property does not fix; None when the pipeline fails on its own first.
    For a function container pos is ("arg",) (the call's argument) or ("res",) (the call's result)."""
    try:
        if k[0] == "kfun" and pos == ("arg",):
            o = subst_call_arg(o, ("probe",))
        if k[0] == "kfun" and pos == ("res",):
            k = ("kfun", ("probe",))
        py_force(py_obs(o, th_val(py_container(k, pos))))
        return False
    except Probe:
        return True
    except Maybe:
        return "maybe"
    except Stuck:
        return None
    except RecursionError:
        return None


# --------------------------------------------------------------------------------------------------
# generator

NUM = "num"
T_ARR = ("arr", NUM)
T_ARR2 = ("arr", ("arr", NUM))
NAMES = ["a", "b", "c", "d"]


def s(x):
    return ("s", x)


def n(z):
    return ("n", z)


def gen_lit_arr(rng):
    xs = [n(rng.range(0, 5)) for _ in range(rng.range(0, 2))]
    return ("larr", xs, rng.choice(["none", T_ARR, T_ARR]))


def gen_scalar_fun(rng):
    return rng.choice([("addk", 1), "id", ("const", 0), ("gtk", 1), ("eqk", 2), ("addk", 1), "id"])


def gen_pred(rng):
    return rng.choice([("gtk", 0), ("gtk", 2), ("constb", True), ("constb", False), ("eqk", 2)])


def gen_fun2(rng):
    return rng.choice(["add", "add", "count", "fst", "snd", ("sndadd", 1), ("const", 7)])


def step_from(rng, ty, shape):
    """one observer applicable to a value of type ty; returns (obs, new type, new shape).
    Types: arrn (array of numbers), arr2, arrs (strings), arrb, arrrec, rec, num, bool, str, fun."""
    ln = shape.get("len", 2)
    idx = lambda: rng.range(0, max(ln - 1, 0)) if not rng.chance(1, 12) else ln + rng.range(0, 1)
    if ty in ("arrn", "arr2", "rec") and rng.chance(1, 9):
        # the (shared) value is used twice: compared / concatenated / merged with itself or with
        # something derived from itself
        same = lambda: rng.choice(["id", "id", "id", "seq"])
        if ty == "rec":
            names = shape["names"]
            k = rng.below(10)
            if k < 6:
                return ("eq2", same(), rng.choice(["id", "id", "seq", "freeze", ("recmap", "snd"), ("mapvalues", "id")])), "bool", {}
            if k < 8:
                return ("merge2", "id", rng.choice(["id", "freeze"])), "rec", shape
            return ("eq2", ("access", s(rng.choice(names) if names else "zz")), ("get", s(rng.choice(names) if names else "zz"))), "bool", {}
        k = rng.below(10)
        if k < 5:
            other = ["id", "id", "seq", ("map", "id"), ("slicep", 0, ln), ("comp", "reverse", "reverse")]
            return ("eq2", same(), rng.choice(other)), "bool", {}
        if k < 7:
            return ("concat2", rng.choice(["id", "reverse", ("map", "id")]), rng.choice(["id", "id", "reverse"])), ty, dict(shape, len=2 * ln)
        sel = rng.choice(["first", "last", ("atp", rng.range(0, max(ln - 1, 0)))])
        return ("elemof", sel), "bool", {}
    if ty in ("arrn", "arrs", "arrb"):
        c = rng.below(100)
        if c < 16:
            i = idx()
            return rng.choice([("atp", i), ("at", i)]), {"arrn": "num", "arrs": "str", "arrb": "bool"}[ty], {}
        if c < 19:
            return rng.choice(["first", "last", "pathead"]), {"arrn": "num", "arrs": "str", "arrb": "bool"}[ty], {}
        if c < 21:
            return "pattail", ty, {"len": max(ln - 1, 0)}
        if c < 27:
            return "length", "num", {}
        if c < 38 and ty == "arrn":
            f = gen_scalar_fun(rng)
            return ("map", f), ("arrb" if isinstance(f, tuple) and f[0] in ("gtk", "eqk") else "arrn"), shape
        if c < 51 and ty == "arrn":
            l = gen_lit_arr(rng)
            return (rng.choice(["concatr", "concatl"]), l), "arrn", {"len": ln + len(l[1])}
        if c < 58:
            a = rng.range(0, ln)
            b = rng.range(a, ln) if not rng.chance(1, 12) else ln + 1
            return (rng.choice(["slice", "slicep"]), a, b), ty, {"len": max(b - a, 0)}
        if c < 67 and ty == "arrn":
            return (rng.choice(["foldl", "foldr"]), gen_fun2(rng), rng.range(0, 2)), "num", {}
        if c < 75 and ty == "arrn":
            k = rng.choice(["filter", "any", "all"])
            return (k, gen_pred(rng)), ("arrn" if k == "filter" else "bool"), shape
        if c < 78 and ty == "arrn":
            return ("elem", rng.range(0, 4)), "bool", {}
        if c < 83:
            return ("sort" if ty == "arrn" and rng.chance(1, 3) else "reverse"), ty, shape
        if c < 88:
            return rng.choice(["seq", "deepseq", "serde"]), ty, shape
        if c < 96 and ty == "arrn":
            xs = [n(rng.range(0, 5)) for _ in range(ln if rng.chance(3, 4) else rng.range(0, 3))]
            if "vals" in shape and len(shape["vals"]) == ln and rng.chance(2, 3):
                xs = [n(v) for v in shape["vals"]]          # equal everywhere but (maybe) at one position
                if xs and rng.chance(1, 4):
                    xs[rng.below(len(xs))] = n(9)
            return (rng.choice(["eqr", "eql"]), ("larr", xs, rng.choice(["none", T_ARR]))), "bool", {}
        if ty == "arrn":
            return ("ctr", T_ARR), ty, shape
        return "reverse", ty, shape
    if ty == "arec":       # array of records {f = atom | array}
        f = s(shape["names"][0])
        ity = "rec" if shape["inner"] == "atom" else "recarr"
        ish = {"names": list(shape["names"]), "ilen": shape.get("ilen", 1)}
        c = rng.below(100)
        if c < 40:
            i = rng.range(0, max(ln - 1, 0))
            return rng.choice([("atp", i), ("at", i), "first", "last", "pathead"]), ity, ish
        if c < 60:
            return ("map", ("access", f)), ("arrn" if shape["inner"] == "atom" else "arr2"), {"len": ln, "inner": shape.get("ilen", 1)}
        if c < 66:
            return "length", "num", {}
        if c < 76:
            return rng.choice(["reverse", "seq", "pattail"]), ty, (shape if c < 73 else dict(shape, len=max(ln - 1, 0)))
        if c < 88:
            return rng.choice(["deepseq", "serde"]), ty, shape
        if c < 94:
            return ("eq2", "id", rng.choice(["id", "seq"])), "bool", {}
        return ("concat2", "id", "id"), ty, dict(shape, len=2 * ln)
    if ty == "recarr":     # record {f = array of atoms}
        f = s(shape["names"][0])
        c = rng.below(100)
        if c < 55:
            return (rng.choice(["access", "get", "patfield"]), f), "arrn", {"len": shape.get("ilen", 1)}
        if c < 70:
            return "values", "arr2", {"len": 1, "inner": shape.get("ilen", 1)}
        if c < 78:
            return "fields", "arrs", {"len": 1}
        if c < 90:
            return rng.choice(["deepseq", "serde", "freeze"]), ty, shape
        return ("eq2", "id", "id"), "bool", {}
    if ty == "rrec":       # record / dictionary of records
        keys = shape["keys"]
        ity = "rec" if shape["inner"] == "atom" else "recarr"
        ish = {"names": list(shape["names"]), "ilen": shape.get("ilen", 1)}
        c = rng.below(100)
        if c < 50:
            return (rng.choice(["access", "get", "patfield"]), s(rng.choice(keys))), ity, ish
        if c < 65:
            return "values", "arec", {"len": len(keys), "names": shape["names"], "inner": shape["inner"], "ilen": shape.get("ilen", 1)}
        if c < 72:
            return "fields", "arrs", {"len": len(keys)}
        if c < 88:
            return rng.choice(["deepseq", "serde", "freeze", "seq"]), ty, shape
        if c < 94:
            return ("eq2", "id", rng.choice(["id", "freeze"])), "bool", {}
        return ("merge2", "id", "id"), ty, shape
    if ty == "arr2":
        c = rng.below(100)
        if c < 15:
            return ("atp", idx()), "arrn", {"len": shape.get("inner", 2)}
        if c < 22:
            return rng.choice(["first", "last"]), "arrn", {"len": shape.get("inner", 2)}
        if c < 28:
            return "length", "num", {}
        if c < 55:
            f = rng.choice(["length", ("atp", 0), ("foldl", "add", 0), ("foldl", "count", 0), "first", ("map", ("addk", 1)), "id"])
            nt = "arr2" if f == "id" or (isinstance(f, tuple) and f[0] == "map") else "arrn"
            return ("map", f), nt, shape
        if c < 75:
            return "flatten", "arrn", {"len": ln * shape.get("inner", 2)}
        if c < 82:
            return "reverse", ty, shape
        if c < 90:
            a = rng.range(0, ln)
            return ("slice", a, rng.range(a, ln)), ty, shape
        return rng.choice(["seq", "deepseq", "serde"]), ty, shape
    if ty == "arrrec":
        c = rng.below(100)
        if c < 30:
            return ("map", ("access", s("value"))), "arrn", shape
        if c < 50:
            return ("map", ("access", s("field"))), "arrs", shape
        if c < 65:
            return "length", "num", {}
        if c < 80:
            return ("comp", ("atp", idx()), ("access", s(rng.choice(["value", "field"])))), "num", {}
        if c < 92 and "names" in shape:
            return "fromarray", "rec", {"names": list(shape["names"])}
        return rng.choice(["deepseq", "serde", "reverse"]), ty, shape
    if ty == "rec":
        names = shape["names"]
        c = rng.below(100)
        nm = lambda: rng.choice(names) if names and not rng.chance(1, 15) else "zz"
        if c < 17:
            return (rng.choice(["access", "get", "patfield"]), s(nm())), "num", {}
        if c < 20:
            k = nm()
            return ("patrest", s(k)), "rec", {"names": [x for x in names if x != k]}
        if c < 27:
            return "fields", "arrs", {"len": len(names)}
        if c < 38:
            return "values", "arrn", {"len": len(names)}
        if c < 47:
            return ("recmap", rng.choice(["snd", ("sndadd", 1), ("const", 0), "fst"])), "rec", shape
        if c < 54:
            return ("mapvalues", gen_scalar_fun(rng)), "rec", shape
        if c < 58:
            return "freeze", "rec", shape
        if c < 63:
            k = rng.choice([x for x in NAMES + ["e"] if x not in names] or ["e"]) if not rng.chance(1, 10) else nm()
            return ("insert", s(k), rng.range(0, 5)), "rec", {"names": names + ([k] if k not in names else [])}
        if c < 69:
            k = nm()
            return ("remove", s(k)), "rec", {"names": [x for x in names if x != k]}
        if c < 72:
            return ("hasfield", s(nm())), "bool", {}
        if c < 76:
            return "toarray", "arrrec", {"len": len(names), "names": list(names)}
        if c < 79:
            q = rng.choice(["true", ("valgt", 0), ("valgt", 2), ("nameeq", s(nm()))])
            return ("recfilter", q), "rec", ({"names": names} if q == "true" else {"names": []})
        if c < 87:
            fs = []
            for k in rng.shuffle(NAMES + ["e"])[:rng.range(0, 2)]:
                fs.append((s(k), n(rng.range(0, 3))))
            if names and rng.chance(1, 2):
                fs.append((s(rng.choice(names)), n(rng.range(0, 3))))
            seen, fs2 = set(), []
            for f in fs:
                if f[0] not in seen:
                    seen.add(f[0]); fs2.append(f)
            l = ("lrec", fs2, rng.choice(["none", "none", ("dictc", NUM), ("dictt", NUM)]))
            newn = names + [f[0][1] for f in fs2 if f[0][1] not in names]
            return (rng.choice(["merger", "mergel"]), l), "rec", {"names": newn}
        if c < 95:
            fs = [(s(k), n(rng.range(0, 3))) for k in (names if rng.chance(3, 4) else names[:-1])]
            if "vals" in shape and set(shape["vals"]) == set(names) and rng.chance(2, 3):
                fs = [(s(k), n(shape["vals"][k])) for k in names]
                if fs and rng.chance(1, 4):
                    i = rng.below(len(fs))
                    fs[i] = (fs[i][0], n(9))
            return (rng.choice(["eqr", "eql"]), ("lrec", rng.shuffle(fs), "none")), "bool", {}
        return rng.choice(["seq", "deepseq", "serde"]), "rec", shape
    if ty == "num":
        return rng.choice([("addk", 1), "id", ("gtk", 0), ("eqk", 1)]), "num", {}
    return "id", ty, shape


def gen_case(rng):
    """returns dict(k, T, o, pos, special) - pos/special None when nothing violates"""
    kind = rng.weighted([("arr", 40), ("arr2", 15), ("rec", 35), ("fun", 10)])
    entry = "ann"
    special = rng.weighted([(BAD, 60), (FAIL, 25), (None, 15)])
    if kind == "arr":
        ln = rng.range(1, 4)
        xs = [n(rng.range(0, 5)) for _ in range(ln)]
        pos = (rng.below(ln),) if special else None
        if pos:
            xs[pos[0]] = special
        k, T, ty, shape = ("karr",) + tuple(xs), T_ARR, "arrn", {"len": ln, "vals": [x[1] if x[0] == "n" else rng.range(0, 5) for x in xs]}
        if rng.chance(1, 6):
            entry = "dom"
    elif kind == "arr2":
        nr, nc = rng.range(1, 3), rng.range(1, 3)
        rows = [[n(rng.range(0, 5)) for _ in range(nc)] for _ in range(nr)]
        pos = (rng.below(nr), rng.below(nc)) if special else None
        if pos:
            rows[pos[0]][pos[1]] = special
        k, T, ty, shape = ("karr2",) + tuple(tuple(r) for r in rows), T_ARR2, "arr2", {"len": nr, "inner": nc}
    elif kind == "rec":
        names = rng.shuffle(NAMES)[:rng.range(1, 3)]
        fs = [[s(x), n(rng.range(0, 5))] for x in names]
        pos = (rng.below(len(names)),) if special else None
        if pos:
            fs[pos[0]][1] = special
        k = ("krec",) + tuple(tuple(f) for f in fs)
        tk = rng.below(5)
        if tk == 0:
            T = ("dictt", NUM)
        elif tk == 1:
            T = ("dictc", NUM)
        elif tk == 2:
            T = ("rect", rng.shuffle(names), NUM)
        elif tk == 3:
            sub = [x for x in names if rng.chance(2, 3)] or names[:1]
            T = ("recc", sub, NUM, "open")
        else:
            T = ("recc", rng.shuffle(names), NUM, "closed")
        ty, shape = "rec", {"names": list(names), "vals": {f[0][1]: (f[1][1] if f[1][0] == "n" else rng.range(0, 5)) for f in fs}}
    else:
        cont = rng.choice([None, None, ("addk", 1), "id", ("const", 0)])
        if special == BAD and rng.chance(1, 3):
            # the function's result violates the codomain
            k, T, o, pos = ("kfun", ("consts", s("bad"))), ("fun", NUM, NUM), ("call", n(rng.range(0, 3))), ("res",)
        else:
            f = rng.choice([("addk", 1), "id", ("const", 0), ("addk", 2)])
            arg = special if special else n(rng.range(0, 3))
            k, T, o, pos = ("kfun", f), ("fun", NUM, NUM), ("call", arg), (("arg",) if special else None)
        if cont:
            o = ("comp", o, cont)
        return {"k": k, "T": T, "o": o, "pos": pos, "special": special}
    depth = rng.weighted([(1, 30), (2, 40), (3, 30)])
    obs = []
    for _ in range(depth):
        o, ty, shape = step_from(rng, ty, shape)
        obs.append(o)
    o = obs[0]
    for nx in obs[1:]:
        o = ("comp", o, nx)
    alias = True if entry == "dom" else rng.chance(1, 2)
    if entry == "dom":
        o = strip_ctr(o)
        if rng.chance(1, 2):
            # the caller's array meets an array of the function's own, under the same (shared) contract
            # but a label of the other polarity: each element must keep the label of its own operand
            l = ("larr", [n(rng.range(3, 5)) for _ in range(rng.range(1, 2))], T_ARR)
            o = ("comp", (rng.choice(["concatl", "concatr"]), l), o)
    return {"k": k, "T": T, "o": o, "pos": pos, "special": special, "entry": entry, "alias": alias}


def strip_ctr(o):
    """in the function-domain entry the pipeline carries no foreign annotation (see the comment on
    contract_eq in run()): re-annotations are dropped"""
    if isinstance(o, tuple):
        if o[0] == "ctr":
            return "id"
        if o[0] in ("comp", "eq2", "concat2", "merge2", "elemof", "map", "filter", "any", "all", "mapvalues"):
            return (o[0],) + tuple(strip_ctr(x) for x in o[1:])
    return o


def violates(case):
    """is the special component one that the annotation rejects / that fails?"""
    if case.get("kind") == "stack":
        return case["viol"]
    if case.get("kind") == "recrec":
        if case["special"] is None:
            return False
        if case["special"] == FAIL:
            return True
        T = case["T"]
        return case["leaf"] in T[1] if T[0] in ("recc", "rect") else True
    if case["special"] is None:
        return False
    if case["special"] == FAIL:
        return True
    T = case["T"]
    if T[0] == "recc":
        name = case["k"][1 + case["pos"][0]][0][1]
        return name in T[1]
    return True


# --------------------------------------------------------------------------------------------------
# recursive records: a field observed only through a sibling's recursive reference

def gen_recrec_case(rng):
    elem = rng.weighted([(NUM, 40), ("str", 30), (("gt", 0), 30)])
    good = {NUM: lambda: n(rng.range(1, 5)), "str": lambda: s("t"), ("gt", 0): lambda: n(rng.range(1, 5))}[elem]
    bad = {NUM: BAD, "str": n(rng.range(0, 3)), ("gt", 0): n(0)}[elem]         # the last two are literal constants
    names = rng.shuffle(NAMES)[:rng.range(2, 3)]
    leaf = names[0]
    special = rng.weighted([("bad", 65), (FAIL, 15), (None, 20)])
    special = bad if special == "bad" else special
    leafdef = (rng.choice(["datom", "datom", "dcomp"]), special if special is not None else good())
    tk = rng.below(6)
    leaf_only = tk in (3, 4)          # only the leaf is under a contract: the dependents are free
    if leaf_only:
        deps_obs = [("addk", 1), "id", ("const", 0), ("eqk", 2), ("gtk", 0), ("addk", 1), "id"]
    elif elem == "str":
        deps_obs = ["id", ("consts", s("t"))]           # the dependents are checked too: they must be strings
    else:
        deps_obs = [("addk", 1), "id", ("const", 5), ("addk", 1)]
    ds = {leaf: leafdef}
    ds[names[1]] = ("ddep", rng.choice(deps_obs), s(leaf))
    if len(names) == 3:
        ds[names[2]] = rng.choice([("ddep", rng.choice(deps_obs), s(names[1])), ("ddep", rng.choice(deps_obs), s(leaf)),
                                   ("datom", good()), ("dcomp", good())])
    order = rng.shuffle(names)
    k = ("krecr",) + tuple((s(nm), ds[nm]) for nm in order)
    if tk == 0:
        T = ("dictc", elem)
    elif tk == 1:
        T = ("dictt", elem)
    elif tk == 2:
        T = ("rect", rng.shuffle(names), elem)
    elif leaf_only:
        T = ("recc", [leaf], elem, "open")
    else:
        T = ("recc", rng.shuffle(names), elem, "closed")
    entry = "dom" if rng.chance(1, 5) else "ann"
    pos = (order.index(leaf),) if special is not None else None
    ty, shape = "rec", {"names": list(order)}
    obs = []
    if rng.chance(3, 5):
        # look at a dependent only
        o0 = (rng.choice(["access", "get", "patfield"]), s(rng.choice(names[1:])))
        obs.append(o0); ty, shape = "num", {}
    elif rng.chance(1, 3):
        l = ("lrec", [(s("z"), n(1))], "none")
        obs.append((rng.choice(["merger", "mergel"]), l)); shape = {"names": list(order) + ["z"]}
    for _ in range(rng.weighted([(0, 30), (1, 40), (2, 30)]) if obs else rng.range(1, 3)):
        o, ty, shape = step_from(rng, ty, shape)
        obs.append(o)
    o = obs[0]
    for nx in obs[1:]:
        o = ("comp", o, nx)
    if entry == "dom":
        o = strip_ctr(o)
    fo = flat_obs(o)
    if "patrest" in fo and any(x in MERGE_OBS for x in fo):
        # the rest of a record pattern drops a field the others may refer to; a later merge re-evaluates
        # them with that name unbound (nickel: unbound identifier, with or without annotation)
        return gen_recrec_case(rng)
    return {"kind": "recrec", "k": k, "T": T, "o": o, "pos": pos, "special": special, "entry": entry, "alias": entry == "dom",
            "elem": elem, "leaf": leaf}


def cut_recursive_refs(k):
    """the same record where the dependents no longer read their sibling (reach by direct paths only)"""
    return ("krecr",) + tuple((f[0], ("datom", n(0)) if f[1][0] == "ddep" else f[1]) for f in k[1:])


# --------------------------------------------------------------------------------------------------
# stacks: several delayed contracts on the same container, written so that they look alike

BASES = ["dyn", NUM, ("gt", 0), ("gt", 2), "str"]


def base_accepts(b, a):
    """python-known denotation of the base contracts on an atom"""
    if a == FAIL:
        return True          # evaluating it fails before any contract answers
    if b == "dyn":
        return True
    if b == NUM:
        return a[0] == "n"
    if b == "str":
        return a[0] == "s"
    if b[0] == "gt":
        return a[0] == "n" and a[1] > b[1]
    raise ValueError(b)


def base_witness(b):
    return s("ok") if b == "str" else n(b[1] + 1 if isinstance(b, tuple) else 1)


def stack_ctr(fam, inner, field, base):
    """model-level contract of one layer of the stack"""
    elem = ("arr", base) if inner == "arr" else base
    rc = ("recc", [field], elem, "closed")
    if fam == "flat":
        return ("arr", base)
    if fam in ("arec", "concat"):
        return ("arr", rc)
    if fam in ("field", "merge"):
        return ("recc", ["foo"], rc, "closed")
    if fam == "dict":
        return ("dictc", rc)
    raise ValueError(fam)


def stack_prelude(case):
    """let-bindings introducing the contracts A1, A2, ... of the stack in the chosen style, the
    names to use for them, and the expressions whose evaluation forces them"""
    fam, inner, field, style = case["fam"], case["inner"], case["field"], case["style"]
    bases = case["bases"]
    elem = "Array Elem" if inner == "arr" else "Elem"
    lets, names = [], []
    for i, b in enumerate(bases, 1):
        bt = nk_ctr(b)
        if fam == "flat":
            # the layer is `Array <base>`; the look-alike part is the element contract
            if style == "inline":
                names.append("Array (%s)" % bt)
            elif style == "letblock":
                lets.append("let A%d = (let Elem = %s in Array Elem) in" % (i, bt)); names.append("A%d" % i)
            elif style == "factory":
                if i == 1:
                    lets.append("let Mk = fun Elem => Array Elem in")
                lets.append("let A%d = Mk (%s) in" % (i, bt)); names.append("A%d" % i)
            elif style == "shadow":
                lets.append("let Elem = %s in let A%d = Array Elem in" % (bt, i)); names.append("A%d" % i)
            else:
                lets.append("let E%d = %s in let A%d = Array E%d in" % (i, bt, i, i)); names.append("A%d" % i)
            continue
        if style == "inline":
            names.append("{ %s | %s }" % (field, elem.replace("Elem", "(" + bt + ")")))
        elif style == "letblock":
            lets.append("let A%d = (let Elem = %s in { %s | %s }) in" % (i, bt, field, elem)); names.append("A%d" % i)
        elif style == "factory":
            if i == 1:
                lets.append("let Mk = fun Elem => { %s | %s } in" % (field, elem))
            lets.append("let A%d = Mk (%s) in" % (i, bt)); names.append("A%d" % i)
        elif style == "shadow":
            lets.append("let Elem = %s in let A%d = { %s | %s } in" % (bt, i, field, elem)); names.append("A%d" % i)
        else:
            lets.append("let E%d = %s in let A%d = { %s | %s } in" % (i, bt, i, field, elem.replace("Elem", "E%d" % i)))
            names.append("A%d" % i)
    return lets, names


def stack_layer_text(fam, name):
    if fam == "flat":
        return name
    if fam in ("arec", "concat"):
        return "Array (%s)" % name
    if fam in ("field", "merge"):
        return "{ foo | %s }" % name
    return "{ _ | %s }" % name


def stack_program(case, annotated=True):
    """Nickel text of a stack case.  The bindings and the forcing of the contracts are the same in
    the annotated and the unannotated program; only the annotations on the container differ."""
    _ctr[0] = 0
    _alias[0] = None
    fam, inner, field = case["fam"], case["inner"], case["field"]
    lets, names = stack_prelude(case)
    forced = []
    if case["style"] != "inline" and case["state"] != "none":
        for i, (b, nm) in enumerate(zip(case["bases"], names), 1):
            if case["state"] == "seq":
                forced.append(nm)
            else:      # applied to another value before
                w = nk_atom(base_witness(b))
                if fam == "flat":
                    good = "[%s]" % w
                else:
                    good = "{ %s = %s }" % (field, "[%s]" % w if inner == "arr" else w)
                lets.append("let d%d = (%s | %s) in" % (i, good, nm))
                forced.append("d%d" % i)
    k = nk_container(case["k"])
    layers = [stack_layer_text(fam, nm) for nm in names]
    if not annotated:
        x = k if fam != "concat" else "(%s @ %s)" % (k, nk_container(case["k2"]))
    elif fam == "merge":
        x = "(" + " & ".join(layers + [k]) + ")"
    elif fam == "concat":
        x = "((%s | %s) @ (%s | %s))" % (k, layers[0], nk_container(case["k2"]), " | ".join(layers[1:]))
    else:
        x = "(" + " | ".join([k] + layers) + ")"
    body = "let x = %s in %s" % (x, nk_body(case["o"], "x"))
    for f in reversed(forced):
        body = "std.seq %s (%s)" % (f, body)
    return " ".join(lets + [body])


def stack_model_line(case, annotated=True):
    fam = case["fam"]
    cs = [stack_ctr(fam, case["inner"], case["field"], b) for b in case["bases"]]
    if fam == "concat":
        t1, t2 = ([cs[0]], cs[1:]) if annotated else ([], [])
        return "concat\t%s\t%s\t%s\t%s\t%s" % (sx(t1), sx(case["k"]), sx(t2), sx(case["k2"]), sx(case["o"]))
    return "stack\t%s\t%s\t%s" % (sx(cs if annotated else []), sx(case["k"]), sx(case["o"]))


def whole_container(case):
    """the container the observer sees (for a concatenation: both operands)"""
    if case.get("fam") == "concat":
        return ("ktree", ("l",) + tuple(case["k"][1][1:]) + tuple(case["k2"][1][1:]))
    return case["k"]


def good_atom(rng, bases):
    """an atom accepted by every base contract of the stack (None if they are contradictory)"""
    for a in rng.shuffle([n(rng.range(3, 6)), n(4), s("t")]):
        if all(base_accepts(b, a) for b in bases):
            return a
    return None


def gen_stack_case(rng):
    fam = rng.weighted([("arec", 30), ("field", 15), ("merge", 15), ("concat", 15), ("dict", 10), ("flat", 15)])
    inner = "atom" if fam == "flat" else rng.choice(["atom", "arr"])
    field = "xs" if inner == "arr" else "x"
    depth = rng.weighted([(1, 15), (2, 60), (3, 25)])
    chain = [b for b in BASES if b != "str"]
    if rng.chance(1, 4):
        bases = rng.choice([["dyn", "str"], [NUM, "str"], ["str", NUM], ["dyn", "str", "str"]])[:max(depth, 2)]
    else:
        bases = [rng.choice(chain) for _ in range(depth)]
        if depth >= 2 and rng.chance(2, 3):
            bases = sorted(bases, key=lambda b: chain.index(b))      # weaker first: satisfied first, violated later
    if fam == "concat" and len(bases) < 2:
        bases = bases + [rng.choice(chain)]
    good = good_atom(rng, bases)
    style = rng.weighted([("letblock", 30), ("factory", 25), ("shadow", 15), ("alias", 10), ("inline", 20)])
    state = rng.weighted([("applied", 40), ("seq", 35), ("none", 25)])
    # the special component: violates some layer (biased to a later one), or fails, or nothing special
    kind = rng.weighted([("viol", 60), ("fail", 15), ("none", 25)])
    rejected = [a for a in [n(0), n(1), n(3), s("bad")] if not all(base_accepts(b, a) for b in bases)]
    later = [a for a in rejected if base_accepts(bases[0], a)]
    if kind == "viol" and not rejected:
        kind = "none"
    special = None if kind == "none" else (FAIL if kind == "fail" else rng.choice(later if later and rng.chance(3, 4) else rejected))
    single = good is None
    nrec = 1 if single else rng.range(1, 3)
    ilen = 1 if single else rng.range(1, 3)

    def rec_of(a):
        # an inner array holds the atom once (first element) followed by copies that are fine wherever a is not
        if inner == "arr":
            filler = good if (good is not None and fam != "concat") else None
            return ("r", (s(field), ("l", a) + tuple(filler for _ in range(ilen - 1) if filler is not None)))
        return ("r", (s(field), a))

    first = special if special is not None else (good if good is not None else base_witness(bases[0]))
    if single and special is None:
        # contradictory stack and nothing special: the only component violates anyway
        special = first
    where = rng.below(nrec)
    items = [rec_of(first if i == where else good) for i in range(nrec)]
    case = {"kind": "stack", "fam": fam, "inner": inner, "field": field, "bases": bases, "style": style, "state": state,
            "special": special, "T": stack_ctr(fam, inner, field, bases[0])}
    inner_path = (0, 0) if inner == "arr" else (0,)
    if fam == "flat":
        xs = [first if i == where else good for i in range(nrec)]
        case["k"], pos, ty, shape = ("karr",) + tuple(xs), (where,), "arrn", {"len": nrec}
    elif fam == "arec":
        case["k"], pos = ("ktree", ("l",) + tuple(items)), (where,) + inner_path
        ty, shape = "arec", {"len": nrec, "names": [field], "inner": inner, "ilen": ilen}
    elif fam == "concat":
        # (k | Array A1) @ (k2 | Array A2 | ...): each operand is guarded by its own layers only
        lb, rb = bases[:1], bases[1:]
        lgood = good_atom(rng, lb) or base_witness(lb[0])
        rgood = good_atom(rng, rb)
        on_right = rng.chance(3, 4) or special is None
        side = rb if on_right else lb
        if special is not None and special != FAIL:
            rej = [a for a in [n(0), n(1), n(3), s("bad")] if not all(base_accepts(b, a) for b in side)]
            pref = [a for a in rej if base_accepts(bases[0], a)]
            special = rng.choice(pref if pref and rng.chance(3, 4) else rej) if rej else None
        case["special"] = special
        if rgood is None:
            # the right layers are contradictory: its single component violates anyway
            special = special if (special is not None and on_right) else base_witness(rb[0])
            case["special"], on_right = special, True
            rgood = special
        nl, nr = rng.range(1, 2), rng.range(1, 2)
        left = [rec_of(lgood) for _ in range(nl)]
        right = [rec_of(rgood) for _ in range(nr if rgood != special else 1)]
        if special is not None:
            if on_right:
                where = nl + rng.below(len(right)); right[where - nl] = rec_of(special)
            else:
                where = rng.below(nl); left[where] = rec_of(special)
        case["k"], case["k2"] = ("ktree", ("l",) + tuple(left)), ("ktree", ("l",) + tuple(right))
        pos = (where,) + inner_path
        first, bases_here = special, side
        ty, shape = "arec", {"len": len(left) + len(right), "names": [field], "inner": inner, "ilen": ilen}
        case["viol"] = special is not None and (special == FAIL or not all(base_accepts(b, special) for b in side))
        case["pos"] = pos if special is not None else None
    elif fam in ("field", "merge"):
        case["k"], pos = ("ktree", ("r", (s("foo"), rec_of(first)))), (0,) + inner_path
        ty, shape = "rrec", {"keys": ["foo"], "names": [field], "inner": inner, "ilen": ilen}
    else:
        keys = rng.shuffle(NAMES)[:nrec]
        case["k"] = ("ktree", ("r",) + tuple((s(k_), items[i]) for i, k_ in enumerate(keys)))
        pos = (where,) + inner_path
        ty, shape = "rrec", {"keys": keys, "names": [field], "inner": inner, "ilen": ilen}
    if fam != "concat":
        case["pos"] = pos if special is not None else None
        case["viol"] = special is not None and (special == FAIL or not all(base_accepts(b, special) for b in bases))
    obs = []
    for _ in range(rng.weighted([(1, 10), (2, 25), (3, 35), (4, 30)])):
        o, ty, shape = step_from(rng, ty, shape)
        obs.append(o)
    o = obs[0]
    for nx in obs[1:]:
        o = ("comp", o, nx)
    case["o"] = strip_ctr(o)
    return case


# --------------------------------------------------------------------------------------------------
# running

def model_line(case, T=None):
    if case.get("kind") == "stack":
        return stack_model_line(case, annotated=(T is None))
    mode = "rundom" if case.get("entry", "ann") == "dom" else "run"
    return "%s\t%s\t%s\t%s" % (mode, sx(case["T"] if T is None else T), sx(case["k"]), sx(case["o"]))


def reach_line(case):
    if case.get("kind") == "stack":
        return "reach\tnone\t%s\t%s\t%s" % (sx(whole_container(case)), sx(case["o"]), ".".join(str(i) for i in case["pos"]))
    return "reach\t%s\t%s\t%s\t%s" % (sx(case["T"]), sx(case["k"]), sx(case["o"]), ".".join(str(i) for i in case["pos"]))


def esc(s_):
    return s_.replace("\\", "\\\\").replace("\n", "\\n")


def impl_line(case, annotated=True, flags="detail"):
    return flags + "\t" + esc(case_program(case, annotated))


def canon_impl(line):
    """nkeval --detail line -> `OK tree` / `ERR class` with std.fail_with recognised"""
    if line.startswith("OK "):
        return line
    m = re.match(r"ERR (\S+)(?: -- (.*))?$", line)
    if not m:
        return line
    cls, detail = m.group(1), m.group(2) or ""
    if cls == "Blame+" and 'Some("boom")' in detail:
        cls = "Fail"
    return "ERR " + cls


def corpus():
    p = os.path.join(core.ROOT, "corpus", "C08")
    res = []
    if os.path.isdir(p):
        for f in sorted(os.listdir(p)):
            if f.endswith(".case"):
                for l in open(os.path.join(p, f)):
                    l = l.strip()
                    if l and not l.startswith("#"):
                        res.append(json.loads(l, object_hook=None))
    return [detuple(c) for c in res]


def detuple(x):
    if isinstance(x, list):
        return tuple(detuple(y) for y in x)
    if isinstance(x, dict):
        return {k: detuple(v) for k, v in x.items()}
    return x


def expected_error(case):
    if case["special"] == FAIL:
        return "ERR Fail"
    if case["k"][0] == "kfun" and case["pos"] == ("arg",):
        return "ERR Blame-"
    if case.get("entry", "ann") == "dom":
        if isinstance(case["T"], tuple) and case["T"][0] == "recc":
            return "ERR Blame+"      # a field contract of a record contract keeps the label of its own annotation
        return "ERR Blame-"          # the caller supplied the container
    return "ERR Blame+"


def has_merge(o):
    return any(x in MERGE_OBS for x in flat_obs(o))


def run_cases(ck, cases, exe_model, impl_model_exe=None):
    """impl_model_exe (sanity tests only): a (mutated) build of the model stands in for nickel, to
    measure what the generator + oracle detect."""
    nk = core.harness_bin("nkeval")
    ml = [model_line(c) for c in cases]
    rl = [reach_line(c) if c["pos"] and c["k"][0] != "kfun" else "reach\tnone\t(karr)\tid\t0" for c in cases]
    tmo = 1800 if len(cases) < 5000 else 6 * 3600      # the thorough tier may share the machine
    rc0, mod_out, e0 = core.run_sharded(exe_model, [], ml, timeout=tmo)
    rc3, reach_out, e3 = core.run_sharded(exe_model, [], rl, timeout=tmo)
    if impl_model_exe:
        rc1, imp_out, e1 = core.run_sharded(impl_model_exe, [], ml, timeout=tmo)
        rc2, raw_out, e2 = core.run_sharded(impl_model_exe, [], [model_line(c, "none").replace("rundom\t", "run\t") for c in cases], timeout=tmo)
    else:
        rc1, imp_out, e1 = core.run_sharded(nk, [], [impl_line(c, True) for c in cases], timeout=tmo)
        rc2, raw_out, e2 = core.run_sharded(nk, [], [impl_line(c, False) for c in cases], timeout=tmo)
    if rc0 or rc1 or rc2 or rc3:
        ck.obligation("correspondence-run", "internal", False, "rc=%s/%s/%s/%s %s %s %s %s" % (rc0, rc1, rc2, rc3, e0[-300:], e1[-300:], e2[-300:], e3[-300:]))
    for c, m, a, u, r in zip(cases, mod_out, imp_out, raw_out, reach_out):
        if "<missing>" in (m, a, u, r):
            ck.count("missing_outputs")       # a shard died / timed out: reported by correspondence-run above
            continue
        a, u = canon_impl(a), canon_impl(u)
        if a == "ERR UnboundId" and u == "ERR UnboundId":
            # not a contract matter: `{a = .., d = a} |> match { {a = v, ..rest} => rest }` drops `a`, and a
            # later merge re-evaluates `d` with `a` unbound - with or without annotation (reported, not modelled)
            ck.count("rest_pattern_then_merge_unbound")
            continue
        viol = violates(c)
        pr = py_reach(whole_container(c), c["o"], c["pos"])      # pos None: no marker, only "maybe" / None / False
        key = case_program(c)
        if c.get("kind") == "stack":
            ck.hist("stack_family", c["fam"])
            ck.hist("stack_presentation", c["style"] + "/" + c["state"])
            ck.hist("stack_depth", len(c["bases"]))
        if c.get("kind") == "recrec":
            ck.hist("recrec_leaf", c["k"][1 + c["pos"][0]][1][0] if c["pos"] else "none")
        ck.case(key=key, nontrivial=bool(viol))
        ck.hist("container", c["k"][0])
        ck.hist("entry", c.get("entry", "ann") + ("+alias" if c.get("alias") else ""))
        ck.hist("annotation", c["T"][0] if isinstance(c["T"], tuple) else c["T"])
        ck.hist("special", "none" if c["special"] is None else ("fail" if c["special"] == FAIL else "bad"))
        ck.hist("impl_outcome", a.split(" ")[1] if a.startswith("ERR") else "Ok")
        ck.hist("py_reach", str(pr))
        for ob in flat_obs(c["o"]):
            ck.hist("observers", ob)
        replay = {"case": c, "nickel": case_program(c), "impl": a, "impl_unannotated": u,
                  "model": m, "py_reach": pr, "how_to_replay": "./verif check C08 --replay <this file>"}
        # ---- direct oracle on the implementation
        direct_bad = None
        if viol and pr is True:
            ok_err = [expected_error(c)]
            if has_merge(c["o"]) and a == u and a in ("ERR NonMergeable", "ERR Fail"):
                # a merged field is (x & y) | contracts: the merge looks at x before the check, and a
                # conflicting / failing other operand surfaces first (same outcome without annotation)
                ok_err.append(a)
                ck.count("merge_preempts_check")
            if a not in ok_err:
                direct_bad = "the %s component at %s is reached but observe (v | T) = %s (expected %s)" % (
                    "failing" if c["special"] == FAIL else "violating", c["pos"], a, expected_error(c))
        elif viol and pr == "maybe":
            # whether the component is reached depends on the order in which == / force visit the fields
            # (and record annotations rebuild the record in another order): the annotated and the
            # unannotated run may legitimately differ, e.g. one meets the component, the other an
            # unrelated failing field.  The property fixes no outcome here; only the model comparison
            # below applies.
            if a != u and a != expected_error(c):
                ck.count("order_dependent_unchecked")
        elif pr == "maybe":
            # nothing violates, but the outcome depends on the order in which == / force visit the
            # fields, and record annotations rebuild the record in another order
            if a != u:
                ck.count("order_dependent_unchecked")
        elif pr is False or not viol:
            # not reached, or nothing violates: the annotation must be invisible
            if pr is not None and a != u:
                direct_bad = "component not reached / nothing violates, but observe (v | T) = %s differs from observe v = %s" % (a, u)
        if direct_bad:
            key = "oracle:" + "+".join(sorted(set(flat_obs(c["o"])))) + ":" + c["k"][0]
            if c.get("kind") == "stack":
                key = "stack:%s:%s/%s:" % (c["fam"], c["style"], c["state"]) + "+".join(sorted(set(flat_obs(c["o"]))))
            if c.get("kind") == "recrec":
                key = "recrec:%s:" % c["T"][0] + "+".join(sorted(set(flat_obs(c["o"]))))
                if c["T"][0] in ("dictt", "rect") and viol and pr is True and c["special"] != FAIL and a == m:
                    # {_ : T} and record types go through %record/map%: the contracts are mapped onto the
                    # values of the record as it was evaluated, so a sibling's recursive reference still sees
                    # the unchecked field (the model mirrors this)
                    key = "type-contract-recursive-reference-unguarded"
            if (c.get("entry") == "dom" and viol and pr is True and c["special"] != FAIL and a == "ERR Blame+"
                    and any(x in ("concatl", "concatr") for x in flat_obs(c["o"]))):
                # the component is blamed, but with the label of the other operand of `@`: this was the
                # known finding concat-keeps-left-labels, fixed in 95e63eb; it must hold now, so a
                # recurrence is reported like any other violation (the stable key is kept for reference)
                key = "concat-keeps-left-labels"
            ck.violation(key, direct_bad, replay)
        # ---- model vs implementation
        if m == "ERR Unmodelled" or m.startswith("PARSE-ERROR") or m == "ERR ModelFuel":
            ck.count("model_unmodelled" if m == "ERR Unmodelled" else "model_internal")
            if m != "ERR Unmodelled":
                ck.obligation("model:internal", "correspondence", False, m + " on " + model_line(c))
        elif m != a:
            if not direct_bad:
                ck.obligation("correspondence:model-vs-nickel", "correspondence", False,
                              "case %s\nnickel: %s\nimpl  %s\nmodel %s" % (model_line(c), replay["nickel"], a, m))
        # ---- Coq reach (probe) vs the Python reach table
        if c["pos"] and c["k"][0] != "kfun" and pr in (True, False):
            if r != "REACH " + ("true" if pr else "false"):
                ck.obligation("correspondence:reaches-vs-table", "correspondence", False,
                              "case %s: Spec.reaches says %s, the Python reach table says %s" % (reach_line(c), r, pr))
    return mod_out, imp_out, raw_out


def flat_obs(o):
    if isinstance(o, str):
        return [o]
    if o[0] == "comp":
        return flat_obs(o[1]) + flat_obs(o[2])
    if o[0] in ("map", "filter", "any", "all", "mapvalues", "elemof"):
        return [o[0]] + [o[0] + ">" + x for x in flat_obs(o[1])]
    if o[0] in ("eq2", "concat2", "merge2"):
        return [o[0]] + [o[0] + ">" + x for x in flat_obs(o[1]) + flat_obs(o[2])]
    return [o[0]]


def run(ck):
    if ck.tier == "thorough":
        # rebuild this property's files from scratch (only these: other checks share coq/)
        import glob
        with core.Lock("coq"):
            for pat in ("Delayed/*", "Props/C08*"):
                for f in glob.glob(os.path.join(core.COQ, pat)):
                    if f.endswith((".vo", ".vok", ".vos", ".glob")) or os.path.basename(f).startswith(".") and f.endswith(".aux"):
                        os.remove(f)
    ck.coq("Props.C08")
    if ck.tier == "thorough":
        rc, out = core.sh(["timeout", "1500", "coqchk", "-o", "-silent", "-Q", ".", "NV", "NV.Props.C08"], cwd=core.COQ, timeout=1600)
        clean = rc == 0 and "Axioms: <none>" in out and "type-in-type: <none>" in out and "positivity is assumed: <none>" in out
        ck.obligation("coqchk NV.Props.C08", "coqchk", clean, out[-1200:])
    ok = ck.harness(["nkeval"])
    exe_model = ck.model("C08.v")
    if not ok or not exe_model:
        return
    rng = core.SplitMix64(ck.seed * 1000003 + 8)
    cases = corpus()
    ncorpus = len(cases)
    total = 1500 if ck.tier == "quick" else 40000
    while len(cases) < total + ncorpus:
        cases.append(gen_case(rng.fork()))
    # stacks of look-alike contracts on the same container
    rng2 = core.SplitMix64(ck.seed * 1000003 + 808)
    for _ in range(500 if ck.tier == "quick" else 12000):
        cases.append(gen_stack_case(rng2.fork()))
    # recursive records: a field seen through a sibling's recursive reference
    rng3 = core.SplitMix64(ck.seed * 1000003 + 80808)
    for _ in range(400 if ck.tier == "quick" else 10000):
        cases.append(gen_recrec_case(rng3.fork()))
    mod_out, imp_out, raw_out = run_cases(ck, cases, exe_model)
    for c, m, a in list(zip(cases, mod_out, imp_out))[:6]:
        ck.sample({"nickel": case_program(c), "model": m, "impl": canon_impl(a)})
    ck.coverage["corpus_cases"] = ncorpus
    ck.coverage["programs_evaluated_on_nickel"] = 2 * len(cases)
    ck.coverage["rule"] = ("case = container literal (array 1-4 / array of arrays / record 1-3 fields / function) with at most one "
                           "special component (\"bad\" 60%, std.fail_with 25%, none 15%) at a uniformly chosen position; annotation "
                           "(Array Number, Array (Array Number), {_ : Number}, {_ | Number}, {a : Number,..}, {a | Number, ..} open/closed, "
                           "Number -> Number) written inline or bound once and shared with the literals of the pipeline (50%); entry "
                           "`(v | T)` or, for 1/6 of the arrays, through the domain of a function contract; observer pipeline of 1-3 "
                           "type-directed stages out of 60 observers (incl. observers that use the shared container twice: x == x, x @ x, x & x, elem (first x) x) (primitives, stdlib combinators, compiled patterns, ==, &, "
                           "serialize/deserialize, deep_seq), ~7% deliberately out of bounds / missing field; each program is run "
                           "annotated and unannotated on nickel, and on the extracted model; non-trivial = the special component "
                           "violates or fails; distinct by exact text")
    ck.coverage["partial"] = "see level_note; generate/partition/zip_with, optional fields, nested records and multi-error programs are not generated"
    ck.trusted += ["extraction: ExtrOcamlBasic, ExtrOcamlNativeString", "harness bin nkeval (harness/src/eval.rs)",
                   "generator, Nickel printer and reach table in checks/c08.py (SplitMix64, VERIF_SEED)"]
    ck.assumptions += ["stdlib static-type contracts (sealing) are transparent (C11)",
                       "contract deduplication is unobservable (C04)"]


def replay(ck, path):
    obj = json.load(open(path))
    ok = ck.harness(["nkeval"])
    exe_model = ck.model("C08.v")
    if ok and exe_model and "case" in obj:
        run_cases(ck, [detuple(obj["case"])], exe_model)
