"""C04 — contracts attached to a field are enforced on its final value after any merging; dedup is sound."""
import json
from vlib import core
from checks import mergelib as m
from checks import c04_rich

META = {
    "harness_bins": ["nkeval"],
    "extract": "C04.v",
    "technique": "Coq proofs: (spec) a contract attached by any operand of a merge chain stays attached and every attached contract holds of the exported value, duplicates are irrelevant; (mechanism) the model of contract_eq.rs is sound w.r.t. full unfolding and combine_dedup only drops contracts that have an equal one kept — with a refuted lemma for the pre-fix zip comparison. Tie: number of pending contracts after a merge on the real VM vs the extracted combine_dedup, traces of applied leaf contracts with and without deduplication, an independent reference outcome",
    "level_text": "coq/Props/C04.v. Spec level (data-merge algebra, all well-formed trees, any chain length): C04_attached_by_either_operand / _through_chain (a contract attached to a field by any operand is attached in the result, whatever the operand's position), C04_attached_enforced (if export succeeds the exported value of the field satisfies every attached contract), C04_duplicates_irrelevant (+ union = concatenation as sets). Mechanism level (coq/Merge/CtrEq.v, a model of contract_eq.rs incl. environments, aliases, shadowing, gas, map_eq, contract_eq_fields, type_eq): C04_contract_eq_sound (answer true => the two contracts have equal full unfoldings, contract lists compared element by element AND by length) and C04_combine_dedup_sound; C04_prefix_zip_refuted shows the theorem fails for the code before fix 0d21c82. Tie: for generated pairs of contract lists (leaf predicates, aliases, alias chains, shadowed names, record contracts sharing prefixes, optional/open/priority differences) the real VM's number of pending contracts after `{x | ..} & {x | ..}` must be >= the extracted combine_dedup's (the code may be more conservative because its gas is global, never less); each program is also run with a value under export with std.trace in every leaf contract, with deduplication on and off (hook H3) and with operands swapped: same outcome, same set of applied leaf contracts, and the outcome predicted by an independent reference that knows each contract's denotation. Rich stream (checks/c04_rich.py, independent of the Coq model, direct oracle on the implementation): contracts from a grammar with a python denotation (Number/String/Bool, predicates, enums, Array C, {_ | C}, {_ : C}, closed/open record contracts with zero to three fields (field-less `{}` / `{..}`, optional fields only), optional fields and several contracts per field, record types, Sequence/all_of, restricted any_of, depth <= 3) written in 21 syntactic presentations (inline, let alias, alias of alias, field alias, function application, let-bound constructor function, constructor over an alias, alias of a constructor over an inline literal, sub-contract alias, projection from a let-bound or field-bound record of contracts, record type field, shadowed name, let inside the annotation, parametrized contract / parametrized operand instantiated once or twice with equal or different arguments, and for pairs the same source text under two bindings of one identifier: let-bound factory instances, two let-blocks with a local alias, an alias re-bound between the definitions, optionally under Array/{_ | }/{_ : }; the let-bound contracts are optionally evaluated (std.seq) or applied to another value before they are attached) and attached in 22 contexts (merge in every position and grouping, record contract application, nested, piecewise, default/force override, value split over two operands, the same record merged twice, two contracts on the field - by two operands, stacked annotations, piecewise definitions, merge + contract application, Sequence/all_of - that are the same, another presentation, a near-copy differing in one check, or the same text/function with another binding/argument); the value is a member or a one-position mutant failing one check; the whole record is exported with deduplication on, off and with the operands reversed: accepted with exactly the value iff the denotation accepts it for every attached contract, else Blame+ (MissingDef for a field required by a record contract and absent). Late-value stream (same file): a record goes through a history of 1-3 record contracts (closed/open, listing or not the late fields, optional or required, contracts from the same grammar, possibly a default) applied by `|`, by Sequence/all_of or merged as plain operands, and of operands that define the late fields (normal/default/force priority, with or without their own contract, default of a further contract, `f | optional | C` declared in the literal), in every order, optionally one level down; reference = direct simulation of the language semantics: a closed contract rejects the fields present WHEN it is applied that it does not list (empty optional ones excepted), every contract attached to a field at any step holds of the field's final value, a field still undefined at the end is skipped iff optional. The histories include field-less contracts (inline `{}` = the empty record type, aliased `{}` = the empty record contract, `{..}`), literals that define nothing, and a grid of a field-less contract alone / before / after a contract that lists the fields, applied before or after the values arrive. corpus/C04/rich.case pins the Nickel semantics the reference relies on. Two findings on the unchanged tree are labelled by an order-aware model of the empty optional fields a record contract leaves in the value (keys optional-field-counted-as-extra, optional-field-hides-missing-field); the reference itself stays the order-independent denotation.",
    "level_note": "Trusted: Coq kernel; extraction; nkeval; hook H3 (contract_eq answers false); the generator's translation of Nickel lets/aliases to model environments; the python reference outcome. Modelled not verified: contract_eq.rs (value-level: thunk indirections and physical equality are abstracted by opaque definition ids; gas per path instead of global). Builtin type contracts and Array/dict type annotations never compare equal in the implementation and are not in the generator.",
}

LEAVES = 3
NAMES = {1: "T1", 2: "T2", 3: "T3", 4: "A1", 5: "A2", 6: "F1"}
PRELUDE = "".join('let T%d = std.contract.from_predicate (fun v => std.trace "T%d" (v != %d)) in\n' % (i, i, i) for i in (1, 2, 3)) + \
    "let A1 = T1 in\nlet A2 = A1 in\n" + \
    "let MkA = fun E => {f | Array E} in\nlet MkD = fun E => {f | {_ : E}} in\n"
BASE_BINDS = "(bind 1 (opq 1)) (bind 2 (opq 2)) (bind 3 (opq 3)) (bind 4 (var 1)) (bind 5 (var 4)) (bind 7 (opq 70)) (bind 8 (opq 80))"
FIELD = {0: "f", 1: "g", 2: "h"}


def gen_leaf(rng):
    return ("v", rng.weighted([(1, 4), (2, 3), (3, 2), (4, 2), (5, 2)]))


def gen_field_spec(rng, depth, shape):
    """contract list of one field; shape = None (number leaf) or a sub-record shape"""
    n = rng.weighted([(0, 1), (1, 5), (2, 4), (3, 1)])
    if shape is None:
        return [gen_leaf(rng) for _ in range(n)]
    return [gen_rec(rng, depth - 1, shape) for _ in range(max(1, n - 1))]


def gen_shape(rng, depth):
    """shape of the value: dict field -> None | subshape"""
    ks = [0] if rng.chance(1, 3) else [0, 1]
    return {k: (gen_shape(rng, depth - 1) if depth > 0 and rng.chance(1, 4) else None) for k in ks}


def gen_rec(rng, depth, shape):
    fs = []
    for k in sorted(shape):
        fs.append((k, int(rng.chance(1, 8)), rng.weighted([(0, 8), (1, 1)]), gen_field_spec(rng, depth, shape[k])))
    return ("r", int(rng.chance(1, 8)), fs)


def mutate(rng, K):
    """a contract close to K: identical, or differing in one small way (prefix, flag, alias...)"""
    if K[0] == "v":
        return rng.choice([K, K, ("v", {1: 4, 4: 5, 5: 1}.get(K[1], K[1])), gen_leaf(rng)])
    _, op, fs = K
    c = rng.below(8)
    fs2 = []
    for (k, o, p, cs) in fs:
        cs2 = [mutate(rng, x) if rng.chance(1, 4) else x for x in cs]
        if c == 0 and cs2:
            cs2 = cs2[:-1]                       # strict prefix
        elif c == 1:
            cs2 = cs2 + [gen_leaf(rng)]          # extension
        elif c == 2:
            o = 1 - o
        elif c == 3:
            p = 1 - p
        fs2.append((k, o, p, cs2))
    if c == 4:
        op = 1 - op
    return ("r", op, fs2)


def nickel_K(K):
    if K[0] == "v":
        return NAMES[K[1]]
    if K[0] == "mk":           # a parametrized record contract applied to a leaf: (MkA T1) / (MkD T2)
        return "(%s %s)" % ("MkA" if K[1] == "A" else "MkD", NAMES[K[2]])
    _, op, fs = K
    parts = []
    for (k, o, p, cs) in fs:
        s = FIELD[k]
        for c in cs:
            s += " | " + nickel_K(c)
        if o:
            s += " | optional"
        if p:
            s += " | default"
        parts.append(s)
    if op:
        parts.append("..")
    return "{%s}" % ", ".join(parts)


_fresh = [1000]


def sexp_K(K):
    if K[0] == "v":
        if K[1] == 6:
            _fresh[0] += 1
            return "(opq %d)" % _fresh[0]
        return "(var %d)" % K[1]
    if K[0] == "mk":
        return "(app (var %d) (var %d))" % (7 if K[1] == "A" else 8, K[2])
    _, op, fs = K
    return "(rec %d %s)" % (op, " ".join("(fld %d %d 0 %d (pend %s) (val _))" % (k, o, p, " ".join(sexp_K(c) for c in cs)) for (k, o, p, cs) in fs))


def operand(cs, shadow, field_alias=None):
    """field_alias = leaf number: the record literal itself binds the contract alias F1 (a hidden field)"""
    fa = "F1 | not_exported = T%d, " % field_alias if field_alias else ""
    body = "{%sx%s}" % (fa, "".join(" | " + nickel_K(c) for c in cs))
    return "(let T1 = T2 in %s)" % body if shadow else body


def gen_value(rng, shape):
    if shape is None:
        return rng.weighted([(0, 4), (1, 2), (2, 2), (3, 1), (5, 2)])
    v = {k: gen_value(rng, shape[k]) for k in shape}
    if rng.chance(1, 6):
        v[2] = 0            # a field no record contract of this shape lists: only open contracts accept it
    return v


def nickel_V(v):
    if isinstance(v, tuple):          # ("A", [numbers]) -> {f = [..]},  ("D", [numbers]) -> {f = {k0 = .., k1 = ..}}
        kind, xs = v
        if kind == "A":
            return "{f = [%s]}" % ", ".join(str(x) for x in xs)
        return "{f = {%s}}" % ", ".join("k%d = %d" % (i, x) for i, x in enumerate(xs))
    if isinstance(v, dict):
        return "{%s}" % ", ".join("%s = %s" % (FIELD[k], nickel_V(v[k])) for k in sorted(v))
    return str(v)


def canon_V(v):
    if isinstance(v, tuple):
        kind, xs = v
        if kind == "A":
            return '{"f":[%s]}' % ",".join("#%d" % x for x in xs)
        return '{"f":{%s}}' % ",".join('"k%d":#%d' % (i, x) for i, x in enumerate(xs))
    if isinstance(v, dict):
        return "{%s}" % ",".join('"%s":%s' % (FIELD[k], canon_V(v[k])) for k in sorted(v))
    return "#%d" % v


def resolve(name, shadow, field_alias=None):
    """leaf predicate denoted by a variable inside an operand"""
    if name == 6:
        return resolve(field_alias, shadow)     # the field's own definition `F1 = T<n>` is inside the operand's scope
    if name == 1:
        return 2 if shadow else 1
    if name in (4, 5):
        return 1                      # A1 = T1, A2 = A1 were bound before any shadowing
    return name


def attached(K, shadow, v, path, out, field_alias=None):
    """collect (path, leaf, value) obligations and structural failures of contract K on value v"""
    if K[0] == "v":
        out.append((path, resolve(K[1], shadow, field_alias), v))
        return
    if K[0] == "mk":
        if not isinstance(v, tuple) or v[0] != K[1]:
            out.append((path, "shape", v))
            return
        for i, x in enumerate(v[1]):
            out.append((path + ("f", i), resolve(K[2], shadow, field_alias), x))
        return
    _, op, fs = K
    if not isinstance(v, dict):
        out.append((path, "shape", v))
        return
    if not op and any(k not in [f[0] for f in fs] for k in v):
        out.append((path, "shape", v))          # a closed record contract rejects extra fields
    for (k, o, p, cs) in fs:
        if k in v:
            for c in cs:
                attached(c, shadow, v[k], path + (k,), out, field_alias)


def run(ck):
    ck.coq("Props.C04", clean=(ck.tier == "thorough"))
    if not ck.harness(["nkeval"]):
        return
    exe = ck.model("C04.v")
    if not exe:
        return
    rng = core.SplitMix64(ck.seed * 1299709 + 4)
    n = 350 if ck.tier == "quick" else 12000
    cases = []
    corpus = [  # the historical defect: record contract deduplicated against a strict prefix
        {"shape": {0: None}, "c1": [("r", 0, [(0, 0, 0, [("v", 1)])])], "c2": [("r", 0, [(0, 0, 0, [("v", 1), ("v", 2)])])], "s1": 0, "s2": 0, "v": {0: 2}},
        {"shape": {0: None}, "c1": [("r", 0, [(0, 0, 0, [("v", 1), ("v", 2)])])], "c2": [("r", 0, [(0, 0, 0, [("v", 1)])])], "s1": 0, "s2": 0, "v": {0: 2}},
        {"shape": None, "c1": [("v", 4)], "c2": [("v", 1)], "s1": 0, "s2": 1, "v": 2},   # alias vs shadowed name
        {"shape": None, "c1": [("v", 1)], "c2": [("v", 1)], "s1": 1, "s2": 0, "v": 2},
        # field-bound alias F1 (= T2) while an outer `let F1 = T1` exists: T1 of the other operand must not be deduplicated
        {"shape": None, "c1": [("v", 6)], "c2": [("v", 1)], "s1": 0, "s2": 0, "v": 1, "fa": (1, 2, 1)},
        {"shape": None, "c1": [("v", 1)], "c2": [("v", 6)], "s1": 0, "s2": 0, "v": 1, "fa": (2, 2, 1)},
        {"shape": None, "c1": [("v", 6)], "c2": [("v", 3)], "s1": 0, "s2": 0, "v": 3, "fa": (1, 1, 3)},
        # one parametrized record contract instantiated with two different arguments: both must be enforced
        {"shape": "param", "c1": [("mk", "A", 1)], "c2": [("mk", "A", 2)], "s1": 0, "s2": 0, "v": ("A", [5, 2])},
        {"shape": "param", "c1": [("mk", "D", 2)], "c2": [("mk", "D", 1)], "s1": 0, "s2": 0, "v": ("D", [1, 5])},
        {"shape": "param", "c1": [("mk", "A", 1)], "c2": [("mk", "A", 1)], "s1": 0, "s2": 0, "v": ("A", [5, 0])},
    ]
    for c in corpus:
        cases.append(c)
    for _ in range(n):
        r = rng.fork()
        shape = gen_shape(r, 1) if r.chance(3, 4) else None
        def klist():
            if shape is None:
                return [gen_leaf(r) for _ in range(r.range(1, 3))]
            return [gen_rec(r, 1, shape) for _ in range(r.range(1, 2))]
        c1 = klist()
        c2 = [mutate(r, r.choice(c1)) for _ in range(r.range(1, 2))] if r.chance(3, 4) else klist()
        if r.chance(1, 7):
            # parametrized record contracts (type constructor over the parameter), same or different arguments
            kind = r.choice(["A", "D"])
            l1 = r.range(1, 5)
            l2 = l1 if r.chance(1, 3) else r.range(1, 5)
            cases.append({"shape": "param", "c1": [("mk", kind, l1)], "c2": [("mk", kind, l2)] + ([("mk", kind, r.range(1, 3))] if r.chance(1, 4) else []),
                          "s1": int(r.chance(1, 6)), "s2": int(r.chance(1, 6)),
                          "v": (kind, [r.choice([0, 1, 2, 3, 5]) for _ in range(r.range(1, 3))])})
            continue
        case = {"shape": shape, "c1": c1, "c2": c2, "s1": int(r.chance(1, 5)), "s2": int(r.chance(1, 5)), "v": gen_value(r, shape)}
        if r.chance(1, 4):
            # a field-bound alias in one operand: (operand, leaf the field is bound to, leaf of an outer `let F1` or 0)
            which = r.range(1, 2)
            case["fa"] = (which, r.range(1, 3), r.choice([0, 1, 2, 3]))
            tgt = case["c1"] if which == 1 else case["c2"]
            def inject(K):
                if K[0] == "v":
                    return ("v", 6) if r.chance(1, 2) else K
                return ("r", K[1], [(k, o, p, [inject(c) for c in cs]) for (k, o, p, cs) in K[2]])
            tgt[:] = [inject(K) for K in tgt]
        cases.append(case)
    nk = core.harness_bin("nkeval")
    # ---- stream A: the deduplication decision (state level)
    def fa_of(c, which):
        fa = c.get("fa")
        return fa[1] if fa and fa[0] == which else None

    def prelude(c):
        fa = c.get("fa")
        return PRELUDE + ("let F1 = T%d in\n" % fa[2] if fa and fa[2] else "")

    progsA = [prelude(c) + operand(c["c1"], c["s1"], fa_of(c, 1)) + " & " + operand(c["c2"], c["s2"], fa_of(c, 2)) for c in cases]
    modelA = ["(case (env %s%s) (env %s%s) (c1 %s) (c2 %s))" % (
        BASE_BINDS, " (bind 1 (var 2))" if c["s1"] else "", BASE_BINDS, " (bind 1 (var 2))" if c["s2"] else "",
        " ".join(sexp_K(k) for k in c["c1"]), " ".join(sexp_K(k) for k in c["c2"])) for c in cases]
    rc, outA, err = core.run_sharded(nk, [], ["pending=x\t" + m.esc(p) for p in progsA])
    rc2, modA, err2 = core.run_sharded(exe, [], modelA)
    if rc or rc2:
        ck.obligation("run:streamA", "internal", False, err[-300:] + err2[-300:])
    # ---- stream B: behaviour under export, dedup on/off, operands swapped
    def prog(c, swap):
        a, b = operand(c["c1"], c["s1"], fa_of(c, 1)), operand(c["c2"], c["s2"], fa_of(c, 2))
        if swap:
            a, b = b, a
        return prelude(c) + "(%s & %s) & {x = %s}" % (a, b, nickel_V(c["v"]))
    runs = {}
    for name, flags, swap in (("dedup", "trace", False), ("nodedup", "trace,nodedup", False), ("swapped", "trace", True)):
        rc, o, err = core.run_sharded(nk, [], [flags + "\t" + m.esc(prog(c, swap)) for c in cases])
        if rc:
            ck.obligation("run:" + name, "internal", False, err[-300:])
        runs[name] = o
    ndis = nmore = 0
    for i, c in enumerate(cases):
        key = json.dumps(c, sort_keys=True)
        ck.case(key=key, nontrivial=(c["shape"] is not None or len(c["c1"]) + len(c["c2"]) > 2))
        rep = {"case": c, "program": prog(c, False), "merge_only": progsA[i], "model_case": modelA[i]}
        # state-level tie
        a, b = outA[i], modA[i]
        if a.startswith("OK") and not b.startswith("BAD"):
            nr, nm = int(a.split()[1]), int(b.split()[0])
            ck.hist("dedup_decision", "equal" if nr == nm else ("impl more conservative" if nr > nm else "IMPL DROPS MORE"))
            if nr < nm:
                # the implementation removed a contract the model (proved sound) keeps: look for the semantic consequence
                ndis += 1
                rep2 = dict(rep, impl_pending=nr, model_pending=nm)
                d, nd = runs["dedup"][i], runs["nodedup"][i]
                if split_trace(d)[0] != split_trace(nd)[0] or (d.startswith("OK") and set(split_trace(d)[1]) != set(split_trace(nd)[1])):
                    ck.violation("dedup-drops-contract", "deduplication removed a contract that is not a duplicate: with dedup %s, without %s" % (d[:80], nd[:80]), rep2)
                elif focused_search(ck, c, prog, nk, rep2):
                    pass
                    ck.obligation("correspondence:contract_eq-vs-model", "correspondence", False,
                                  "implementation deduplicates more than the model: %s\nimpl %s model %s" % (progsA[i], a, b))
            elif nr > nm:
                nmore += 1
        else:
            ck.obligation("correspondence:contract_eq-vs-model", "correspondence", False, "could not observe: %s / %s for %s" % (a, b, progsA[i]))
        # behaviour
        d, nd, sw = runs["dedup"][i], runs["nodedup"][i], runs["swapped"][i]
        rep.update({"dedup": d, "nodedup": nd, "swapped": sw})
        od, td = split_trace(d)
        ond, tnd = split_trace(nd)
        osw, tsw = split_trace(sw)
        obl = []
        for K in c["c1"]:
            attached(K, c["s1"], c["v"], (), obl, fa_of(c, 1))
        for K in c["c2"]:
            attached(K, c["s2"], c["v"], (), obl, fa_of(c, 2))
        viol = any(leaf == "shape" or v == leaf for (_, leaf, v) in obl)
        expect_ok = not viol
        ck.hist("outcome", "OK" if od.startswith("OK") else od.split()[1])
        ck.hist("field_bound_alias", "yes" if c.get("fa") else "no")
        ck.hist("parametrized_contract", "yes" if c["shape"] == "param" else "no")
        for x in (d, nd, sw):
            if m.crashed(x):
                ck.violation("crash", "interpreter crashed", rep)
        if od != ond:
            ck.violation("dedup-changes-outcome", "outcome with deduplication %s, without %s" % (od[:80], ond[:80]), rep)
        elif od.startswith("OK") and set(td) != set(tnd):
            ck.violation("dedup-drops-contract", "a leaf contract applied without deduplication is never applied with it: %s vs %s" % (sorted(set(td)), sorted(set(tnd))), rep)
        if not m.same_config(od, osw) or (od.startswith("OK") and set(td) != set(tsw)):
            ck.violation("operand-order", "swapping the operands changes the result or the set of applied contracts", rep)
        if expect_ok:
            want = "OK {\"x\":%s}" % canon_V(c["v"])
            if od != want:
                ck.violation("reference:spurious-failure", "all attached contracts hold but the result is %s" % od[:80], rep)
            else:
                leaves = {"std.trace: T%d" % leaf for (_, leaf, v) in obl}
                if not leaves <= set(td):
                    ck.violation("reference:contract-not-applied", "attached contracts never applied: %s" % sorted(leaves - set(td)), rep)
        else:
            if not od.startswith("ERR Blame"):
                ck.violation("reference:contract-not-enforced", "an attached contract is violated by the final value but the result is %s" % od[:80], rep)
        if i < 4:
            ck.sample({"program": prog(c, False), "pending_after_merge": a, "model": b, "export": d[:120]})
    ck.coverage["model_more_permissive_cases"] = nmore
    ck.coverage["rule"] = "case = two lists of contracts for field x (leaf predicates T1..T3 with std.trace, let-bound aliases A1=T1, A2=A1, operands optionally under `let T1 = T2`, a field-bound alias F1 (hidden field of one operand) optionally shadowing an outer `let F1`, parametrized record contracts `MkA = fun E => {f | Array E}` / `MkD = fun E => {f | {_ : E}}` instantiated with equal or different leaves, record contracts over a common shape with per-field contract lists, optional, default priority, open), the second list mostly a small mutation of the first (strict prefix, extension, flag flip, alias swap); plus a value of that shape. Non-trivial = record contracts or more than 2 contracts"
    ck.trusted += ["extraction: ExtrOcamlBasic only", "harness bin nkeval (pending=, trace, nodedup)", "python reference outcome in checks/c04.py"]
    # ---- rich stream: model-free direct oracle over many presentations / attachment contexts of the same contract
    c04_rich.run_rich(ck, nk)
    ck.coverage["rule"] += ". " + ck.coverage.pop("rich_rule")


def probe_values(shape):
    """values of the case's shape that probe every way a dropped contract could matter: each leaf value, and an
    extra field at each record level"""
    if shape is None:
        return [0, 1, 2, 3, 5]
    if shape == "param":
        return []
    out = []
    keys = sorted(shape)

    def upd(d, k, x):
        d2 = dict(d)
        d2[k] = x
        return d2
    base = {k: (0 if shape[k] is None else {kk: 0 for kk in shape[k]}) for k in keys}
    out.append(dict(base))
    out.append(upd(base, 2, 0))
    for k in keys:
        if shape[k] is None:
            for x in (1, 2, 3, 5):
                out.append(upd(base, k, x))
        else:
            for kk in sorted(shape[k]):
                for x in (1, 2, 3):
                    out.append(upd(base, k, upd(base[k], kk, x)))
            out.append(upd(base, k, upd(base[k], 2, 0)))
    return out


def focused_search(ck, c, prog, nk, rep):
    """§1.4: the deduplication decision disagrees with the proved-sound model; search the implementation for a value
    on which deduplication changes the outcome or the set of applied contracts"""
    vals = probe_values(c["shape"])
    if not vals:
        return False
    progs = [prog(dict(c, v=v), False) for v in vals]
    rc, a, _ = core.run_lines(nk, [], ["trace\t" + m.esc(p) for p in progs])
    rc2, b, _ = core.run_lines(nk, [], ["trace,nodedup\t" + m.esc(p) for p in progs])
    for v, p, x, y in zip(vals, progs, a, b):
        ox, tx = split_trace(x)
        oy, ty = split_trace(y)
        if ox != oy or (ox.startswith("OK") and set(tx) != set(ty)):
            ck.violation("dedup-drops-contract", "deduplication removed a contract that is not a duplicate: with dedup %s, without %s" % (x[:80], y[:80]),
                         dict(rep, program=p, dedup=x, nodedup=y, found_by="focused search around a disagreeing deduplication decision"))
            return True
    return False


def split_trace(s):
    if " TRACE " in s:
        o, t = s.split(" TRACE ", 1)
        return o, json.loads(t)
    return s, []


def replay(ck, path):
    obj = json.load(open(path))
    if not ck.harness(["nkeval"]):
        return
    if obj.get("rich"):
        return c04_rich.replay_rich(ck, obj, core.harness_bin("nkeval"))
    p = obj["program"]
    rc, o, err = core.run_lines(core.harness_bin("nkeval"), [], ["trace\t" + m.esc(p), "trace,nodedup\t" + m.esc(p)])
    ck.case(key=p)
    od, td = split_trace(o[0])
    ond, tnd = split_trace(o[1])
    if od != ond or set(td) != set(tnd):
        ck.violation(obj.get("key", "dedup-changes-outcome"), "dedup %s / nodedup %s" % (o[0][:100], o[1][:100]), obj)
