"""C14 case generation: s-expression ASTs inside the parser's image, token-level mutation of
source files, and a renderer of ASTs to source text with few parentheses (for the parser tie).

The s-expression format is the one of harness/src/c14.rs (`dump_term`).  Everything is drawn from a
`vlib.core.SplitMix64`.
"""
from fractions import Fraction
import re

# ------------------------------------------------------------------------------------ s-expr


class S(str):
    """a quoted string"""


def sx_parse(src):
    i = 0
    n = len(src)

    def ws():
        nonlocal i
        while i < n and src[i] in " \n\t\r":
            i += 1

    def rd():
        nonlocal i
        ws()
        c = src[i]
        if c == "(":
            i += 1
            v = []
            while True:
                ws()
                if src[i] == ")":
                    i += 1
                    return v
                v.append(rd())
        if c == '"':
            i += 1
            o = []
            while True:
                c = src[i]
                i += 1
                if c == '"':
                    return S("".join(o))
                if c == "\\":
                    d = src[i]
                    i += 1
                    if d == "n":
                        o.append("\n")
                    elif d == "r":
                        o.append("\r")
                    elif d == "t":
                        o.append("\t")
                    elif d == "x":
                        o.append(chr(int(src[i:i + 2], 16)))
                        i += 2
                    else:
                        o.append(d)
                else:
                    o.append(c)
        st = i
        while i < n and src[i] not in ' \n\t\r()"':
            i += 1
        return src[st:i]

    return rd()


def quote(x):
    o = ['"']
    for c in x:
        if c == '"':
            o.append('\\"')
        elif c == "\\":
            o.append("\\\\")
        elif c == "\n":
            o.append("\\n")
        elif c == "\r":
            o.append("\\r")
        elif c == "\t":
            o.append("\\t")
        elif ord(c) < 0x20:
            o.append("\\x%02x" % ord(c))
        else:
            o.append(c)
    o.append('"')
    return "".join(o)


def show(x):
    if isinstance(x, S):
        return quote(x)
    if isinstance(x, str):
        return x
    return "(" + " ".join(show(y) for y in x) + ")"


TERM_TAGS = {"null", "bool", "num", "str", "chunks", "fun", "let", "app", "var", "enum", "variant", "record",
             "if", "match", "array", "op", "annot", "import", "import_pkg", "type"}


def is_term(x):
    if x == "null":
        return True
    return isinstance(x, list) and x and isinstance(x[0], str) and not isinstance(x[0], S) and x[0] in TERM_TAGS


def subterms(x, out, ctx=None):
    """post-order list of the sub-s-expressions that are terms the parser could produce on their own
    (not: constants of patterns, partially applied lazy operators, field-path string chunks)"""
    if isinstance(x, list):
        tag = x[0] if (x and isinstance(x[0], str) and not isinstance(x[0], S)) else None
        for y in (x[1:] if tag else x):
            subterms(y, out, tag)
        if is_term(x) and ctx not in ("pconst", "pexpr") and not (
                tag == "op" and len(x) == 3 and x[1] in ("(&&)", "(||)")):
            out.append(x)
    return out


def num_str(fr):
    fr = Fraction(fr)
    return str(fr.numerator) if fr.denominator == 1 else "%d/%d" % (fr.numerator, fr.denominator)


# --------------------------------------------------------------------------------- generator

NONE = ["none"]


def some(x):
    return ["some", x]


EMPTY_ANN = ["ann", NONE, []]
EMPTY_FMETA = ["fmeta", NONE, EMPTY_ANN, "0", "0", "neutral"]

VARS = ["x", "y", "z", "f", "g", "foo", "bar'", "_a", "a-b", "Xs", "std", "rest", "as", "include", "or'"]
PVARS = ["x", "y", "z", "f", "g", "foo", "bar'", "_a", "a-b", "rest", "acc"]
TYVARS = ["a", "b", "r", "t"]
FIELDS = ["a", "b", "foo", "bar baz", "if", "doc", "x'", "", "π", "a.b", "%{", '"q"', "include", "1a", "_",
          "-x", "optional", "Number", "or", "as", "b-c", "_x1", "a\\b", "let"]
TAGS = ["A", "Foo", "bar", "a b", "if", "x'", "", "'", "Some", "None", "ok-1", "_u", "Number", "é"]
STRINGS = ["", "a", "a b", "%{x}", '"', "\\", "line1\nline2", "  indented\n  more", "tab\there", "a\n  b\nc", "%",
           "%%{", '"%', 'm%"', "é中", "cr\rlf", "a\n", "\nb", " \n ", "\t a\n\t b", '"%%{x', "%{\n", "'",
           "x\n\n\ny", 'say "hi"\n', "trailing  ", "%%%", '"%"%%', "{", "}", "a\n%", 'a\n"', "#not a comment"]
DOCS = ["doc", "Some *doc*\nwith two lines", "  indented doc\n  second", "", "a \"quoted\" doc", "%{not} interpolated",
        "ends with newline\n"]
NUMBERS = [Fraction(0), Fraction(1), Fraction(42), Fraction(1, 2), Fraction(3, 8), Fraction(10) ** 30,
           Fraction(123456789012345678901234567890), Fraction(1234567890123456789012345, 10 ** 25),
           Fraction(1, 10 ** 20), Fraction(1, 10 ** 7), Fraction(15, 10), Fraction(10 ** 16 + 1),
           Fraction(9999999999999999999), Fraction(99999999999999995, 10), Fraction(5, 10 ** 17) + 1,
           Fraction(255), Fraction(1, 1024), Fraction(314159265358979323846, 10 ** 20), Fraction(10 ** 15),
           Fraction(3, 10 ** 6), Fraction(7, 10 ** 5), Fraction(2 ** 70), Fraction(1, 2 ** 40)]
INFIX = ["(+)", "(-)", "(*)", "(/)", "(%)", "string/concat", "(@)", "(&)", "(<)", "(<=)", "(>)", "(>=)", "(==)"]
FORMATS = ["Nickel", "Json", "Yaml", "Toml", "Text"]
PATHS = ["foo.ncl", "a/b.json", "c.yaml", "d.yml", "e.toml", "f.txt", "noext", "dir.d/file", "x.ncl.bak", ".hidden", "d/.yaml", "a.json/", "b.toml/.", "up/..", "..json", "t.", ".a.yml",
         "sp ace.ncl", "q\"uote.json", "back\\slash.ncl"]


class Gen:
    def __init__(self, rng, primops, max_depth=4):
        self.r = rng
        self.primops = primops          # [(spelling, display name, arity)]
        self.max_depth = max_depth
        self.wildcards = 0

    # ---- helpers
    def pick(self, xs):
        return self.r.choice(xs)

    def chance(self, a, b):
        return self.r.chance(a, b)

    def var(self):
        return ["var", S(self.pick(VARS))]

    def number(self):
        if self.chance(1, 3):
            digits = self.r.range(1, 40)
            n = 0
            for _ in range(digits):
                n = n * 10 + self.r.below(10)
            scale = self.r.range(0, 30) if self.chance(1, 2) else 0
            return Fraction(n, 10 ** scale)
        return self.pick(NUMBERS)

    def num(self):
        return ["num", S(num_str(self.number()))]

    # ---- strings
    def chunks(self, d, allow_interp=True, static_ok=True):
        """a chunk list the parser can produce: no empty literal, no two adjacent literals,
        indentation levels as strip_indent would compute them are left to the harness: we only
        generate level 0, and the multiline witnesses live in the corpus"""
        n = self.r.range(0, 3)
        out = []
        last_lit = False
        has_expr = False
        for _ in range(n):
            if allow_interp and d > 0 and (last_lit or self.chance(1, 2)):
                out.append(["expr", self.term(d - 1), "0"])
                last_lit = False
                has_expr = True
            elif not last_lit:
                s = self.pick(STRINGS)
                if s:
                    out.append(["lit", S(s)])
                    last_lit = True
        if not static_ok and not has_expr:
            out.append(["expr", self.term(max(d - 1, 0)), "0"])
        return out

    # ---- annotations, metadata
    def annot(self, d, nonempty=False):
        typ = some(self.typ(d, [])) if self.chance(1, 3) else NONE
        ctrs = [self.typ(d, []) for _ in range(self.r.weighted([(0, 5), (1, 4), (2, 2)]))]
        if nonempty and typ == NONE and not ctrs:
            ctrs = [self.typ(d, [])]
        return ["ann", typ, ctrs]

    def prio(self):
        c = self.r.below(10)
        if c < 6:
            return "neutral"
        if c == 6:
            return "bottom"
        if c == 7:
            return "top"
        q = self.number() * (-1 if self.chance(1, 3) else 1)
        return ["numeral", S(num_str(q))]

    def fmeta(self, d, typed_ok=True):
        if self.chance(1, 2):
            return EMPTY_FMETA
        ann = self.annot(d) if self.chance(1, 2) else EMPTY_ANN
        if not typed_ok:
            ann = ["ann", NONE, ann[2]]
        return ["fmeta", some(S(self.pick(DOCS))) if self.chance(1, 4) else NONE, ann,
                "1" if self.chance(1, 5) else "0", "1" if self.chance(1, 5) else "0", self.prio()]

    # ---- types
    def contract_term(self, d):
        """a term that may stand in type position (not a literal, array, enum or string)"""
        for _ in range(20):
            t = self.term(d)
            if t == "null" or t[0] in ("bool", "num", "str", "array", "enum", "variant", "chunks", "type"):
                continue
            if t[0] == "var":
                continue          # a variable in type position is decided by the binders: see typ()
            if t[0] == "record" and not t[1] and not t[2] and t[3] == "0":
                continue          # `{}` in type position is the empty record type
            return t
        return ["app", ["var", S("f")], ["var", S("x")]]

    def typ(self, d, bound):
        """`bound` is the list of enclosing forall binders, innermost first, as (name, kind) with
        kind in ty / erows / rrows: the parser rejects a bound variable used at two kinds
        (TypeVariableKindMismatch), so each binder is given one kind when it is introduced"""
        def kind_of(x):
            for (n, k) in bound:
                if n == x:
                    return k
            return None
        c = self.r.below(100)
        if d <= 0:
            c = c % 40
        if c < 8:
            return self.pick(["dyn", "number", "bool", "string"])
        if c < 16:
            x = self.pick(TYVARS + VARS[:6])
            k = kind_of(x)
            if k is None:
                return ["contract", ["var", S(x)]]
            if k == "ty":
                return ["tvar", S(x)]
            return self.pick(["dyn", "number", "bool", "string"])
        if c < 30:
            return ["contract", self.contract_term(d - 1)]
        if c < 40:
            if self.wildcards == 0 and self.chance(1, 3):
                self.wildcards += 1
                return ["wildcard", "0"]
            return self.pick(["dyn", "number", "bool", "string"])
        if c < 58:
            return ["arrow", self.typ(d - 1, bound), self.typ(d - 1, bound)]
        if c < 66:
            v = self.pick(TYVARS)
            k = self.r.weighted([("ty", 3), ("erows", 1), ("rrows", 1)])
            return ["forall", S(v), self.typ(d - 1, [(v, k)] + bound)]
        if c < 74:
            rows = []
            for t in self.r.shuffle(TAGS)[: self.r.range(0, 3)]:
                rows.append(["erow", S(t), some(self.typ(d - 1, bound)) if self.chance(1, 2) else NONE])
            tail = NONE
            tv = sorted(set(n for (n, _) in bound if kind_of(n) == "erows"))
            if tv and self.chance(2, 3):
                tail = some(S(self.pick(tv)))
            return ["enumt", rows, tail]
        if c < 84:
            rows = []
            for f in self.r.shuffle(FIELDS)[: self.r.range(0, 3)]:
                rows.append(["rrow", S(f), self.typ(d - 1, bound)])
            tail = "closed"
            tv = sorted(set(n for (n, _) in bound if kind_of(n) == "rrows"))
            k = self.r.below(6)
            if k == 0:
                tail = "taildyn"
            elif k <= 3 and tv:
                tail = ["tailvar", S(self.pick(tv))]
            return ["rect", rows, tail]
        if c < 92:
            if self.chance(1, 2):
                return ["dict", "type", self.typ(d - 1, bound)]
            return ["dict", "contract", self.typ(d - 1, [])]
        return ["arrayt", self.typ(d - 1, bound)]

    # ---- patterns
    def pat(self, d, alias_ok=True, in_or=False, last_or=True):
        alias = NONE
        if alias_ok and self.chance(1, 8):
            alias = some(S(self.pick(PVARS)))
        c = self.r.below(100)
        if d <= 0:
            c = c % 45
        if c < 10:
            data = "wild"
        elif c < 30:
            data = ["any", S(self.pick(PVARS))]
        elif c < 45:
            k = self.r.below(5)
            if k == 0:
                const = ["bool", "true"]
            elif k == 1:
                const = ["bool", "false"]
            elif k == 2:
                const = "null"
            elif k == 3:
                const = self.num()
            else:
                const = ["str", S(self.pick(STRINGS[:12]))]
            data = ["pconst", const]
        elif c < 60:
            fs = []
            for f in self.r.shuffle(PVARS)[: self.r.range(0, 3)]:
                ann = ["ann", some(self.typ(d - 1, [])) if self.chance(1, 6) else NONE,
                       [self.typ(d - 1, [])] if self.chance(1, 6) else []]
                default = some(self.term(d - 1)) if self.chance(1, 5) else NONE
                sub = ["pat", NONE, ["any", S(f)]] if self.chance(1, 2) else self.pat(d - 1)
                fs.append(["fpat", S(f), ann, default, sub])
            data = ["prec", fs, self.ptail()]
        elif c < 70:
            data = ["parr", [self.pat(d - 1) for _ in range(self.r.range(0, 3))], self.ptail()]
        elif c < 88 or in_or:
            arg = NONE
            if self.chance(1, 2):
                arg = some(self.pat(d - 1))
            data = ["penum", S(self.pick(TAGS)), arg]
        else:
            n = self.r.range(2, 3)
            ps = []
            for k in range(n):
                ps.append(self.pat(d - 1, alias_ok=(k == n - 1), in_or=True))
            data = ["por"] + ps
        return ["pat", alias, data]

    def ptail(self):
        k = self.r.below(5)
        if k < 3:
            return "closed"
        if k == 3:
            return "open"
        return ["capture", S(self.pick(PVARS))]

    # ---- records
    def field_path(self, d):
        n = self.r.weighted([(1, 8), (2, 2), (3, 1)])
        out = []
        for _ in range(n):
            if d > 0 and self.chance(1, 8):
                out.append(["pexpr", ["chunks"] + self.chunks(d - 1, static_ok=False)])
            else:
                out.append(["id", S(self.pick(FIELDS))])
        return out

    def record(self, d):
        nf = self.r.range(0, 4)
        fields = []
        for _ in range(nf):
            path = self.field_path(d)
            m = self.fmeta(d - 1)
            has_typ = m[2][1] != NONE
            val = some(self.term(d - 1)) if (has_typ or self.chance(4, 5)) else NONE
            fields.append(["fdef", path, m, val])
        incs = []
        if self.chance(1, 6):
            used = {p[1][0][1] for p in fields if p[1][0][0] == "id"}
            for v in self.r.shuffle(PVARS)[: self.r.range(1, 2)]:
                if v not in used:
                    incs.append(["incl", S(v), self.fmeta(d - 1) if self.chance(1, 3) else EMPTY_FMETA])
        return ["record", incs, fields, "1" if self.chance(1, 6) else "0"]

    # ---- terms
    def term(self, d):
        c = self.r.below(100)
        if d <= 0:
            c = c % 30
        if c < 4:
            return "null"
        if c < 7:
            return ["bool", self.pick(["true", "false"])]
        if c < 13:
            return self.num()
        if c < 20:
            return self.var()
        if c < 24:
            return ["chunks"] + self.chunks(d)
        if c < 27:
            return ["enum", S(self.pick(TAGS))]
        if c < 30:
            return ["record", [], [], "0"] if self.chance(1, 2) else ["array"]
        if c < 38:
            head = self.term(d - 1)
            args = [self.term(d - 1) for _ in range(self.r.range(1, 3))]
            if head[0] == "enum" and len(args) == 1:
                return ["variant", head[1], args[0]]
            if head[0] == "op" and head[1] in ("(&&)", "(||)"):
                return head
            return ["app", head] + args
        if c < 48:
            op = self.pick(INFIX)
            return ["op", S(op), self.term(d - 1), self.term(d - 1)]
        if c < 51:
            return ["app", ["op", S(self.pick(["(&&)", "(||)"])), self.term(d - 1)], self.term(d - 1)]
        if c < 53:
            return ["op", S("bool/not"), self.term(d - 1)]
        if c < 55:
            return ["op", S("(-)"), ["num", S("0")], self.term(d - 1)]
        if c < 60:
            return ["op", ["stat_access", S(self.pick(FIELDS))], self.term(d - 1)]
        if c < 62:
            return ["op", S("record/get"), ["chunks"] + self.chunks(d - 1, static_ok=False), self.term(d - 1)]
        if c < 64:
            sp, name, ar = self.pick(self.primops)
            return ["op", S(name)] + [self.term(d - 1) for _ in range(ar)]
        if c < 68:
            if self.chance(1, 12):      # what `(.)` parses to
                return ["fun", [["pat", NONE, ["any", S("x")]], ["pat", NONE, ["any", S("y")]]],
                        ["op", S("record/get"), ["var", S("y")], ["var", S("x")]]]
            return ["fun", [self.pat(d - 1) for _ in range(self.r.range(1, 3))], self.term(d - 1)]
        if c < 73:
            names = self.r.shuffle(PVARS)
            bs = []
            for k in range(self.r.range(1, 3)):
                if self.chance(3, 4):
                    p = ["pat", NONE, ["any", S(names[k])]]
                else:
                    p = ["pat", NONE, ["prec", [["fpat", S(names[k] + "1"), EMPTY_ANN, NONE,
                                                 ["pat", NONE, ["any", S(names[k] + "1")]]]], self.ptail()]]
                    if p[2][2] != "closed" and isinstance(p[2][2], list):
                        p[2][2] = ["capture", S(names[k] + "2")]
                doc = some(S(self.pick(DOCS))) if self.chance(1, 6) else NONE
                bs.append(["bind", p, ["lmeta", doc, self.annot(d - 1) if self.chance(1, 3) else EMPTY_ANN],
                           self.term(d - 1)])
            return ["let", "1" if self.chance(1, 4) else "0", bs, self.term(d - 1)]
        if c < 76:
            return ["if", self.term(d - 1), self.term(d - 1), self.term(d - 1)]
        if c < 80:
            bs = []
            for _ in range(self.r.range(0, 3)):
                bs.append(["branch", self.pat(d - 1), some(self.term(d - 1)) if self.chance(1, 5) else NONE,
                           self.term(d - 1)])
            return ["match"] + bs
        if c < 84:
            return ["array"] + [self.term(d - 1) for _ in range(self.r.range(1, 3))]
        if c < 91:
            return self.record(d)
        if c < 95:
            return ["annot", self.annot(d - 1, nonempty=True), self.term(d - 1)]
        if c < 96:
            p = self.pick(PATHS)
            fmt = self.pick(FORMATS)
            return ["import", S(p), fmt]
        if c < 97:
            return ["variant", S(self.pick(TAGS)), self.term(d - 1)]
        # a type in term position
        for _ in range(10):
            ty = self.typ(d - 1, [])
            if isinstance(ty, list) and ty[0] == "contract":
                continue
            if isinstance(ty, list) and ty[0] == "rect" and not ty[1] and ty[2] == "closed":
                continue
            return ["type", ty]
        return ["type", "dyn"]

    def program(self):
        self.wildcards = 0
        return self.term(self.max_depth)


# -------------------------------------------------------------------- out-of-image stream

def out_of_image(rng, gen):
    """ASTs the parser cannot produce: only the model/implementation ties are checked on them
    (same tokens, same panic behaviour, same result of re-parsing)."""
    t = gen.term(2)
    u = gen.term(2)
    k = rng.below(14)
    if k == 0:
        return ["num", S(num_str(-abs(gen.number()) - 1))]
    if k == 1:
        return ["app", ["enum", S("Foo")], t]
    if k == 2:
        return ["str", S(rng.choice(STRINGS))]
    if k == 3:
        return ["op", S("(&&)"), t]
    if k == 4:
        return ["op", S("(&&)"), t, u]
    if k == 5:
        return ["app", ["op", S("(||)"), t], u, t]
    if k == 6:
        return ["op", S("(+)"), t]
    if k == 7:
        return ["op", S("bool/not"), t, u]
    if k == 8:
        return ["op", S("record/get"), t, u]
    if k == 9:
        return ["chunks", ["lit", S("a")], ["lit", S("b")], ["expr", t, "3"]]
    if k == 10:
        return ["type", ["contract", t]]
    if k == 11:
        return ["annot", EMPTY_ANN, t]
    if k == 12:
        return ["op", ["stat_access", S("f")], t, u]
    return ["type", ["tvar", S("a")]]


# ------------------------------------------------------------------------- source mutation

TOKEN_RE = re.compile(
    r'm%+"|"%+|%+\{|[A-Za-z_][A-Za-z0-9_\'-]*|[0-9]+(?:\.[0-9]+)?(?:[eE][+-]?[0-9]+)?|\'[A-Za-z_][A-Za-z0-9_\'-]*'
    r'|==|!=|<=|>=|&&|\|\||\+\+|->|=>|\|>|\.\.|\[\||\|\]|%[a-z_/0-9]+%|\s+|.', re.S)

OPS = ["+", "-", "*", "/", "%", "++", "@", "&", "<", "<=", ">", ">=", "==", "!=", "&&", "||", "->", "|>", "|", ":"]
SNIPPETS = ["(", ")", "{", "}", "[", "]", ",", "=", "..", "!", "-", "null", "true", "fun x =>", "let y = 1 in",
            "if true then", "else", "match {", "| Number", ": String", "| default", "| optional", "| not_exported",
            "| doc \"d\"", "| priority 5", "| force", "x", "'Tag", "\"s\"", "m%\"\n  s\n\"%", "%{x}", "1e-7", "0x1F",
            "123456789012345678901234567890", "0.1234567890123456789012345", "include x", "forall a.", "Array",
            "Dyn", "_", "x @", "or", "as", "import \"f.ncl\"", "(.)", "(&&)", "(x | C)", "(f x).\"%{y}\"", "?"]


def mutate(rng, src):
    toks = TOKEN_RE.findall(src)
    idx = [i for i, t in enumerate(toks) if not t.isspace()]
    if not idx:
        return src
    n = rng.weighted([(1, 5), (2, 3), (3, 1)])
    for _ in range(n):
        i = rng.choice(idx)
        k = rng.below(9)
        t = toks[i]
        if k == 0:
            toks[i] = ""
        elif k == 1:
            toks[i] = t + " " + t
        elif k == 2:
            j = rng.choice(idx)
            toks[i], toks[j] = toks[j], toks[i]
        elif k == 3 and t in OPS:
            toks[i] = rng.choice(OPS)
        elif k == 4:
            toks[i] = t + " " + rng.choice(SNIPPETS)
        elif k == 5:
            toks[i] = rng.choice(SNIPPETS) + " " + t
        elif k == 6:
            toks[i] = "(" + t + ")"
        elif k == 7 and re.fullmatch(r"[0-9].*", t):
            toks[i] = rng.choice(["123456789012345678901234567890", "0.30000000000000004", "1e400", "0.5e-30",
                                  "99999999999999999999.5", "0b1011", "0o777"])
        else:
            toks[i] = rng.choice(SNIPPETS)
    return "".join(toks)
