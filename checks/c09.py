"""C09 — evaluation is lazy and referentially transparent.

Programs are generated as s-expression trees (python tuples).  Every program is printed to Nickel
source for the Rust implementation (harness bin `nkeval`) and, when it lies in the modelled
fragment, as an s-expression for the extracted Coq models (call-by-name specification `name`,
call-by-need machine `need`).  Direct oracle (needs no model): nkeval(p) == nkeval(rewrite p) for
the rewrites of the property, and `field=<path>` evaluation == lookup of the path in the full
export (also with a failing sibling field inserted)."""
import json
import os
import shutil

from vlib import core

META = {
    "harness_bins": ["nkeval"],
    "extract": "C09.v",
    "technique": "Coq proof: substitution/abstraction laws of a fuel-indexed call-by-name semantics with environments (symmetric simulation relation on closures + simulation theorem), and refinement of a call-by-need heap machine (thunks, update after evaluation, black-holing, no update frame for values, recursive groups for let rec / record literals) to it; tied to the Rust evaluator by running generated programs, their let-/beta-/field-/element-/import-/seq-rewrites and --field extraction on the implementation (direct oracle) and on both extracted models",
    "level_text": "Theorems (coq/Props/C09.v), for every term, environment and fuel: let_abs and beta_abs (binder outermost, arbitrary multi-hole body as capture-free substitution), field_abs, elem_abs, import_abs and their closure under arbitrary program contexts (ctx_abs: any number of positions, under any binders), seq_ok, field_extraction (path value in the full export = field extraction = export of e.path) and field_extraction_lazy (extraction succeeds exactly when the path's own value does) on the call-by-name semantics S; need_refines_name: whenever the heap machine with update frames, should_update and black-holing returns a result other than OutOfFuel, S returns the same result for some fuel, and when it reports a black hole (InfiniteRec) S diverges -- for every program (let rec and recursive records included) whose record literals have distinct field names, also for field extraction on the machine; a wrong-cell update and a caller-environment variant of the machine are refuted. The models are hand-written readings of eval/mod.rs, eval/cache/lazy.rs, closurize.rs; the tie is the correspondence run: generated programs (the Coq fragment, and a broader Nickel fragment with match, interpolation, contracts, merges, std calls) evaluated by the Rust implementation before/after each rewrite and with field=<path>, and by both extracted models.",
    "level_note": "Trusted: Coq kernel; extraction (ExtrOcamlBasic + ExtrOcamlNativeString); harness bin nkeval; the Python generator/printer; the reading of the Rust evaluator in coq/Lazy/Need.v (value-level: Rc<RefCell> thunks as cells of a list heap that keep a ghost copy of their original closure; revertible thunks only as a tag; stack and update frames as the recursion of a big-step function). Partial: let_abs/beta_abs are proved with the binder outermost (as in the property statement), the other rewrites inside arbitrary contexts; contracts, merges, match, interpolation and the standard library are outside the Coq fragment and covered by the direct oracle only.",
}

NUMS = [0, 1, 2, 3, 5, 7, 10, -1, -4]
STRS = ["a", "b", "foo", "bar", "x y", ""]
FIELDS = ["a", "b", "c", "d", "e", "g"]
TAGS = ["A", "B", "C"]

# --------------------------------------------------------------------------- tree utilities

BASE = {"var", "lam", "app", "let", "letrec", "num", "str", "bool", "bin", "if", "arr", "at", "rec",
        "get", "seq", "fail", "import"}


def children(t):
    """[(key, child, binders introduced for that child)]; key addresses the child in `t`."""
    k = t[0]
    if k in ("var", "num", "str", "bool", "fail", "import", "enum"):
        return []
    if k == "lam":
        return [((2,), t[2], [t[1]])]
    if k == "let":
        return [((2,), t[2], []), ((3,), t[3], [t[1]])]
    if k == "letrec":
        return [((2,), t[2], [t[1]]), ((3,), t[3], [t[1]])]
    if k in ("app", "at", "seq", "merge", "eq"):
        return [((1,), t[1], []), ((2,), t[2], [])]
    if k == "bin":
        return [((2,), t[2], []), ((3,), t[3], [])]
    if k == "if":
        return [((1,), t[1], []), ((2,), t[2], []), ((3,), t[3], [])]
    if k == "arr":
        return [((1, i), e, []) for i, e in enumerate(t[1])]
    if k == "rec":
        ns = [f for f, _ in t[1]]
        return [((1, i, 1), e, ns) for i, (f, e) in enumerate(t[1])]
    if k in ("get", "ann"):
        return [((1,), t[1], [])]
    if k == "interp":
        return [((1, i), p, []) for i, p in enumerate(t[1]) if not isinstance(p, str)]
    if k == "std":
        return [((2, i), a, []) for i, a in enumerate(t[2])]
    if k == "ty":        # ("ty", "Number"): a builtin type used as a value
        return []
    if k in ("tyarr", "tydict"):     # Array C / {_ | C} with an arbitrary contract expression C
        return [((1,), t[1], [])]
    if k == "tyfun":
        return [((1,), t[1], []), ((2,), t[2], [])]
    if k == "tyrec":     # ("tyrec", [(f, C)]): {f | C, ..} -- a record literal: the field names are in scope in C
        ns = [f for f, _ in t[1]]
        return [((1, i, 1), c, ns) for i, (f, c) in enumerate(t[1])]
    if k == "annx":      # ("annx", e, C): e | C with C an arbitrary expression
        return [((1,), t[1], []), ((2,), t[2], [])]
    if k == "recann":    # ("recann", [(f, C or None, e)]): {f | C = e, ...}; annotations see the fields
        ns = [f for f, _, _ in t[1]]
        res = []
        for i, (f, c, e) in enumerate(t[1]):
            if c is not None:
                res.append(((1, i, 1), c, ns))
            res.append(((1, i, 2), e, ns))
        return res
    if k == "recmeta":   # ("recmeta", [(f, None|"default"|"force", e)]): {f | force = e, ...}
        ns = [f for f, _, _ in t[1]]
        return [((1, i, 2), e, ns) for i, (f, _, e) in enumerate(t[1])]
    if k == "lets":      # ("lets", rec?, [(x, e)], body): multi-binding let / let rec
        ns = [x for x, _ in t[2]]
        res = [((2, i, 1), e, ns if t[1] else []) for i, (x, e) in enumerate(t[2])]
        return res + [((3,), t[3], ns)]
    if k == "match":
        # ("match", scrutinee, [(pattern, body)]) ; pattern = ("ptag", T) | ("pany",) | ("prec", [names])
        res = [((1,), t[1], [])]
        for i, (p, b) in enumerate(t[2]):
            res.append(((2, i, 1), b, list(p[1]) if p[0] == "prec" else []))
        return res
    raise ValueError("children: " + repr(t))


def get_in(t, key):
    for i in key:
        t = t[i]
    return t


def set_in(t, key, new):
    if not key:
        return new
    i = key[0]
    if isinstance(t, tuple):
        return t[:i] + (set_in(t[i], key[1:], new),) + t[i + 1:]
    return t[:i] + [set_in(t[i], key[1:], new)] + t[i + 1:]


def fvs(t):
    if t[0] == "var":
        return {t[1]}
    out = set()
    for _, c, bs in children(t):
        out |= fvs(c) - set(bs)
    return out


def is_base(t):
    """In the fragment of the Coq models (multi-binding blocks are desugared by `sexp`)."""
    return (t[0] in BASE or t[0] == "lets") and all(is_base(c) for _, c, _ in children(t))


class Capture(Exception):
    pass


def subst_vars(t, m):
    """Capture-avoiding simultaneous substitution of the free variables in dict `m`; raises
    Capture when a binder of `t` would capture a free variable of a substituted term."""
    if not m:
        return t
    if t[0] == "var":
        return m.get(t[1], t)
    for k, c, bs in children(t):
        m2 = {x: e for x, e in m.items() if x not in bs}
        if bs and m2:
            fc = fvs(c)
            for x, e in m2.items():
                if x in fc and fvs(e) & set(bs):
                    raise Capture()
        t = set_in(t, k, subst_vars(c, m2))
    return t


def positions(t, key=(), chain=()):
    """All sub-expression positions: (key, subterm, chain) where chain = ((ancestor key, binders
    introduced on the step below it), ...) from the root down."""
    yield key, t, chain
    for k, c, bs in children(t):
        yield from positions(c, key + k, chain + ((key, tuple(bs)),))


def size(t):
    return 1 + sum(size(c) for _, c, _ in children(t))


# --------------------------------------------------------------------------- printers

def sexp(t):
    k = t[0]
    if k in ("var", "import"):
        return "(%s %s)" % (k, t[1])
    if k == "lam":
        return "(lam %s %s)" % (t[1], sexp(t[2]))
    if k in ("let", "letrec"):
        return "(%s %s %s %s)" % (k, t[1], sexp(t[2]), sexp(t[3]))
    if k == "num":
        return "(num %d)" % t[1]
    if k == "str":
        return '(str "%s")' % t[1]
    if k == "bool":
        return "(bool %s)" % ("true" if t[1] else "false")
    if k == "bin":
        return "(bin %s %s %s)" % (t[1], sexp(t[2]), sexp(t[3]))
    if k == "if":
        return "(if %s %s %s)" % (sexp(t[1]), sexp(t[2]), sexp(t[3]))
    if k == "arr":
        return "(arr%s)" % "".join(" " + sexp(e) for e in t[1])
    if k in ("app", "at", "seq"):
        return "(%s %s %s)" % (k, sexp(t[1]), sexp(t[2]))
    if k == "rec":
        return "(rec%s)" % "".join(" (%s %s)" % (f, sexp(e)) for f, e in t[1])
    if k == "get":
        return "(get %s %s)" % (sexp(t[1]), t[2])
    if k == "fail":
        return "(fail)"
    if k == "lets" and not t[1]:
        # parallel block: ((fun x1 => fun x2 => body) e1) e2 -- right-hand sides in the outer scope
        out = sexp(t[3])
        for x, _ in reversed(t[2]):
            out = "(lam %s %s)" % (x, out)
        for _, e in t[2]:
            out = "(app %s %s)" % (out, sexp(e))
        return out
    if k == "lets" and t[1]:
        # recursive block = a recursive record whose fields are the bindings
        names = [x for x, _ in t[2]]
        avoid = fvs(t[3]) | set(names)
        for _, e in t[2]:
            avoid |= fvs(e)
        r = "rr"
        while r in avoid:
            r += "r"
        body = subst_vars(t[3], {x: ("get", ("var", r), x) for x in names})
        return "(let %s %s %s)" % (r, sexp(("rec", list(t[2]))), sexp(body))
    return "(unsupported-%s)" % k


BINOPS = {"add": "+", "sub": "-", "mul": "*", "lt": "<", "cat": "++"}


def nickel(t, imp):
    """imp: file key -> absolute path"""
    k = t[0]
    n = lambda x: nickel(x, imp)  # noqa: E731

    def nc(x):
        # contract position: the parser rejects constants there ("illegal type"); a let keeps
        # the value and moves the decision to the evaluator
        if x[0] in ("num", "str", "bool", "arr", "enum", "interp"):
            return "(let q__ = %s in q__)" % n(x)
        return n(x)
    if k == "var":
        return t[1]
    if k == "lam":
        return "(fun %s => %s)" % (t[1], n(t[2]))
    if k == "app":
        return "(%s %s)" % (n(t[1]), n(t[2]))
    if k == "let":
        return "(let %s = %s in %s)" % (t[1], n(t[2]), n(t[3]))
    if k == "letrec":
        return "(let rec %s = %s in %s)" % (t[1], n(t[2]), n(t[3]))
    if k == "num":
        return str(t[1]) if t[1] >= 0 else "(%d)" % t[1]
    if k == "str":
        return '"%s"' % t[1]
    if k == "bool":
        return "true" if t[1] else "false"
    if k == "bin":
        return "(%s %s %s)" % (n(t[2]), BINOPS[t[1]], n(t[3]))
    if k == "if":
        return "(if %s then %s else %s)" % (n(t[1]), n(t[2]), n(t[3]))
    if k == "arr":
        return "[%s]" % ", ".join(n(e) for e in t[1])
    if k == "at":
        return "(std.array.at %s %s)" % (n(t[1]), n(t[2]))
    if k == "rec":
        return "{%s}" % ", ".join("%s = %s" % (f, n(e)) for f, e in t[1])
    if k == "get":
        return "(%s).%s" % (n(t[1]), t[2])
    if k == "seq":
        return "(std.seq %s %s)" % (n(t[1]), n(t[2]))
    if k == "fail":
        return '(std.fail_with "x")'
    if k == "import":
        return '(import "%s")' % imp[t[1]]
    # ---- beyond the Coq fragment
    if k == "lets":
        return "(let %s%s in %s)" % ("rec " if t[1] else "", ", ".join("%s = %s" % (x, n(e)) for x, e in t[2]), n(t[3]))
    if k == "interp":
        return '"%s"' % "".join(p if isinstance(p, str) else "%{" + n(p) + "}" for p in t[1])
    if k == "enum":
        return "'%s" % t[1]
    if k == "match":
        def pat(p):
            if p[0] == "ptag":
                return "'%s" % p[1]
            if p[0] == "prec":
                return "{%s}" % ", ".join(list(p[1]) + [".."])
            return "_"
        return "(%s |> match { %s })" % (n(t[1]), ", ".join("%s => %s" % (pat(p), n(b)) for p, b in t[2]))
    if k == "ann":
        return "(%s | %s)" % (n(t[1]), t[2])
    if k == "annx":
        return "(%s | %s)" % (n(t[1]), nc(t[2]))
    if k == "ty":
        return t[1]
    if k == "tyarr":
        return "(Array %s)" % nc(t[1])
    if k == "tydict":
        return "{_ | %s}" % nc(t[1])
    if k == "tyfun":
        return "(%s -> %s)" % (nc(t[1]), nc(t[2]))
    if k == "tyrec":
        return "{%s}" % ", ".join(["%s | %s" % (f, nc(c)) for f, c in t[1]] + [".."])
    if k == "recann":
        return "{%s}" % ", ".join("%s%s = %s" % (f, "" if c is None else " | " + nc(c), n(e)) for f, c, e in t[1])
    if k == "recmeta":
        return "{%s}" % ", ".join("%s%s = %s" % (f, "" if m_ is None else " | " + m_, n(e)) for f, m_, e in t[1])
    if k == "merge":
        return "(%s & %s)" % (n(t[1]), n(t[2]))
    if k == "eq":
        return "(%s == %s)" % (n(t[1]), n(t[2]))
    if k == "std":
        return "(%s%s)" % (t[1], "".join(" " + n(a) for a in t[2]))
    raise ValueError("nickel: " + repr(t))


# --------------------------------------------------------------------------- generator

class Gen:
    """Type-directed generator: mostly well-typed terminating programs with injected faults
    (failing, ill-typed or diverging sub-expressions, most of them in positions that a lazy
    evaluator never demands)."""

    def __init__(self, rng, ext, fault_num=1, fault_den=14):
        self.r = rng
        self.ext = ext            # allow constructors beyond the Coq fragment
        self.files = {}           # key -> closed term
        self.nvar = 0
        self.fn, self.fd = fault_num, fault_den

    def fresh(self, unique=False):
        # names are reused on purpose: shadowing is what distinguishes lexical from dynamic scope;
        # binders and record fields draw from one pool, so a let / function parameter / pattern
        # inside a record literal can rebind the name of a sibling or enclosing field
        if not unique and self.r.chance(1, 3):
            return self.r.choice(["x", "y", "z", "w"] + FIELDS[:4])
        self.nvar += 1
        return "x%d" % self.nvar

    def binder(self, sc):
        """A name for a let / lambda binder: often one that is already in scope (a variable or a
        field of an enclosing record literal), e.g. the self-shadowing idiom let x = f x in .."""
        names = sorted(self.last_vars(sc))
        if names and self.r.chance(1, 3):
            return self.r.choice(names)
        return self.fresh()

    def rand_type(self, d, allow_fun=True):
        c = self.r.below(100)
        if d <= 0 or c < 45:
            return self.r.choice(["num", "num", "str", "bool"])
        if c < 60:
            return ("arr", self.rand_type(d - 1, False))
        if c < 82:
            fs = self.r.shuffle(FIELDS)[: self.r.range(1, 3)]
            return ("rec", tuple((f, self.rand_type(d - 1, False)) for f in sorted(fs)))
        if c < 88 and self.ext:
            return "enum"
        if allow_fun and self.ext and c < 94:
            # a contract for values of some type, used as a first-class value
            return ("ctr", self.rand_type(max(d - 1, 1), False))
        if allow_fun:
            return ("fun", self.rand_type(d - 1, False), self.rand_type(d - 1, False))
        return "num"

    def fault(self, ty, sc, d):
        c = self.r.below(100)
        if c < 30:
            return ("fail",)
        if c < 55:
            return ("bin", "add", ("num", 1), ("str", "a"))
        if c < 65:
            return ("get", ("rec", [("a", ("num", 1))]), "zz")
        if c < 73:
            return ("at", ("num", 3), ("arr", [("num", 1)]))
        if c < 80:
            return ("app", ("num", 1), ("num", 2))
        if c < 86:
            x = self.fresh()
            return ("letrec", x, ("var", x), ("var", x))
        if c < 90:
            return ("get", ("rec", [("a", ("var", "a"))]), "a")
        # a value of some other type
        return self.gen(self.rand_type(1), sc, 1)

    def lit(self, ty, sc, d):
        r = self.r
        if ty == "num":
            return ("num", r.choice(NUMS))
        if ty == "str":
            return ("str", r.choice(STRS))
        if ty == "bool":
            return ("bool", r.chance(1, 2))
        if ty == "enum":
            return ("enum", r.choice(TAGS))
        if ty[0] == "arr":
            return ("arr", [self.gen(ty[1], sc, d - 1) for _ in range(r.range(0, 3))])
        if ty[0] == "rec":
            return self.rec_lit(ty, sc, d)
        if ty[0] == "fun":
            x = self.binder(sc)
            return ("lam", x, self.gen(ty[2], sc + [(x, ty[1])], d - 1))
        if ty[0] == "ctr":
            return self.ctr_lit(ty[1], sc, d)
        raise ValueError(ty)

    def ctr_lit(self, vt, sc, d):
        """A contract (type literal or custom contract) accepting the values of type `vt`; inner
        contracts are arbitrary expressions, so the type value can have free variables."""
        r = self.r
        sub = lambda t: self.gen(("ctr", t), sc, d - 1)  # noqa: E731
        if r.chance(1, 6):
            return ("ty", "Dyn")
        if vt == "num":
            if r.chance(1, 3):
                v = self.fresh(unique=True)
                return ("std", "std.contract.from_predicate", [("lam", v, ("bin", "lt", ("var", v), ("num", 1000)))])
            return ("ty", "Number")
        if vt == "str":
            return ("ty", "String")
        if vt == "bool":
            return ("ty", "Bool")
        if vt == "enum":
            return ("ty", "Dyn")
        if vt[0] == "arr":
            return ("tyarr", sub(vt[1]))
        if vt[0] == "rec":
            ts = {t for _, t in vt[1]}
            if len(ts) == 1 and r.chance(1, 2):
                return ("tydict", sub(vt[1][0][1]))
            names = [f for f, _ in vt[1]]
            inner = [(x, t) for x, t in sc if x not in names]
            return ("tyrec", [(f, self.gen(("ctr", t), inner, d - 1)) for f, t in vt[1]])
        if vt[0] == "fun":
            return ("tyfun", sub(vt[1]), sub(vt[2]))
        return ("ty", "Dyn")

    def rec_lit(self, ty, sc, d):
        """Record literal of the given type; extra fields (some of them failing and never
        demanded by a well-typed consumer ... but demanded by a full export) and references
        between sibling fields."""
        r = self.r
        want = list(ty[1])
        extra = []
        if r.chance(1, 4):
            f = r.choice([g for g in FIELDS if g not in dict(want)] or ["h"])
            extra.append((f, self.rand_type(1, False)))
        allf = r.shuffle(want + extra)
        inner = sc + [(f, t) for f, t in allf]
        fields = []
        for i, (f, t) in enumerate(allf):
            # a field may refer to sibling fields declared *earlier in this list* only (acyclic
            # dependencies, so evaluation terminates); the names of all fields shadow outer ones
            visible = [(g, tg) for (g, tg) in sc if g not in dict(allf)] + allf[:i]
            fields.append((f, self.gen(t, visible, d - 1)))
        if self.ext and r.chance(1, 4):
            # field annotations; a contract-valued field may be shared by several annotations
            outer = [(g, tg) for (g, tg) in sc if g not in dict(allf)]
            out = []
            for f, e in fields:
                t = dict(allf)[f]
                out.append((f, self.gen(("ctr", t), outer, d - 1) if r.chance(1, 2) else None, e))
            return ("recann", out)
        return ("rec", fields)

    def vars_of(self, ty, sc):
        seen, out = set(), []
        for x, t in reversed(sc):
            if x in seen:
                continue
            seen.add(x)
            if t == ty:
                out.append(("var", x))
        return out

    def gen(self, ty, sc, d):
        r = self.r
        if r.chance(self.fn, self.fd * (2 if d > 2 else 1)):
            return self.fault(ty, sc, d)
        vs = self.vars_of(ty, sc)
        if vs and r.chance(2, 5):
            return r.choice(vs)
        if d <= 0:
            return r.choice(vs) if vs and r.chance(1, 2) else self.lit(ty, sc, 0)
        if r.chance(1, 11):
            return self.block(ty, sc, d)
        if r.chance(1, 7 if self.ext else 12):
            return self.share_probe(ty, sc, d)
        if self.ext and ty == "bool" and r.chance(1, 6):
            # mutual recursion through a two-binding let rec
            ev, od, nn = self.fresh(unique=True), self.fresh(unique=True), self.fresh(unique=True)
            dec = ("bin", "sub", ("var", nn), ("num", 1))
            zero = ("bin", "lt", ("var", nn), ("num", 1))
            return ("lets", True,
                    [(ev, ("lam", nn, ("if", zero, ("bool", True), ("app", ("var", od), dec)))),
                     (od, ("lam", nn, ("if", zero, ("bool", False), ("app", ("var", ev), dec))))],
                    ("app", ("var", r.choice([ev, od])), ("num", r.range(0, 5))))
        if self.ext and not (isinstance(ty, tuple) and ty[0] == "ctr") and r.chance(1, 10):
            return self.override_probe(ty, sc, d)
        if self.ext and not (isinstance(ty, tuple) and ty[0] == "ctr") and r.chance(1, 9):
            return ("annx", self.gen(ty, sc, d - 1), self.gen(("ctr", ty), sc, d - 1))
        if self.ext and r.chance(2, 5):
            return self.by_type(ty, sc, d)
        c = r.below(100)
        if c < 22:
            return self.lit(ty, sc, d)
        if c < 34:
            t1 = self.rand_type(1)
            if r.chance(1, 6):
                # a failing binding is fine as long as nobody demands it
                return ("let", self.fresh(unique=True), self.fault(t1, sc, d), self.gen(ty, sc, d - 1))
            x = self.binder(sc)
            bound = self.gen(t1, sc, d - 1)
            return ("let", x, bound, self.gen(ty, sc + [(x, t1)], d - 1))
        if c < 44:
            t1 = self.rand_type(1, False)
            if r.chance(1, 8):
                return ("app", ("lam", self.fresh(unique=True), self.gen(ty, sc, d - 1)), self.fault(t1, sc, d))
            x = self.binder(sc)
            f = ("lam", x, self.gen(ty, sc + [(x, t1)], d - 1))
            return ("app", f, self.gen(t1, sc, d - 1))
        if c < 50:
            last = {}
            for x, t in sc:
                last[x] = t
            fs = [(x, t) for x, t in sorted(last.items()) if isinstance(t, tuple) and t[0] == "fun" and t[2] == ty]
            if fs and r.chance(2, 3):
                x, t = r.choice(fs)
                return ("app", ("var", x), self.gen(t[1], sc, d - 1))
            # a function-valued expression (possibly a closure leaving the scope it was built in)
            t1 = self.rand_type(1, False)
            return ("app", self.gen(("fun", t1, ty), sc, d - 1), self.gen(t1, sc, d - 1))
        if c < 53:
            return self.scope_probe(ty, sc, d)
        if c < 58:
            return ("if", self.gen("bool", sc, d - 1), self.gen(ty, sc, d - 1), self.gen(ty, sc, d - 1))
        if c < 64:
            n = r.range(1, 3)
            k = r.below(n)
            es = [self.gen(ty, sc, d - 1) if i == k else (self.fault(ty, sc, d) if r.chance(1, 3) else self.gen(ty, sc, d - 2))
                  for i in range(n)]
            return ("at", ("num", k), ("arr", es))
        if c < 72:
            f = r.choice(FIELDS)
            rt = ("rec", ((f, ty),))
            return ("get", self.rec_lit(rt, sc, d), f)
        if c < 76:
            return ("seq", self.gen(self.rand_type(1), sc, d - 2), self.gen(ty, sc, d - 1))
        if c < 80:
            key = "f%d" % len(self.files)
            self.files[key] = None
            self.files[key] = self.gen(ty, [], d - 1)
            return ("import", key)
        if c < 84 and ty == "num":
            # structurally terminating recursion
            f, n = self.fresh(unique=True), self.fresh(unique=True)
            step = self.gen("num", sc, d - 2)
            body = ("if", ("bin", "lt", ("var", n), ("num", 1)), self.gen("num", sc, d - 2),
                    ("bin", "add", ("app", ("var", f), ("bin", "sub", ("var", n), ("num", 1))), step))
            return ("letrec", f, ("lam", n, body), ("app", ("var", f), ("num", r.range(0, 4))))
        return self.by_type(ty, sc, d)

    def last_vars(self, sc):
        last = {}
        for x, t in sc:
            last[x] = t
        return last

    def block(self, ty, sc, d):
        """Multi-binding let / let rec blocks.  Names of the block shadow outer variables on
        purpose, and right-hand sides are often bare aliases: in a parallel block they denote the
        OUTER variable even when the block rebinds the name; in a recursive block a reference to
        a name defined later in the block denotes the block's binding, not an outer one."""
        r = self.r
        if r.chance(1, 2) and not (isinstance(ty, tuple) and ty[0] == "ctr"):
            # scope probe for blocks: the block rebinds a name that is also bound outside, and
            # another binding of the block is a bare alias of that name
            x, u = self.fresh(), self.fresh(unique=True)
            a, b2 = self.gen(ty, sc, d - 2), self.gen(ty, sc, d - 2)
            rec = r.chance(1, 2)
            binds = [(u, ("var", x)), (x, b2)] if rec else [(x, b2), (u, ("var", x))]
            if r.chance(1, 2):
                z, tz = self.fresh(unique=True), self.rand_type(0)
                binds.insert(r.below(3), (z, self.gen(tz, sc, d - 2)))
            inner = sc + [(x, ty), (u, ty)]
            body = ("var", u) if r.chance(2, 3) else self.gen(ty, inner, d - 2)
            return ("let", x, a, ("lets", rec, binds, body))
        outer = self.last_vars(sc)
        n = r.range(2, 3)
        rec = r.chance(1, 3)
        names, types = [], []
        for i in range(n):
            cands = [x for x in sorted(outer) if x not in names]
            if cands and r.chance(1, 2):
                x = r.choice(cands)
                # mostly keep the type of the shadowed variable, so that aliases type-check
                t = outer[x] if r.chance(3, 4) else self.rand_type(1, False)
            else:
                x, t = self.fresh(), self.rand_type(1, False)
                if x in names:
                    x = self.fresh(unique=True)
            names.append(x)
            types.append(t)
        binds = []
        for i, (x, t) in enumerate(zip(names, types)):
            if not rec:
                al = [y for y, ty_ in sorted(outer.items()) if ty_ == t]
                pref = [y for y in al if y in names[:i]] or [y for y in al if y in names]
                if al and r.chance(1, 2):
                    binds.append((x, ("var", r.choice(pref) if pref and r.chance(2, 3) else r.choice(al))))
                else:
                    binds.append((x, self.gen(t, sc, d - 1)))
            else:
                # acyclic by construction: binding i may mention the bindings after it
                later = [(y, ty_) for y, ty_ in list(zip(names, types))[i + 1:]]
                vis = [(y, ty_) for y, ty_ in sc if y not in names] + later
                al = [y for y, ty_ in later if ty_ == t]
                if al and r.chance(1, 2):
                    binds.append((x, ("var", r.choice(al))))
                else:
                    binds.append((x, self.gen(t, vis, d - 1)))
        inner = sc + list(zip(names, types))
        uses = [("var", x) for x, t in zip(names, types) if t == ty]
        body = self.gen(ty, inner, d - 1)
        if uses and r.chance(1, 2):
            body = r.choice(uses)
        return ("lets", rec, binds, body)

    def nonwhnf(self, t1, sc, d):
        """An expression of type t1 that is not a weak head normal form (so that binding it
        allocates a thunk that is updated), whose value mentions a locally bound variable."""
        r = self.r
        k, t0 = self.fresh(unique=True), self.rand_type(0)
        if r.chance(3, 4):
            # make it likely that the value mentions k: bind something of a component type
            core_t = t1[1] if isinstance(t1, tuple) and t1[0] == "ctr" else t1
            wrap = (lambda t: ("ctr", t)) if isinstance(t1, tuple) and t1[0] == "ctr" else (lambda t: t)
            if isinstance(core_t, tuple) and core_t[0] == "arr":
                t0 = wrap(core_t[1])
            elif isinstance(core_t, tuple) and core_t[0] == "rec":
                t0 = wrap(r.choice(core_t[1])[1])
            elif isinstance(core_t, tuple) and core_t[0] == "fun":
                t0 = wrap(core_t[2])
            else:
                t0 = t1
        val = self.lit(t1, sc + [(k, t0)], max(d - 1, 1))
        if isinstance(t1, tuple) and t1[0] == "ctr" and isinstance(t1[1], tuple) and t0 != t1 and r.chance(3, 4):
            # a type value with a free variable: Array k, {_ | k}, {f | k, ..}, k -> k
            ct = t1[1]
            if ct[0] == "arr":
                val = ("tyarr", ("var", k))
            elif ct[0] == "rec":
                f0 = [f for f, t in ct[1] if ("ctr", t) == t0]
                if len({t for _, t in ct[1]}) == 1 and r.chance(1, 2):
                    val = ("tydict", ("var", k))
                elif f0 and k != f0[0]:
                    val = ("tyrec", [(f0[0], ("var", k))])
            elif ct[0] == "fun" and ("ctr", ct[2]) == t0:
                val = ("tyfun", ("ty", "Dyn"), ("var", k))
        bound = self.gen(t0, sc, d - 2)
        which = r.below(5)
        if which == 0:
            return ("let", k, bound, val)
        if which == 1:
            return ("app", ("lam", k, val), bound)
        if which == 2:
            return ("if", ("bool", True), ("let", k, bound, val), self.lit(t1, sc, 1))
        if which == 3:
            return ("get", ("rec", [("q", ("let", k, bound, val))]), "q")
        return ("at", ("num", 0), ("arr", [("let", k, bound, val)]))

    def observe(self, v, t1, sc, d):
        """An expression that demands the variable v of type t1 (deeply once exported)."""
        r = self.r
        if isinstance(t1, tuple) and t1[0] == "ctr":
            return ("annx", self.gen(t1[1], sc, d - 1), ("var", v))
        if isinstance(t1, tuple) and t1[0] == "fun":
            return ("app", ("var", v), self.gen(t1[1], sc, d - 1))
        if isinstance(t1, tuple) and t1[0] == "rec" and r.chance(1, 2):
            return ("get", ("var", v), r.choice(t1[1])[0])
        return ("var", v)

    def share_probe(self, ty, sc, d):
        """A value flowing twice through one binding form (let, function argument, record field,
        imported file): the second use reads what the first use left in the thunk."""
        r = self.r
        t1 = self.rand_type(1)
        if self.ext and r.chance(1, 2):
            # contracts / types as first-class values (they carry an environment of their own)
            fs = r.shuffle(FIELDS)[: r.range(1, 2)]
            t1 = ("ctr", r.choice([("arr", self.rand_type(0)), ("arr", self.rand_type(0)),
                                   ("rec", tuple((f, self.rand_type(0)) for f in sorted(fs))),
                                   self.rand_type(1, False)]))
        if isinstance(t1, tuple) and t1[0] == "fun" and t1[2] != "num" and r.chance(1, 2):
            t1 = ("fun", t1[1], "num")
        v = self.fresh(unique=True)
        form = r.below(4)
        e = self.nonwhnf(t1, sc if form != 3 else [], d)
        sc2 = sc + [(v, t1)]
        uses = [self.observe(v, t1, sc2, d) for _ in range(r.range(2, 3))]
        rest = self.gen(ty, sc2, d - 2)
        if self.ext:
            body = rest
            for u in uses:
                body = ("std", "std.deep_seq", [u, body])
        else:
            body = rest
            for u in uses:
                body = ("seq", u, body)
        if form == 0:
            return ("let", v, e, body)
        if form == 1:
            return ("app", ("lam", v, body), e)
        if form == 2:
            # the binding is a record field, the uses are sibling fields
            f = "s" + v
            body2 = subst_vars(body, {v: ("var", f)})
            return ("get", ("rec", [(f, e), ("r", body2)]), "r")
        key = "f%d" % len(self.files)
        self.files[key] = e
        return subst_vars(body, {v: ("import", key)})

    def override_probe(self, ty, sc, d):
        """A recursive record whose field g (of the requested type) depends on a sibling f, merged
        with an override of f: laws applied inside g must keep following the override."""
        r = self.r
        f, g = r.shuffle(FIELDS)[:2]
        tf = self.rand_type(0)
        outer = [(x, t) for x, t in sc if x not in (f, g)]
        gv = self.gen(ty, outer + [(f, tf)], d - 1)
        if ("var", f) not in [s2 for _, s2, _ in positions(gv)] and tf == ty:
            gv = ("var", f)
        v1, v2 = self.gen(tf, outer, d - 2), self.gen(tf, outer, d - 2)
        if r.chance(1, 2):
            base, over = ("rec", [(f, v1), (g, gv)]), ("recmeta", [(f, "force", v2)])
        else:
            base, over = ("recmeta", [(f, "default", v1), (g, None, gv)]), ("rec", [(f, v2)])
        m_ = ("merge", base, over) if r.chance(2, 3) else ("merge", over, base)
        return ("get", m_, g)

    def scope_probe(self, ty, sc, d):
        """Closures whose body mentions a variable of the defining scope, called where that name
        is rebound or out of scope (lexical vs dynamic scoping, environment capture)."""
        r = self.r
        k, y, f = r.choice(["k", "x", "y"]), self.fresh(unique=True), self.fresh(unique=True)
        t1 = self.rand_type(0)
        body = self.gen(ty, sc + [(k, ty)], d - 2)
        if ("var", k) not in [s for _, s, _ in positions(body)]:
            body = ("var", k)
        a, b2 = self.gen(ty, sc, d - 2), self.gen(ty, sc, d - 2)
        arg = self.gen(t1, sc, d - 2)
        which = r.below(4)
        if which == 0:      # let k = A in let f = fun y => ..k.. in let k = B in f arg
            return ("let", k, a, ("let", f, ("lam", y, body), ("let", k, b2, ("app", ("var", f), arg))))
        if which == 1:      # (let k = A in fun y => ..k..) arg
            return ("app", ("let", k, a, ("lam", y, body)), arg)
        if which == 2:      # ((fun k => fun y => ..k..) A) arg, under an outer rebinding of k
            return ("let", k, b2, ("app", ("app", ("lam", k, ("lam", y, body)), a), arg))
        # a closure stored in a record field and called elsewhere
        return ("let", k, a, ("let", f, ("rec", [("h", ("lam", y, body))]),
                              ("let", k, b2, ("app", ("get", ("var", f), "h"), arg))))

    def by_type(self, ty, sc, d):
        r = self.r
        g = lambda t: self.gen(t, sc, d - 1)  # noqa: E731
        c = r.below(100)
        if ty == "num":
            if self.ext and c < 25:
                t1 = self.rand_type(0)
                which = r.below(4)
                if which == 0:
                    return ("std", "std.array.length", [g(("arr", t1))])
                if which == 1:
                    return ("std", "std.string.length", [g("str")])
                if which == 2:
                    a, x = self.fresh(unique=True), self.fresh(unique=True)
                    f = ("lam", a, ("lam", x, ("bin", "add", ("var", a), self.gen("num", sc + [(a, "num"), (x, "num")], d - 2))))
                    return ("std", "std.array.fold_left", [f, g("num"), g(("arr", "num"))])
                fs = r.shuffle(FIELDS)[: r.range(1, 3)]
                return ("std", "std.array.length", [("std", "std.record.fields", [g(("rec", tuple((f, self.rand_type(0)) for f in sorted(fs))))])])
            if self.ext and c < 32:
                return self.gen_match("num", sc, d)
            if self.ext and c < 37:
                return ("ann", g("num"), r.choice(["Number", "Number", "Dyn", "String"]))
            return ("bin", r.choice(["add", "add", "sub", "mul"]), g("num"), g("num"))
        if ty == "str":
            if self.ext and c < 40:
                parts = []
                for _ in range(r.range(1, 3)):
                    parts.append(r.choice(["p", "q ", "-"]))
                    parts.append(g(r.choice(["str", "str", "num"])))
                return ("interp", parts)
            if self.ext and c < 50:
                return ("std", "std.string.uppercase", [g("str")])
            if self.ext and c < 56:
                return ("ann", g("str"), r.choice(["String", "Dyn", "Number"]))
            return ("bin", "cat", g("str"), g("str"))
        if ty == "bool":
            if self.ext and c < 30:
                t1 = self.rand_type(1, False)
                return ("eq", g(t1), g(t1))
            if self.ext and c < 40:
                return self.gen_match("bool", sc, d)
            return ("bin", "lt", g("num"), g("num")) if c < 80 else self.lit(ty, sc, d)
        if ty == "enum":
            return self.lit(ty, sc, d)
        if ty[0] == "arr":
            if self.ext and c < 35:
                x, t1 = self.fresh(), self.rand_type(0)
                f = ("lam", x, self.gen(ty[1], sc + [(x, t1)], d - 1))
                return ("std", "std.array.map", [f, g(("arr", t1))])
            if self.ext and c < 50:
                return ("std", "std.array.concat", [g(ty), g(ty)])
            if self.ext and c < 58 and ty[1] == "num":
                return ("ann", g(ty), "Array Number")
            return self.lit(ty, sc, d)
        if ty[0] == "rec":
            if self.ext and c < 30 and len(ty[1]) >= 2:
                k = r.range(1, len(ty[1]) - 1)
                fs = r.shuffle(list(ty[1]))
                return ("merge", g(("rec", tuple(sorted(fs[:k])))), g(("rec", tuple(sorted(fs[k:])))))
            if self.ext and c < 40:
                return ("ann", g(ty), "{%s}" % ", ".join("%s | Dyn" % f for f, _ in ty[1]) if r.chance(1, 2) else "{_ | Dyn}")
            return self.lit(ty, sc, d)
        return self.lit(ty, sc, d)

    def gen_match(self, ty, sc, d):
        r = self.r
        if r.chance(1, 2):
            tags = r.shuffle(TAGS)
            k = r.range(1, 3)
            cases = [(("ptag", t), self.gen(ty, sc, d - 1)) for t in tags[:k]]
            if k < 3 and r.chance(3, 4):
                cases.append((("pany",), self.gen(ty, sc, d - 1)))
            return ("match", self.gen("enum", sc, d - 1), cases)
        fs = r.shuffle(FIELDS)[: r.range(1, 2)]
        rt = ("rec", tuple((f, self.rand_type(0)) for f in sorted(fs)))
        names = [f for f, _ in rt[1]]
        body = self.gen(ty, sc + list(rt[1]), d - 1)
        return ("match", self.gen(rt, sc, d - 1), [(("prec", tuple(names)), body)])


def gen_config(g, d):
    """A configuration-shaped program (nested record literals, possibly under lets) together with
    the list of literal paths (path, keys of the record literals the path goes through)."""
    r = g.r

    def rec(depth, sc):
        n = r.range(2, 4)
        names = r.shuffle(FIELDS)[:n]
        fields, paths = [], []
        allf = []
        for i, f in enumerate(names):
            if depth > 0 and r.chance(2, 5):
                sub, sp = rec(depth - 1, sc)
                fields.append((f, sub))
                paths.append(([f], [()]))
                for p, ks in sp:
                    paths.append(([f] + p, [()] + [(1, i, 1) + k for k in ks]))
                allf.append((f, ("rec", ())))
            else:
                ty = g.rand_type(1, False)
                visible = [(x, t) for x, t in sc if x not in names] + [a for a in allf if a[1] != ("rec", ())]
                fields.append((f, g.gen(ty, visible, d)))
                paths.append(([f], [()]))
                allf.append((f, ty))
        return ("rec", fields), paths

    body, paths = rec(2, [])
    prefix = ()
    t = body
    if r.chance(1, 3):
        x = g.fresh()
        t = ("let", x, g.gen(g.rand_type(1), [], 2), body)
        prefix = (3,)
    if g.ext and r.chance(1, 3):
        atoms = [(f, e) for f, e in body[1] if e[0] != "rec"]
        if atoms:
            f, e = r.choice(atoms)
            t = set_in(t, prefix, ("merge", body, ("recmeta", [(f, "force", g.gen(g.rand_type(0), [], 1) if (r.chance(1, 3) or fvs(e)) else e)])))
            prefix = prefix + (1,)
    paths = [(p, [prefix + k for k in ks]) for p, ks in paths]
    return t, paths


# --------------------------------------------------------------------------- rewrites

def rewrites_at(t, key, sub, chain, rng, fresh, files):
    """The rewritten programs obtained by abstracting the sub-expression at `key`.
    Returns [(kind, new program, extra files)]."""
    out = []
    fv = fvs(sub)
    v = fresh
    # ancestors A (by key) such that no binder between A and the position captures a free
    # variable of `sub`; the position itself always qualifies
    ok_anc = [key]
    captured = set()
    for akey, bs in reversed(chain):
        captured |= set(bs)
        if fv & captured:
            break
        ok_anc.append(akey)
    in_scope = {b for _, bs in chain for b in bs}
    for kind in ("let", "beta"):
        akey = rng.choice(ok_anc)
        rel = key[len(akey):]
        a = get_in(t, akey)
        holes = [(rel, {b for k2, bs in chain if len(k2) >= len(akey) for b in bs})]
        tag = "-top" if akey == () else "-inner" if akey != key else "-here"
        if sub[0] != "var" and rng.chance(1, 2):
            # abstract every occurrence of the sub-expression below the ancestor that means the
            # same thing there (none of its free variables rebound on the way): the bound value is
            # then demanded several times through one thunk
            for k2, s2, ch2 in list(positions(a)):
                bound_here = {b for _, bs in ch2 for b in bs}
                if s2 == sub and k2 != rel and not (fv & bound_here) and \
                        not any(k2[:len(h)] == h or h[:len(k2)] == k2 for h, _ in holes):
                    holes.append((k2, bound_here))
            if len(holes) > 1:
                tag += "-all"
        ph = "zzHOLE"
        a2 = a
        for h, _ in holes:
            a2 = set_in(a2, h, ("var", ph))
        # the bound name: anything that is not free in the context and not rebound between the
        # binder and a hole.  It may be free in `sub` (let is not recursive: `let x = f x in ..`),
        # and it may be the name of a field of an enclosing record literal.
        forbidden = (fvs(a2) - {ph}) | {b for _, bs in holes for b in bs}
        cands = sorted((fv | in_scope | set(FIELDS[:3])) - forbidden)
        w = v
        if cands and rng.chance(3, 5):
            pref = sorted((fv & in_scope) - forbidden)
            w = rng.choice(pref) if pref and rng.chance(2, 3) else rng.choice(cands)
            tag += "-shadow" if w in fv else "-named"
        for h, _ in holes:
            a2 = set_in(a2, h, ("var", w))
        new = ("let", w, sub, a2) if kind == "let" else ("app", ("lam", w, a2), sub)
        out.append((kind + tag, set_in(t, akey, new), {}))
    # the field of the wrapper record sees itself, so its name must not be free in `sub`
    fcands = sorted((in_scope | set(FIELDS[:3])) - fv)
    if fcands and rng.chance(1, 2):
        v = rng.choice(fcands)
    out.append(("field", set_in(t, key, ("get", ("rec", [(v, sub)]), v)), {}))
    out.append(("elem", set_in(t, key, ("at", ("num", 0), ("arr", [sub]))), {}))
    if not fv:
        out.append(("import", set_in(t, key, ("import", fresh)), {fresh: sub}))
    return out


def inline_at(t, key, sub, files):
    """The laws read from right to left: remove a binding form by substituting what it binds.
    Returns (kind, new program) or None when not applicable / not capture-free."""
    try:
        k = sub[0]
        if k == "let":
            return "inline-let", set_in(t, key, subst_vars(sub[3], {sub[1]: sub[2]}))
        if k == "app" and sub[1][0] == "lam":
            return "inline-beta", set_in(t, key, subst_vars(sub[1][2], {sub[1][1]: sub[2]}))
        if k == "lets" and not sub[1]:
            return "inline-block", set_in(t, key, subst_vars(sub[3], dict(sub[2])))
        if k == "import" and sub[1] in files and files[sub[1]] is not None:
            return "inline-import", set_in(t, key, files[sub[1]])
        if k == "get" and sub[1][0] == "rec":
            fs = dict(sub[1][1])
            if sub[2] in fs and len(fs) == len(sub[1][1]) and not (fvs(fs[sub[2]]) & set(fs)):
                return "inline-field", set_in(t, key, fs[sub[2]])
        if k == "at" and sub[1][0] == "num" and sub[2][0] == "arr" and 0 <= sub[1][1] < len(sub[2][1]):
            return "inline-elem", set_in(t, key, sub[2][1][sub[1][1]])
    except Capture:
        return None
    return None


# --------------------------------------------------------------------------- outcome handling

def canon_rust(s):
    if s.startswith("ERR "):
        c = s[4:].split(" ")[0]
        if c in ("Budget", "InfiniteRec"):
            return "ERR Diverge"
        return "ERR " + c
    return s


def canon_model(s, strict=False):
    if s.startswith("ERR "):
        c = s[4:]
        if c == "Budget" or (c == "InfiniteRec" and not strict):
            return "ERR Diverge"
        return "ERR " + c
    return s


def rust_for_model(s, strict=False):
    """Rust outcome in the model's vocabulary (blame polarity dropped, unbound identifiers are
    reported by the typechecker walk).  strict: a detected black hole (InfiniteRec) is kept apart
    from an exhausted budget -- used for the call-by-need model, which has the same black-holing."""
    raw = s[4:].split(" ")[0] if s.startswith("ERR ") else ""
    if strict and raw == "InfiniteRec":
        return "ERR InfiniteRec"
    s = canon_rust(s)
    if s in ("ERR Blame+", "ERR Blame-"):
        return "ERR Blame"
    if s == "ERR Typecheck":
        return "ERR UnboundId"
    return s


def parse_tree(s):
    """Parser for nkeval's `OK <tree>` payload -> python value (numbers stay strings `#..`)."""
    pos = [0]

    def item():
        c = s[pos[0]]
        if c == "{":
            pos[0] += 1
            d = {}
            while s[pos[0]] != "}":
                k = json_str()
                assert s[pos[0]] == ":"
                pos[0] += 1
                d[k] = item()
                if s[pos[0]] == ",":
                    pos[0] += 1
            pos[0] += 1
            return d
        if c == "[":
            pos[0] += 1
            a = []
            while s[pos[0]] != "]":
                a.append(item())
                if s[pos[0]] == ",":
                    pos[0] += 1
            pos[0] += 1
            return a
        if c == '"':
            return "s:" + json_str()
        st = pos[0]
        while pos[0] < len(s) and s[pos[0]] not in ",]}":
            pos[0] += 1
        return s[st:pos[0]]

    def json_str():
        st = pos[0]
        pos[0] += 1
        while s[pos[0]] != '"':
            pos[0] += 2 if s[pos[0]] == "\\" else 1
        pos[0] += 1
        return json.loads(s[st:pos[0]])

    return item()


def show_tree(v):
    if isinstance(v, dict):
        return "{%s}" % ",".join("%s:%s" % (json.dumps(k), show_tree(v[k])) for k in sorted(v))
    if isinstance(v, list):
        return "[%s]" % ",".join(show_tree(x) for x in v)
    if v.startswith("s:"):
        return json.dumps(v[2:])
    return v


def lookup_tree(s, path):
    """`OK <tree>` + path -> `OK <subtree>` or None"""
    if not s.startswith("OK "):
        return None
    v = parse_tree(s[3:])
    for f in path:
        if not isinstance(v, dict) or f not in v:
            return None
        v = v[f]
    return "OK " + show_tree(v)


# --------------------------------------------------------------------------- the run

class Batch:
    """Collects evaluation requests for the Rust side and for the models; results by handle."""

    def __init__(self, scratch):
        self.scratch = scratch
        self.rust, self.model = [], []
        self.nfiles = 0

    def materialise(self, files):
        imp = {}
        for k, e in files.items():
            self.nfiles += 1
            p = os.path.join(self.scratch, "i%d_%s.ncl" % (self.nfiles, k))
            imp[k] = p
        # files may import each other (keys are allocated before their content is generated)
        for k, e in files.items():
            with open(imp[k], "w") as f:
                f.write(nickel(e, imp) + "\n")
        return imp

    def add_rust(self, t, files, field=None):
        imp = self.materialise(files) if files else {}
        src = nickel(t, imp)
        self.rust.append(("field=%s" % field if field else "") + "\t" + src)
        return len(self.rust) - 1

    def add_model(self, what, t, files, field=None):
        fl = "(files%s)" % "".join(" (%s %s)" % (k, sexp(e)) for k, e in files.items())
        self.model.append("%s\t%s\t%s\t%s" % (what, field or "", fl, sexp(t)))
        return len(self.model) - 1


def corpus_cases():
    p = os.path.join(core.ROOT, "corpus", "C09")
    res = []
    if os.path.isdir(p):
        for f in sorted(os.listdir(p)):
            if f.endswith(".case"):
                for l in open(os.path.join(p, f)):
                    l = l.strip()
                    if l and not l.startswith("#"):
                        res.append(json.loads(l))
    return res


def to_tuple(x):
    """json -> tree (lists that are nodes become tuples; child lists stay lists)"""
    if isinstance(x, list) and x and isinstance(x[0], str) and x[0] in BASE | {"interp", "enum", "match", "ann", "merge", "eq", "std", "ptag", "pany", "prec", "lets",
                                                                              "ty", "tyarr", "tydict", "tyfun", "tyrec", "annx", "recann", "recmeta"}:
        k = x[0]
        if k == "arr":
            return ("arr", [to_tuple(e) for e in x[1]])
        if k == "rec":
            return ("rec", [(f, to_tuple(e)) for f, e in x[1]])
        if k == "interp":
            return ("interp", [p if isinstance(p, str) else to_tuple(p) for p in x[1]])
        if k == "std":
            return ("std", x[1], [to_tuple(a) for a in x[2]])
        if k == "match":
            return ("match", to_tuple(x[1]), [(to_tuple(p), to_tuple(b)) for p, b in x[2]])
        if k == "prec":
            return ("prec", tuple(x[1]))
        if k == "lets":
            return ("lets", bool(x[1]), [(y, to_tuple(e)) for y, e in x[2]], to_tuple(x[3]))
        if k == "tyrec":
            return ("tyrec", [(f, to_tuple(c)) for f, c in x[1]])
        if k == "recann":
            return ("recann", [(f, None if c is None else to_tuple(c), to_tuple(e)) for f, c, e in x[1]])
        if k == "recmeta":
            return ("recmeta", [(f, m_, to_tuple(e)) for f, m_, e in x[1]])
        return tuple([k] + [to_tuple(a) if isinstance(a, list) else a for a in x[1:]])
    return x


def run_programs(ck, progs, scratch, label):
    """progs: list of dicts {t, files, paths (optional), seed-info}.  Builds every request, runs
    them, compares."""
    b = Batch(scratch)
    plan = []
    for idx, p in enumerate(progs):
        t, files = p["t"], p["files"]
        rng = p["rng"]
        e = {"idx": idx, "t": t, "files": files, "rw": [], "paths": [], "model": None}
        e["orig"] = b.add_rust(t, files)
        allfiles_base = is_base(t) and all(is_base(x) for x in files.values())
        if allfiles_base:
            e["model"] = (b.add_model("name", t, files), b.add_model("need", t, files))
        # rewrites at sampled positions
        pos = list(positions(t))
        npos = min(len(pos), p.get("npos", 3))
        chosen = rng.shuffle(pos)[:npos]
        for (key, sub, chain) in chosen:
            if sub[0] == "var" and rng.chance(2, 3):
                continue
            for kind, new, extra in rewrites_at(t, key, sub, chain, rng, "zz%d" % rng.below(1000), files):
                fl = dict(files)
                fl.update(extra)
                h = b.add_rust(new, fl)
                mh = None
                if allfiles_base and is_base(sub) and rng.chance(1, 3):
                    mh = b.add_model("name", new, fl)
                e["rw"].append((kind, h, new, fl, mh))
        # the same laws from right to left, at sampled binding positions
        binders = [(k2, s2) for k2, s2, _ in pos
                   if s2[0] in ("let", "lets", "import") or (s2[0] == "app" and s2[1][0] == "lam")
                   or (s2[0] == "get" and s2[1][0] == "rec") or (s2[0] == "at" and s2[2][0] == "arr")]
        for key, sub in rng.shuffle(binders)[: p.get("ninline", 4)]:
            r_in = inline_at(t, key, sub, files)
            if r_in is None:
                continue
            kind, new = r_in
            h = b.add_rust(new, files)
            mh = None
            if allfiles_base and is_base(new) and rng.chance(1, 3):
                mh = b.add_model("name", new, files)
            e["rw"].append((kind, h, new, dict(files), mh))
        # seq: the program after a value v
        vg = Gen(rng.fork(), ext=not allfiles_base)
        v = vg.gen(vg.rand_type(1), [], 2)
        vfiles = dict(files)
        for k2, e2 in vg.files.items():
            vfiles["s" + k2] = rename_imports(e2, "s")
        v = rename_imports(v, "s")
        e["seq"] = (b.add_rust(("seq", v, ("num", 0)), vfiles), b.add_rust(("seq", v, t), vfiles), v, vfiles)
        # field paths
        for path, rec_keys in p.get("paths", [])[:4]:
            ps = ".".join(path)
            h1 = b.add_rust(t, files, field=ps)
            # failing sibling inserted in one of the record literals on the way
            rk = rng.choice(rec_keys)
            lit = get_in(t, rk)
            bad = rng.choice([("fail",), ("bin", "add", ("num", 1), ("str", "a")), ("lam", "q", ("var", "q")),
                              ("get", ("rec", [("a", ("num", 1))]), "zz")])
            extra = [("zzbad", None, bad)] if lit[0] == "recann" else [("zzbad", bad)]
            t2 = set_in(t, rk, (lit[0], lit[1] + extra)) if rng.chance(1, 2) else \
                set_in(t, rk, (lit[0], extra + lit[1]))
            h2 = b.add_rust(t2, files, field=ps)
            h3 = b.add_rust(t2, files)
            mh = None
            if allfiles_base:
                mh = (b.add_model("name", t, files, field=ps), b.add_model("need", t, files, field=ps),
                      b.add_model("name", t2, files, field=ps), b.add_model("need", t2, files, field=ps))
            e["paths"].append((path, h1, h2, h3, t2, mh))
        plan.append(e)

    nkeval = os.environ.get("VERIF_C09_NKEVAL") or core.harness_bin("nkeval")   # override: experiments only
    rc1, rout, e1 = core.run_sharded(nkeval, [], b.rust, timeout=6000)
    rc2, mout, e2 = core.run_sharded(ck.model_exe, [], b.model, timeout=3000) if b.model else (0, [], "")
    if rc1 or rc2:
        ck.obligation("correspondence-run:" + label, "internal", False, "rc=%s/%s %s %s" % (rc1, rc2, e1[-800:], e2[-800:]))
    ck.count("rust_evaluations", len(b.rust))
    ck.count("model_evaluations", len(b.model))

    for e in plan:
        t, files = e["t"], e["files"]
        o = canon_rust(rout[e["orig"]])
        src = b.rust[e["orig"]].split("\t", 1)[1]
        nontriv = size(t) >= 6
        ck.case(key=src, nontrivial=nontriv)
        ck.hist("outcome", o.split(" ")[0] + (" " + o.split(" ")[1] if o.startswith("ERR") else ""))
        ck.hist("size", min(size(t) // 10 * 10, 100))
        for _, s, _ in positions(t):
            ck.hist("constructors", s[0])
        rep = {"program": src, "tree": t, "files_tree": files}
        # -- model vs implementation
        model_disagrees = False
        if e["model"]:
            for what, h in zip(("name", "need"), e["model"]):
                want = rust_for_model(rout[e["orig"]], strict=(what == "need"))
                got = canon_model(mout[h], strict=(what == "need"))
                ck.count("model_cases")
                if got == "UNSUPPORTED" or got.startswith("BADCASE"):
                    ck.obligation("correspondence:model-input", "internal", False, "%s on %s" % (got, b.model[h]))
                elif got != want:
                    if got == "ERR Diverge" and want != "ERR Diverge":
                        ck.count("model_out_of_fuel")
                        continue
                    model_disagrees = True
                    e.setdefault("model_diff", []).append((what, got, want, b.model[h]))
        # -- direct oracle: rewrites
        viol = False
        for kind, h, new, fl, mh in e["rw"]:
            r = canon_rust(rout[h])
            ck.count("rewrites")
            ck.hist("rewrite_kind", kind)
            if o == "ERR Diverge":
                ck.count("skipped_divergent")
                continue
            if r != o:
                viol = True
                ck.violation("rewrite:%s" % ("-".join(kind.split("-")[:2]) if kind.startswith("inline") else kind.split("-")[0]),
                             "nkeval(p) = %s but nkeval(%s-rewrite p) = %s" % (o[:80], kind, r[:80]),
                             dict(rep, rewrite=kind, rewritten=b.rust[h].split("\t", 1)[1], before=o, after=r,
                                  how_to_replay="./verif check C09 --replay <this file>", rewritten_tree=new, rewritten_files_tree=fl))
            if mh is not None:
                got, want = canon_model(mout[mh]), rust_for_model(rout[h])
                if got != want and not (got == "ERR Diverge"):
                    model_disagrees = True
                    e.setdefault("model_diff", []).append(("name/rewrite", got, want, b.model[mh]))
        # -- seq
        hs0, hs1, v, vfiles = e["seq"]
        s0, s1 = canon_rust(rout[hs0]), canon_rust(rout[hs1])
        ck.count("rewrites")
        ck.hist("rewrite_kind", "seq:" + ("ok" if s0 == "OK #0" else "err"))
        if o != "ERR Diverge" and s0 != "ERR Diverge":
            expect = o if s0 == "OK #0" else s0
            if s1 != expect:
                viol = True
                ck.violation("rewrite:seq", "std.seq v p: v gives %s, p gives %s, std.seq v p gives %s" % (s0[:60], o[:60], s1[:60]),
                             dict(rep, rewrite="seq", rewritten=b.rust[hs1].split("\t", 1)[1], before=o, after=s1,
                                  rewritten_tree=("seq", v, t), rewritten_files_tree=vfiles))
        # -- field extraction
        for path, h1, h2, h3, t2, mh in e["paths"]:
            ck.count("field_paths")
            want = lookup_tree(rout[e["orig"]], path)
            f1, f2, full2 = canon_rust(rout[h1]), canon_rust(rout[h2]), canon_rust(rout[h3])
            if want is not None:
                if f1 != want:
                    viol = True
                    ck.violation("field:extract", "field=%s gives %s, the full export has %s there" % (".".join(path), f1[:80], want[:80]),
                                 dict(rep, field=".".join(path), got=f1, want=want))
            if f1.startswith("OK") or want is None:
                # laziness: a failing sibling must not be demanded
                ck.count("field_paths_with_failing_sibling")
                ck.hist("sibling_full_export", full2.split(" ")[0])
                if f1 != "ERR Diverge" and f2 != f1:
                    viol = True
                    ck.violation("field:lazy", "field=%s gives %s, but %s once an unrelated failing sibling is added" % (".".join(path), f1[:80], f2[:80]),
                                 dict(rep, field=".".join(path), got=f2, want=f1, with_sibling=b.rust[h2].split("\t", 1)[1],
                                      rewritten_tree=t2, rewritten_files_tree=files, both_with_field=True))
            if mh:
                for what, hm, hr in (("name", mh[0], h1), ("need", mh[1], h1), ("name", mh[2], h2), ("need", mh[3], h2)):
                    got = canon_model(mout[hm], strict=(what == "need"))
                    wantm = rust_for_model(rout[hr], strict=(what == "need"))
                    ck.count("model_cases")
                    if got != wantm and got != "ERR Diverge":
                        model_disagrees = True
                        e.setdefault("model_diff", []).append((what + "/field", got, wantm, b.model[hm]))
        if model_disagrees and not viol:
            d = e["model_diff"][0]
            ck.obligation("correspondence:model-vs-rust", "correspondence", False,
                          "%s model gives %s, implementation gives %s\nmodel case: %s\nprogram: %s" % (d[0], d[1], d[2], d[3], src))
        if e["idx"] < 4:
            ck.sample({"program": src[:400], "impl": o[:200], "rewrites": [k for k, *_ in e["rw"]][:8]})
    return plan, rout, mout


def rename_imports(t, pre):
    if t[0] == "import":
        return ("import", pre + t[1])
    for k, c, _ in children(t):
        t = set_in(t, k, rename_imports(c, pre))
    return t


def make_programs(ck, n, seed_tag):
    rng = core.SplitMix64(ck.seed * 1000003 + seed_tag)
    progs = []
    for i in range(n):
        r = rng.fork()
        mode = i % 4       # 0,1: Coq fragment; 2: extended fragment; 3: configuration + field paths
        ext = mode == 2 or (mode == 3 and r.chance(1, 2))
        g = Gen(r, ext=ext)
        if mode == 3:
            t, paths = gen_config(g, 2)
            progs.append({"t": t, "files": dict(g.files), "paths": r.shuffle(paths), "rng": r.fork(), "npos": 2})
        else:
            ty = g.rand_type(2, allow_fun=r.chance(1, 6))
            t = g.gen(ty, [], r.range(2, 4))
            progs.append({"t": t, "files": dict(g.files), "rng": r.fork(), "npos": 3})
    return progs


def run(ck):
    if ck.tier == "thorough":
        # rebuild this property's part of the development from scratch (only our own objects:
        # other checks may be building in the same tree)
        import glob
        with core.Lock("coq"):
            for pat in ("Lazy/*.vo", "Lazy/*.glob", "Lazy/*.vos", "Lazy/*.vok", "Lazy/.*.aux",
                        "Props/C09*.vo", "Props/C09*.glob", "Props/C09*.vos", "Props/C09*.vok", "Props/.C09*.aux"):
                for f in glob.glob(os.path.join(core.COQ, pat)):
                    os.unlink(f)
    built = ck.coq("Props.C09")
    if built and ck.tier == "thorough":
        rc, out = core.sh(["timeout", "1500", "coqchk", "-silent", "-o", "-Q", core.COQ, "NV", "NV.Props.C09"],
                          cwd=core.COQ, timeout=1600)
        ck.obligation("coqchk NV.Props.C09", "coqchk", rc == 0, out[-1500:])
    ok = ck.harness(["nkeval"])
    ck.model_exe = ck.model("C09.v")
    if not ok or not ck.model_exe:
        return
    scratch = "/tmp/verif-c09-%d" % os.getpid()
    os.makedirs(scratch, exist_ok=True)
    try:
        progs = []
        for c in corpus_cases():
            progs.append({"t": to_tuple(c["t"]), "files": {k: to_tuple(v) for k, v in c.get("files", {}).items()},
                          "paths": [(p, [tuple(k) for k in ks]) for p, ks in c.get("paths", [])],
                          "rng": core.SplitMix64(7), "npos": 50})
        ck.coverage["corpus_cases"] = len(progs)
        n = 600 if ck.tier == "quick" else 20000
        if os.environ.get("VERIF_C09_N"):
            n = int(os.environ["VERIF_C09_N"])       # for experiments only; the tiers use the fixed counts
        progs += make_programs(ck, n, 9)
        chunk = 1500
        for i in range(0, len(progs), chunk):
            run_programs(ck, progs[i:i + chunk], scratch, "chunk%d" % (i // chunk))
            for f in os.listdir(scratch):
                os.unlink(os.path.join(scratch, f))
    finally:
        shutil.rmtree(scratch, ignore_errors=True)
    ck.coverage["traces_validated_against_impl"] = ck.stats.get("model_cases", 0)
    ck.coverage["rule"] = ("program = seeded type-directed random term (lambda, application, let, let rec with structural recursion, "
                           "numbers/strings/bools, + - * < ++, if, arrays + std.array.at, (recursive) record literals + field access, std.seq, "
                           "std.fail_with, import of scratch files; extended stream adds match on enum tags and record patterns, string "
                           "interpolation, contract annotations, merges, ==, std.array.{map,fold_left,length,concat}, std.record.fields, "
                           "std.string.{length,uppercase}) with injected failing / ill-typed / diverging sub-expressions; every sampled "
                           "position is abstracted by let, beta (binder at a random capture-free ancestor), {f = e}.f, std.array.at 0 [e], "
                           "import (closed sub-expressions) -- for let/beta also at ALL equal occurrences below the ancestor --, and the same laws "
                           "from right to left at sampled binding positions (inline a let, a beta-redex, a parallel let block, an import, "
                           "{..}.f and std.array.at k [..] on literals; capture-checked), plus std.seq v p, plus field=<path> vs full export "
                           "with and without an added failing sibling. Sharing probes: a non-WHNF expression whose value mentions a local "
                           "variable (closures, containers, and in the extended stream first-class contracts/types Array k, {_ | k}, {f | k, ..}, "
                           "k -> k, custom contracts) bound by let / function argument / record field / imported file and demanded two or "
                           "three times; multi-binding let and let rec blocks with bare aliases and names shadowing outer variables (in the "
                           "model fragment through desugaring: parallel block = nested beta, recursive block = recursive record); "
                           "non-trivial = program size >= 6; distinct by source text")
    ck.coverage["partial"] = ("let/beta laws with the binder outermost (the other rewrites under arbitrary contexts); "
                              "contracts, merges, match, interpolation and std calls are outside the Coq fragment (direct oracle only)")
    ck.trusted += ["extraction: ExtrOcamlBasic + ExtrOcamlNativeString", "harness bin nkeval (harness/src/eval.rs)",
                   "generator and printers in checks/c09.py (SplitMix64, VERIF_SEED)"]
    ck.assumptions += ["Rc<RefCell<ThunkData>> thunks behave as cells of a list heap", "error classes compared, not messages; blame polarity ignored in model-vs-Rust"]


def replay(ck, path):
    obj = json.load(open(path))
    ok = ck.harness(["nkeval"])
    if not ok or "tree" not in obj:
        return
    scratch = "/tmp/verif-c09-%d" % os.getpid()
    os.makedirs(scratch, exist_ok=True)
    try:
        b = Batch(scratch)
        files = {k: to_tuple(v) for k, v in obj.get("files_tree", {}).items()}
        t = to_tuple(obj["tree"])
        field = obj.get("field")
        if "rewritten_tree" in obj:
            f2 = {k: to_tuple(v) for k, v in obj.get("rewritten_files_tree", {}).items()}
            b.add_rust(t, files, field=field if obj.get("both_with_field") else None)
            b.add_rust(to_tuple(obj["rewritten_tree"]), f2, field=field)
        else:
            b.add_rust(t, files)
            b.add_rust(t, files, field=field)
        rc, out, err = core.run_sharded(core.harness_bin("nkeval"), [], b.rust)
        ck.log("replay requests:", b.rust)
        ck.log("replay outcomes:", out)
        a, c = canon_rust(out[0]), canon_rust(out[1])
        if "rewritten_tree" not in obj:
            a = lookup_tree(out[0], field.split(".")) or a
        ck.case(key=path)
        if a != c:
            ck.violation(obj.get("key", "replay"), "replayed: %s vs %s" % (a[:80], c[:80]), obj)
    finally:
        shutil.rmtree(scratch, ignore_errors=True)
