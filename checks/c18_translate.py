"""C18 translators (syntactic, from the sources of /repo; fail closed).

  stack tables   core/src/eval/stack.rs -> coq/Gen/StackTables.v
                 the Marker enum, the `impl StackItem for T { marker() }` pairing, the tables of
                 `item_size` and `drop_top`, and for every other `pop_unchecked` / `read_unchecked`
                 call the marker test that guards it and the type it reads at
  unsafe sites   stack.rs, cache/lazy.rs, value/mod.rs, value/lens.rs -> coq/Gen/UnsafeSites.v
                 every `unsafe` block / fn / impl and every pop_unchecked / read_unchecked call,
                 keyed by file, impl context, function and ordinal (line numbers are informative only)

Nothing here decides anything: the theorems of coq/Mem/StackProofs.v and coq/Mem/Ledger.v are
re-checked against the generated files.  What cannot be parsed is emitted as an unknown entry, which
makes those theorems fail."""
import hashlib
import os
import re

from vlib import core

FILES = ["core/src/eval/stack.rs", "core/src/eval/cache/lazy.rs",
         "core/src/eval/value/mod.rs", "core/src/eval/value/lens.rs"]

MARKERS = ["Eq", "Arg", "TrackedArg", "UpdateIndex", "Op1Cont", "Op2FirstCont", "Op2SecondCont",
           "OpNCont", "StrChunk", "StrAcc"]


def strip_comments(src):
    """Blank out comments and the contents of string / char literals, keeping line structure."""
    out = []
    i, n = 0, len(src)
    while i < n:
        c = src[i]
        if src.startswith("//", i):
            j = src.find("\n", i)
            j = n if j < 0 else j
            out.append(" " * (j - i))
            i = j
        elif src.startswith("/*", i):
            j = src.find("*/", i + 2)
            j = n if j < 0 else j + 2
            out.append("".join(ch if ch == "\n" else " " for ch in src[i:j]))
            i = j
        elif c == '"':
            j = i + 1
            while j < n and src[j] != '"':
                j += 2 if src[j] == "\\" else 1
            out.append('"' + "".join(ch if ch == "\n" else " " for ch in src[i + 1:j]) + '"')
            i = j + 1
        elif c == "'" and i + 2 < n and (src[i + 2] == "'" or (src[i + 1] == "\\" and src.find("'", i + 2) - i <= 4)):
            j = src.find("'", i + 2 if src[i + 1] == "\\" else i + 1)
            out.append("'" + " " * (j - i - 1) + "'")
            i = j + 1
        else:
            out.append(c)
            i += 1
    return "".join(out)


def scopes(code):
    """List of (kind, name, start_offset, end_offset) for every `impl ... {}` and `fn name ... {}`
    (and `mod tests`), by brace matching on comment-free code."""
    res = []
    for m in re.finditer(r"\b(impl\b[^{;]*|(?:unsafe\s+)?(?:const\s+)?(?:unsafe\s+)?fn\s+(\w+)[^{;]*|mod\s+(\w+)\s*)\{", code):
        start = m.end() - 1
        depth, j = 0, start
        while j < len(code):
            if code[j] == "{":
                depth += 1
            elif code[j] == "}":
                depth -= 1
                if depth == 0:
                    break
            j += 1
        head = m.group(1)
        if head.startswith("impl"):
            name = re.sub(r"\s+", " ", head).strip()
            name = re.sub(r"^impl(<[^>]*>)?\s*", "", name)
            name = re.sub(r"\s*where.*$", "", name)
            res.append(("impl", name.strip(), m.start(), j))
        elif m.group(2):
            res.append(("fn", m.group(2), m.start(), j))
        else:
            res.append(("mod", m.group(3), m.start(), j))
    return res


def context(sc, off):
    """(impl name, function path) enclosing an offset; None for test modules."""
    inside = [s for s in sc if s[2] <= off <= s[3]]
    if any(s[0] == "mod" and s[1] == "tests" for s in inside):
        return None
    impl = [s for s in inside if s[0] == "impl"]
    fns = sorted([s for s in inside if s[0] == "fn"], key=lambda s: s[2])
    return (impl[-1][1] if impl else "", "/".join(f[1] for f in fns) or "<item>")


def unsafe_sites(repo):
    sites = []
    shas = {}
    for f in FILES:
        src = open(os.path.join(repo, f)).read()
        shas[f] = hashlib.sha1(src.encode()).hexdigest()[:12]
        code = strip_comments(src)
        sc = scopes(code)
        counters = {}
        for m in re.finditer(r"\bunsafe\b|\b(?:self\.)?(pop_unchecked|read_unchecked)\s*(?:::<[^>]*(?:<[^>]*>)?[^>]*>)?\s*\(", code):
            off = m.start()
            ctx = context(sc, off)
            if ctx is None:
                continue
            if m.group(1):
                # a call (not the definition `fn pop_unchecked`)
                before = code[max(0, off - 12):off]
                if re.search(r"fn\s+$", before):
                    continue
                kind = "call:" + m.group(1)
            else:
                after = code[m.end():m.end() + 40]
                if re.match(r"\s*(const\s+)?fn\b", after):
                    kind = "unsafe-fn"
                elif re.match(r"\s*impl\b", after):
                    kind = "unsafe-impl"
                elif re.match(r"\s*extern\b", after):
                    kind = "unsafe-extern"
                elif re.match(r"\s*\{", after):
                    kind = "unsafe-block"
                else:
                    kind = "unsafe-other"
            base = "%s::%s::%s:%s" % (os.path.basename(os.path.dirname(f)) + "/" + os.path.basename(f), ctx[0], ctx[1], kind)
            counters[base] = counters.get(base, 0) + 1
            line = code.count("\n", 0, off) + 1
            sites.append({"key": "%s#%d" % (base, counters[base]), "file": f, "line": line, "kind": kind})
    return sites, shas


# --------------------------------------------------------------------------- stack tables

def fn_body(code, name):
    m = re.search(r"\bfn\s+%s\b[^{;]*\{" % re.escape(name), code)
    if not m:
        return None
    start = m.end() - 1
    depth, j = 0, start
    while j < len(code):
        if code[j] == "{":
            depth += 1
        elif code[j] == "}":
            depth -= 1
            if depth == 0:
                break
        j += 1
    return code[start:j + 1]


def item_name(t):
    """Rust item type -> Coq constructor of ikind, None when unknown."""
    t = re.sub(r"(::)?<[^>]*>", "", t).strip()
    if t.endswith("Item") and t[:-4] in MARKERS:
        return "I" + t[:-4]
    return None


def marker_name(m):
    return "M" + m if m in MARKERS else None


def stack_tables(repo):
    """Returns (coq source, problems)."""
    path = os.path.join(repo, "core/src/eval/stack.rs")
    src = open(path).read()
    code = strip_comments(src)
    # cut the test module
    tm = re.search(r"#\[cfg\(test\)\]\s*mod tests", code)
    if tm:
        code = code[:tm.start()]
    problems = []

    em = re.search(r"enum\s+Marker\s*\{([^}]*)\}", code)
    order = re.findall(r"^\s*(\w+)\s*,", em.group(1), flags=re.M) if em else []
    if order != MARKERS:
        problems.append("enum Marker is %s, the model knows %s" % (order, MARKERS))

    def table(pairs, what, dom, key_fn, val_fn):
        """match arms of a Coq function over `dom`; unknown / missing / duplicate entries are problems"""
        d = {}
        for k, v in pairs:
            kk, vv = key_fn(k), val_fn(v)
            if kk is None or vv is None:
                problems.append("%s: cannot translate %s => %s" % (what, k, v))
                continue
            if kk in d and d[kk] != vv:
                problems.append("%s: two entries for %s" % (what, k))
            d[kk] = vv
        arms = []
        for x in dom:
            if x in d:
                arms.append("  | %s => Some %s" % (x, d[x]))
            else:
                problems.append("%s: no entry for %s" % (what, x))
                arms.append("  | %s => None" % x)
        return "\n".join(arms)

    ikinds = ["I" + m for m in MARKERS]
    mnames = ["M" + m for m in MARKERS]

    impls = re.findall(r"impl(?:<[^>]*>)?\s+StackItem\s+for\s+(\w+(?:<[^>]*>)?)\s*\{\s*fn\s+marker\(\)\s*->\s*Marker\s*\{\s*Marker::(\w+)\s*\}\s*\}", code)
    t_marker_of = table(impls, "impl StackItem", ikinds, item_name, marker_name)

    body = fn_body(code, "item_size") or ""
    sizes = re.findall(r"Marker::(\w+)\s*=>\s*mem::size_of::<\s*(\w+(?:<[^>]*>)?)\s*>\(\)", body)
    t_size = table(sizes, "item_size", mnames, marker_name, item_name)

    body = fn_body(code, "drop_top") or ""
    drops = re.findall(r"Marker::(\w+)\s*=>\s*\{\s*self\.pop_unchecked::<\s*(\w+(?:<[^>]*>)?)\s*>\(\)\s*;\s*\}", body)
    t_drop = table(drops, "drop_top", mnames, marker_name, item_name)

    # the generic checked pop
    body = fn_body(code, "pop") or ""
    pop_ok = bool(re.search(r"let\s+marker\s*=\s*self\.top_marker\(\)\?\s*;\s*if\s+marker\s*!=\s*T::marker\(\)\s*\{\s*return\s+None\s*;\s*\}\s*unsafe\s*\{\s*Some\(self\.pop_unchecked\(\)\)\s*\}", body))
    if not pop_ok:
        problems.append("fn pop<T>: the guard `marker != T::marker() => return None` before pop_unchecked was not recognised")
    body = fn_body(code, "pop_unchecked") or ""
    pu_ok = bool(re.search(r"let\s+item\s*:\s*T\s*=\s*unsafe\s*\{\s*mem::ManuallyDrop::into_inner\(self\.read_unchecked\(\)\)\s*\}", body))
    if not pu_ok:
        problems.append("fn pop_unchecked<T>: `let item: T = ... self.read_unchecked()` (read at the same T) was not recognised")

    # the other call sites: function, guarding marker, type read
    sites = []
    for fn in ["unwind", "pop_arg", "pop_arg_as_idx", "peek_sealed_cont"]:
        body = fn_body(code, fn)
        if body is None:
            problems.append("fn %s not found" % fn)
            continue
        for m in re.finditer(r"\b(pop_unchecked|read_unchecked)\s*(?:::<[^>]*>)?\s*\(", body):
            stmt_start = body.rfind("let ", 0, m.start())
            semi = body.rfind(";", 0, m.start())
            stmt = body[stmt_start:m.end()] if stmt_start > semi else ""
            ty = None
            tm_ = (re.search(r"let\s+(\w+)\s*(?:::<[^>]*>)?\s*[\{\(]", stmt) or
                   re.search(r":\s*mem::ManuallyDrop<\s*(\w+(?:<[^>]*>)?)\s*>\s*=", stmt))
            if tm_:
                ty = tm_.group(1)
            guards = list(re.finditer(r"Marker::(\w+)", body[:m.start()]))
            mk = guards[-1].group(1) if guards else None
            # the guard must be a pattern (`Marker::X =>` or `Some(Marker::X) =>` / `= self.top_marker()`)
            if guards:
                tail = body[guards[-1].end():m.start()]
                if not re.match(r"\s*\)?\s*(=>|=\s*self\.top_marker\(\))", tail):
                    mk = None
            sites.append((fn, mk, ty, m.group(1)))
    site_rows = []
    for fn, mk, ty, what in sites:
        mm = marker_name(mk) if mk else None
        tt = item_name(ty) if ty else None
        if mm is None or tt is None:
            problems.append("%s: cannot determine the guard / type of a %s call (marker %s, type %s)" % (fn, what, mk, ty))
            site_rows.append('  ("%s", None, %s)' % (fn, "true" if what == "read_unchecked" else "false"))
        else:
            site_rows.append('  ("%s", Some (%s, %s), %s)' % (fn, mm, tt, "true" if what == "read_unchecked" else "false"))
    n_calls = len([m for m in re.finditer(r"\b(?:pop_unchecked|read_unchecked)\s*(?:::<[^>]*(?:<[^>]*>)?[^>]*>)?\s*\(", code)
                   if not re.search(r"fn\s+$", code[max(0, m.start() - 12):m.start()])])
    covered = len(drops) + len(sites) + 2   # drop_top arms + guarded sites + pop<T> + pop_unchecked->read_unchecked
    if n_calls != covered:
        problems.append("stack.rs has %d pop_unchecked/read_unchecked calls, the translator accounts for %d" % (n_calls, covered))

    sha = hashlib.sha1(src.encode()).hexdigest()[:12]
    coq = """(* GENERATED by checks/c18_translate.py from core/src/eval/stack.rs (sha1 %s). Do not edit. *)
From Coq Require Import List String.
Import ListNotations.
From NV Require Import Mem.StackBase.
Open Scope string_scope.

(* impl StackItem for T { fn marker() } *)
Definition marker_of_opt (k : ikind) : option marker :=
  match k with
%s
  end.

(* Marker::item_size *)
Definition item_size_kind_opt (m : marker) : option ikind :=
  match m with
%s
  end.

(* Stack::drop_top *)
Definition drop_top_kind_opt (m : marker) : option ikind :=
  match m with
%s
  end.

(* the other unchecked pops / reads: function, (guarding marker, type read), is it a read *)
Definition guarded_sites : list (string * option (marker * ikind) * bool) := [
%s
].

Definition pop_generic_guarded : bool := %s.
Definition pop_unchecked_reads_same_type : bool := %s.
Definition marker_enum_as_modelled : bool := %s.
Definition unchecked_calls_accounted : bool := %s.
""" % (sha, t_marker_of, t_size, t_drop, ";\n".join(site_rows),
       "true" if pop_ok else "false", "true" if pu_ok else "false",
       "true" if order == MARKERS else "false", "true" if n_calls == covered else "false")
    return coq, problems, sha


def coq_string(s):
    return '"' + s.replace('"', '""') + '"'


def sites_file(sites, shas):
    rows = ";\n".join("  (%s, %d)" % (coq_string(s["key"]), s["line"]) for s in sites)
    return """(* GENERATED by checks/c18_translate.py (sources: %s). Do not edit. *)
From Coq Require Import List String.
Import ListNotations.
Open Scope string_scope.

(* every `unsafe` block / fn / impl and every pop_unchecked / read_unchecked call of the files of the
   memory representation: (key, line) *)
Definition sites : list (string * nat) := [
%s
].
""" % (", ".join("%s@%s" % (os.path.basename(f), h) for f, h in sorted(shas.items())), rows)


def write_if_changed(path, content):
    old = open(path).read() if os.path.exists(path) else None
    if old != content:
        os.makedirs(os.path.dirname(path), exist_ok=True)
        with open(path, "w") as f:
            f.write(content)
        return True
    return False


def generate(repo=None):
    """Writes coq/Gen/StackTables.v and coq/Gen/UnsafeSites.v.  Returns dict with problems, sites."""
    repo = repo or core.REPO
    gen = os.path.join(core.COQ, "Gen")
    coq, problems, sha = stack_tables(repo)
    sites, shas = unsafe_sites(repo)
    c1 = write_if_changed(os.path.join(gen, "StackTables.v"), coq)
    c2 = write_if_changed(os.path.join(gen, "UnsafeSites.v"), sites_file(sites, shas))
    return {"problems": problems, "sites": sites, "stack_sha": sha, "shas": shas, "changed": c1 or c2}


if __name__ == "__main__":
    r = generate()
    for p in r["problems"]:
        print("PROBLEM:", p)
    for s in r["sites"]:
        print(s["key"], s["line"])
