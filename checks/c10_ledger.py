"""Writes the initial content of coq/Crash/Ledger.v from the current site list and the rules below
(development tool: `python3 -m checks.c10_ledger`).  The committed Ledger.v is the ledger; the
check never regenerates it — a site that appears or disappears makes its theorems fail."""
import os
import re

from vlib import core
from checks import c10_sites


def q(s):
    return '"' + s.replace('"', '""') + '"'


def thm(name, why):
    return "ByTheorem %s _ %s %s" % (q(name), name, q(why))


def delegated(pid, name, why):
    return "Delegated %s %s %s" % (q(pid), q(name), q(why))


def unproved(why):
    return "Unproved %s" % q(why)


def known(key, lemma, why):
    return "KnownDefect %s %s _ %s %s" % (q(key), q(lemma), lemma, q(why))


VEC_FN = [
    (r"::push\b", "C17_push"), (r"::pop\b", "C17_pop"), (r"::get\b", "C17_get"), (r"::set\b", "C17_set"),
    (r"::truncate\b", "C17_truncate"), (r"::extend\b|Extend<T>", "C17_extend"), (r"iter|Iterator|IntoIter", "C17_iter_from"),
]


def coverage_for(key):
    f = key.split("::", 1)[0]
    if f.endswith("parser/src/lexer.rs"):
        if re.search(r"::(enter_strlike|enter_normal|leave_str|leave_indstr|leave_normal|normal_mode_data_mut|multistring_mode_data|bufferize):panic", key):
            return thm("lexer_no_panic", "mode-switch panic: excluded by the alternation invariant of the mode stack for every raw token sequence")
        if "split_candidate_interp:sub" in key or "handle_normal_token:sub" in key:
            return thm("lexer_no_panic", "usize subtraction: the guard s.len() >= percent_count (resp. the regex: delimiter length >= 1) excludes the underflow")
        if "split_candidate_interp:index" in key:
            return thm("split_spans_ok", "s[0..split_at] with split_at = s.len() - percent_count <= s.len(); the prefix consists of ASCII `\"`/`%` so it ends on a char boundary")
        if "::next:unwrap" in key:
            return thm("lexer_consumes", "self.lexer is None only inside enter_*/leave_*, which restore it on every non-panicking path; those paths never panic")
        if "symbolic_string_prefix_and_length:expect" in key:
            return unproved("rsplit_once('-') on a slice matched by the regex [a-zA-Z][_a-zA-Z0-9-']*-s(%+)\": the regex contains the '-'; logos regex semantics are not modelled (sampled by the lextrace correspondence)")
        return unproved("not modelled")
    if f.endswith("parser/src/error.rs") or f.endswith("parser/src/utils.rs"):
        if ":cast#" in key:
            return thm("mk_span_id", "usize as u32 truncates: identity for offsets of sources shorter than 4 GiB (hypothesis of the theorem; larger sources are not covered)")
        if "external_error_span" in key:
            return thm("external_error_span_ok", "the loops walk to a char boundary within [0, len]; modelled with fuel len + 1")
        if "from_serde_json:unwrap" in key:
            return unproved("location.unwrap() under start.map(..): start is Some only if location was Some (line_span is derived from location); data-flow fact, not modelled (only reachable with feature nix-experimental)")
        if "from_serde_json:sub" in key:
            return unproved("error.line() - 1 guarded by the test error.line() == 0 just above; not modelled")
        return unproved("not modelled")
    if f.endswith("typecheck/reporting.rs"):
        if "gen_candidate_name" in key:
            return thm("no_panic_candidate_char", "'a' + (next % 26) is a valid scalar value; the casts are on values below 26 / equal to 97")
        return unproved("not modelled")
    if f.endswith("term/string.rs"):
        if "find_all_regex:expect" in key:
            return thm("no_panic_find_all_fixed", "the start of a match that passed does_match_start_and_end_on_boundary is one of the cluster offsets or the length of the string, both searched since c9daf53 (find_all_index_panics_iff: before that commit an empty match at the end panicked)")
        if "find_all_regex:unwrap" in key:
            return unproved("capt.get(0).unwrap(): group 0 always participates in a match (guarantee of the regex crate, not modelled)")
        if "substring:sub" in key:
            return thm("no_panic_substring", "end_usize - start_usize is dominated by the test end_usize < start_usize")
        return unproved("not modelled")
    if f.endswith("core/src/serialize/mod.rs"):
        if "number_from_float:expect" in key:
            return thm("no_panic_toml_import", "try_from_float_simplest(f).expect(..) fails on inf / nan only: check_floats, run before any conversion, visits every float the conversion visits (tables, arrays of tables, arrays, inline tables at any depth) and turns a non-finite one into a parse error")
        if ":cast#" in key:
            return thm("mk_span_id", "usize as u32: identity for offsets of sources shorter than 4 GiB")
        return unproved("not modelled")
    if f.endswith("core/src/error/mod.rs"):
        if "path_span:unwrap" in key:
            return unproved("FixedTypeParser.parse_tolerant_compat(format!(\"{ty}\")).unwrap(): relies on the printer/parser law `every runtime type printed by core/src/pretty.rs parses back as a type` (taken whenever the type of a label or of an ArrowTypeMismatch has no source position); the runtime printer is not modelled (coq/Surface models the AST printer, property C14): the law is checked directly on the implementation on every run (checks/c10.py run_type_law: every type shape in every type context, composed twice, ~5000 types; any type the pipeline parses) and the path is exercised by the error matrix")
        if "path_span:expect" in key:
            return unproved("ty_path::span on the re-parsed type: every node of a freshly parsed type has a position and the path was computed on the same type up to printing; relies on the same law plus stability of the printed form (checked by run_type_law: print(parse(print(T))) = print(T))")
        return unproved("not modelled")
    if f.endswith("core/src/ast/compat.rs"):
        if "for term::LabeledType::from_ast" in key:
            return thm("no_panic_labeled_type", "the type of an annotation always has a position: the grammar sets it (WithPos) after fix_type_vars for let / inline / pattern / include annotations and before it for record fields, and every node rebuilt by fix_type_vars keeps the position of the node it replaces (build_fixed); tied by the annotation matrix of checks/c10_gen.py (every annotation position x type shape x identifier kind); types built elsewhere with Type::from are not annotations")
        if "merge_fields:unreachable" in key:
            return thm("no_panic_select_value", "same selection by priority as eval/merge.rs merge_fields (== / > / < of MergePriority are exhaustive)")
        if "from_mainline" in key:
            return unproved("runtime term -> AST conversion used by the REPL (:load, feature repl, not compiled into the harness): variants without an AST counterpart panic; property C12 owns the REPL (finding panic:load)")
        if "for PrimOp::from" in key:
            return unproved("runtime-only primops have no AST counterpart; only reached through from_mainline (REPL)")
        if "FieldDef" in key:
            return unproved("field paths produced by the parser are never empty (grammar fact, not modelled)")
        if ":index#" in key:
            return unproved("args[i] of a primop application: arity fixed by the grammar rule that built the node (not modelled)")
        return unproved("not modelled")
    if f.endswith("parser/src/uniterm.rs"):
        return unproved("bound_vars.get(var).unwrap() right after bound_vars.insert(var): by inspection, environments never delete")
    if f.endswith("core/src/pretty.rs"):
        if "libcall" in key or "unwrap" in key:
            return thm("no_panic_pretty_print_cap_fixed", "char_indices().nth(max_width) is matched, not unwrapped, since 03ad279 (pretty_print_cap_panics: before that commit it panicked when bytes > max_width >= characters)")
        return unproved("output[..end] with end taken from char_indices(): a char boundary by construction; not modelled")
    if f.endswith("eval/operation.rs"):
        if "::ArrayAt:unwrap" in key:
            return thm("no_panic_array_at", "array.get(n).unwrap() is dominated by the test n >= len (and the empty-array test)")
        if "::ArraySlice:libcall" in key:
            return thm("no_panic_array_slice", "Slice::slice asserts from <= to <= len, both established by the test just above")
        if "::Div:libcall" in key:
            return thm("no_panic_div", "Rational / Rational panics on a zero divisor: dominated by the test n2 == 0")
        if "::Modulo:libcall" in key or "::Modulo:sub" in key:
            return thm("no_panic_mod", "n1 / n2 is dominated by the test n2 == 0; the subtraction is on Rationals (total)")
        if "::Pow:libcall" in key:
            return thm("no_panic_pow", "Rational::pow panics for a zero base and a negative exponent: dominated by the guard added in c4c4d42 (pow_unguarded_panics_iff: exactly that case)")
        if re.search(r"::(StringSubstr|ArraySlice):(unwrap|debug_assert)", key):
            return unproved("args.next().unwrap() / debug_assert!(args.next().is_none()): the evaluator collects exactly NAryOp::arity() arguments before calling eval_opn (arity table, property C01); not restated here")
        if "::eq:" in key:
            return delegated("C16", "C16_eq_stack_equiv", "equality worklist of operation.rs::eq (coq/Arith/EqX.v)")
        return unproved("not modelled")
    if f.endswith("vector/src/vector.rs") or f.endswith("vector/src/slice.rs"):
        for rx, name in VEC_FN:
            if re.search(rx, key):
                return delegated("C17", name, "coq/Vector: the operation does not panic in contract and refines the list operation")
        return delegated("C17", "C17_history_refines", "coq/Vector: every history returns the same results as independent lists, including exactly the same (out-of-contract) panics")
    if f.endswith("lsp/nls/src/world.rs"):
        return delegated("C19", "C19_no_crash", "coq/Lsp: the World model never terminates abnormally on good histories (model-level; the unwrap sites of world.rs are the model's crash outcomes)")
    if f.endswith("eval/stack.rs"):
        if "verif_" in key:
            return "Hook %s" % q("verification hook (feature verif-hooks), not part of the shipped code")
        return delegated("C18", "C18_stack_typed", "coq/Mem: every pop/read happens at the type the marker selects; see also C18_sites_all_covered for the unsafe sites")
    if f.endswith("cache/lazy.rs"):
        return unproved("revertible thunk protocol: cached is set by build_cached/init_cached before it is read; modelled in coq/Mech (thunk machine) but no theorem is stated about this unwrap")
    if f.endswith("package/src/resolve.rs"):
        if "index_dep_version" in key:
            return delegated("C20", "C20_lookup_total_and_right", "coq/Pkg: the look-up finds the resolved version for every edge of a valid solution")
        if "::precise" in key:
            return delegated("C20", "C20_lock_no_crash", "coq/Pkg: lock-file construction does not crash on valid solutions")
        if "sorted_dependencies" in key:
            return delegated("C20", "C20_package_map_no_crash", "coq/Pkg")
        return unproved("error printing path, not modelled")
    if f.endswith("package/src/lock.rs"):
        return unproved("serialisation / I-O of the lock file, not modelled")
    if f.endswith("eval/merge.rs"):
        if ":unreachable#" in key:
            return thm("no_panic_select_value", "the last arm of the match on (value1, value2) and the priorities: == and > are the hand-written PartialEq / Ord instances of MergePriority, which agree (prio_eq_cmp) and are antisymmetric, so one of the guarded arms always fires")
        return unproved("fields_merge_closurize(..).unwrap(): its error comes from field_deps / saturate on the cache; coq/Merge models the data algebra, not the cache")
    if f.endswith("eval/contract_eq.rs"):
        return delegated("C04", "C04_contract_eq_sound", "coq/Merge/CtrEq.v")
    return unproved("not modelled")


HEADER = '''(* C10 — the panic-site ledger.

   checks/c10_sites.py lists in Gen/PanicSites.v every panic-capable site (unwrap, expect, panic!,
   unreachable!, unimplemented!, assert!, debug_assert!, indexing/slicing, integer casts; for the
   files owned by C10 also unsigned subtractions and panicking library calls) of the Rust
   functions mirrored by a model under coq/ (key = file, impl, function, match arm, kind, ordinal;
   line numbers are not part of the key).  This table says, for each key, what excludes the site:

     ByTheorem    a theorem of coq/Crash (the term is checked here: the name must exist and prove P)
     Delegated    a theorem of another property, by name (checks/c10.py verifies that coq/Props/<id>.v
                  still states it; no Coq-level dependency on the other areas)
     KnownDefect  the site IS reachable in the current tree: a refuted-lemma with the witness, and
                  the key of the finding in known_findings.txt
     Hook         verification hook
     Unproved     explicitly open, with the reason

   [sites_all_covered] / [ledger_no_stale] fail to compile when a site appears, disappears or moves
   to another function: an open obligation (the check then runs the search harness focused on the
   file and reports no-failing-input-found if nothing turns up). *)
From Coq Require Import List String Bool ZArith QArith.
Import ListNotations.
From NV Require Import Crash.Outcome Crash.NumOps Crash.NumOpsProofs Crash.Index Crash.IndexProofs
  Crash.Lexer Crash.LexerProofs Crash.Span Crash.SpanProofs Crash.NameReg Crash.NameRegProofs
  Crash.Defects Crash.MergeDispatch Crash.MergeDispatchProofs Crash.TomlFloats Crash.TomlFloatsProofs Crash.TypePos Crash.TypePosProofs Gen.PanicSites.
Open Scope string_scope.

Inductive coverage : Type :=
| ByTheorem (name : string) (P : Prop) (proof : P) (why : string)
| Delegated (property theorem why : string)
| KnownDefect (finding_key lemma : string) (P : Prop) (proof : P) (why : string)
| Hook (why : string)
| Unproved (why : string).

Definition ledger : list (string * coverage) := [
'''

FOOTER = '''
].

Definition keys_of {A} (l : list (string * A)) : list string := map fst l.

Fixpoint mem (k : string) (l : list string) : bool :=
  match l with [] => false | x :: t => if String.eqb k x then true else mem k t end.

Lemma mem_In : forall k l, mem k l = true -> In k l.
Proof.
  induction l as [|x t IH]; cbn; [discriminate|].
  destruct (String.eqb k x) eqn:E; [apply String.eqb_eq in E; auto|auto].
Qed.

Definition all_covered : bool := forallb (fun s => mem (fst s) (keys_of ledger)) sites.
Definition no_stale : bool := forallb (fun e => mem (fst e) (keys_of sites)) ledger.

Lemma all_covered_true : all_covered = true.
Proof. vm_compute. reflexivity. Qed.

Lemma no_stale_true : no_stale = true.
Proof. vm_compute. reflexivity. Qed.

(* every listed site has a ledger entry (a theorem, a delegation, a known defect, or an explicit
   Unproved) ... *)
Theorem sites_all_covered : forall key line, In (key, line) sites -> exists c, In (key, c) ledger.
Proof.
  intros key line H.
  assert (M : mem key (keys_of ledger) = true).
  { pose proof all_covered_true as A. unfold all_covered in A. rewrite forallb_forall in A. exact (A _ H). }
  apply mem_In in M. unfold keys_of in M. apply in_map_iff in M. destruct M as [[k c] [E I]].
  cbn in E. subst k. eauto.
Qed.

(* ... and every ledger entry is about a site that still exists *)
Theorem ledger_no_stale : forall key c, In (key, c) ledger -> exists line, In (key, line) sites.
Proof.
  intros key c H.
  assert (M : mem key (keys_of sites) = true).
  { pose proof no_stale_true as A. unfold no_stale in A. rewrite forallb_forall in A. exact (A _ H). }
  apply mem_In in M. unfold keys_of in M. apply in_map_iff in M. destruct M as [[k l] [E I]].
  cbn in E. subst k. eauto.
Qed.

Definition is_open (c : coverage) : bool := match c with Unproved _ => true | _ => false end.
Definition is_proved (c : coverage) : bool := match c with ByTheorem _ _ _ _ => true | _ => false end.
Definition is_delegated (c : coverage) : bool := match c with Delegated _ _ _ => true | _ => false end.
Definition is_known (c : coverage) : bool := match c with KnownDefect _ _ _ _ _ => true | _ => false end.
Definition count (p : coverage -> bool) : nat := List.length (filter (fun e => p (snd e)) ledger).
'''


def main():
    sites = c10_sites.write_gen()
    rows = []
    for k, _ in sites:
        rows.append("  (%s,\n   %s)" % (q(k), coverage_for(k)))
    text = HEADER + ";\n".join(rows) + FOOTER
    p = os.path.join(core.COQ, "Crash", "Ledger.v")
    with open(p, "w") as f:
        f.write(text)
    print("wrote", p, len(rows), "entries")


if __name__ == "__main__":
    main()
