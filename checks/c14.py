"""C14 — pretty-printing and re-parsing preserves the program (parser/src/ast/pretty.rs, grammar.lalrpop)."""
import glob
import json
import os
import re

from vlib import core
from checks import c14_cases as cc
from checks import c14_gen

META = {
    "harness_bins": ["c14"],
    "extract": "C14.v",
    "technique": "Coq proof about a token-level model of the AST printer and of the grammar (precedence-climbing parser parameterised by the operator table regenerated from grammar.lalrpop on every run); model tied to the Rust code by differential runs on generated ASTs (same token stream from the real printer + real lexer, same re-parsed tree); direct oracle on the implementation: parse -> print -> parse gives the same position-erased tree, printing is a fixpoint, layout width does not matter, evaluation is unchanged, over generated ASTs and every .ncl file of the repository under token mutation",
    "level_text": "Theorems (coq/Props/C14.v, proofs in coq/Surface/RoundTrip.v): op_table_wf — the operator table generated from grammar.lalrpop/lexer.rs/primop.rs/pretty.rs on every run has what the round trip needs (each operator the printer emits is read back as the same primop with the same laziness, the arrow is the loosest operator and right-associative, prefix operators bind tighter than it, no operator text starts an atom); parse_print_core — for every table satisfying that check and every term t of the expression core (literals, variables, strings with interpolation, enum tags/variants, arrays, application, strict and lazy infix operators of every level, negation, %primop% applications, static access, imports, if, fun/let with variable patterns, annotations with base/contract/arrow/array types, records with simple fields), parse (print t) = Some t, hence print_fixpoint_core; multiline_delim_safe — for the percent count the printer chooses, the automaton of the lexer's multiline-string mode reads the printed characters back as exactly the chunks; refuting witnesses for each of the ten printer/parser defects of the pinned commit and their round trip in the model of the repaired code. The model printer mirrors pretty.rs case by case over the whole surface syntax (is_atom, parens_if, needs_parens_in_type_pos, pattern parenthesisation, quoting of identifiers, string style and percent count, number rendering, multiline_roundtrips/strip_indent); outside the proved fragment the full statements (C14_full_parse_print, C14_full_image_closed: for every t with parser_image t = true, parse (print t) = Some t; every tree the parser returns satisfies parser_image) are type-checked definitions whose instances are checked by execution only, with parser_image (coq/Surface/Image.v) an executable predicate over the whole AST evaluated on every parsed program and every generated tree; core_in_image — the proved fragment lies inside parser_image.",
    "level_note": "Trusted: Coq kernel; extraction (ExtrOcamlBasic, ExtrOcamlNativeString); the translator checks/c14_gen.py (syntactic, fails closed); the hand-written model's reading of pretty.rs and of the grammar, validated only by the correspondence runs; the s-expression glue on both sides; logos/LALRPOP generated code, malachite number parsing/printing, the `pretty` layout engine. String escapes and identifiers are opaque tokens (C13). The formatter (topiary) is external and not covered. When the translator, a proof or the extraction fails, the direct oracle (corpus, repository files, mutants, generated trees, every PrimOp constructor) still runs without the model and reports concrete witnesses.",
}

FILES_EXCLUDE = ("/target/",)


def esc(s):
    return s.replace("\\", "\\\\").replace("\n", "\\n").replace("\t", "\\t").replace("\r", "\\r")


def unesc(s):
    out = []
    i = 0
    while i < len(s):
        c = s[i]
        if c == "\\" and i + 1 < len(s):
            d = s[i + 1]
            i += 2
            out.append({"n": "\n", "t": "\t", "r": "\r", "\\": "\\"}.get(d, "\\" + d))
        else:
            out.append(c)
            i += 1
    return "".join(out)


# ----------------------------------------------------------------------------------- translator

def canonicalise(t, ops):
    """Rename the operators of the tables from what `Display` prints to the harness's canonical
    names (the identity as long as nobody renames a primop), so that the model and the harness
    dumps keep speaking about the same constructor if an operator is renamed consistently."""
    ren = {}
    for o in ops:
        if o["canon"] in NOT_IN_IMAGE:
            continue
        ren.setdefault(o["display"], set()).add(o["canon"])
    amb = {d: sorted(c) for d, c in ren.items() if len(c) > 1}
    if amb:
        return amb          # two constructors print alike: leave the names alone, the caller reports it
    f = lambda n: next(iter(ren[n])) if n in ren else n
    fk = lambda k: re.sub(r'"([^"]*)"', lambda m: '"%s"' % f(m.group(1)), k)
    t["binops"] = [(sp, lvl, a, fk(k)) for sp, lvl, a, k in t["binops"]]
    t["prefixops"] = [(sp, lvl, a, fk(k)) for sp, lvl, a, k in t["prefixops"]]
    t["primops"] = [(sp, f(n), ar) for sp, n, ar in t["primops"]]
    t["op_spelling"] = [(f(n), sp) for n, sp in t["op_spelling"]]
    t["infix_ops"] = [f(n) for n in t["infix_ops"]]
    t["postfix_ops"] = [f(n) for n in t["postfix_ops"]]
    return None


def write_table(ops=None):
    """Read the tables from the working tree of the repository and (re)write coq/Gen/OpTable.v.
    `ops` is what the implementation itself says about every PrimOp value (harness_primops);
    it replaces the Display table of the source text when that one cannot be read.
    Raises c14_gen.TranslatorError on anything the translator cannot read."""
    dyn = {o["debug"]: o["display"] for o in ops} if ops else None
    t = c14_gen.read_tables(core.REPO, dyn)
    t["display_ambiguous"] = canonicalise(t, ops) if ops else None
    txt = c14_gen.render_coq(t)
    d = os.path.join(core.COQ, "Gen")
    os.makedirs(d, exist_ok=True)
    path = os.path.join(d, "OpTable.v")
    with core.Lock("coq"):
        old = open(path).read() if os.path.exists(path) else None
        if old != txt:
            with open(path, "w") as f:
                f.write(txt)
    return t


def harness_primops():
    """every PrimOp value, asked from the implementation: canonical (harness) name, Debug, Display,
    arity, positioning; None if the harness cannot be asked"""
    try:
        rc, res, err = run_impl(["primops"])
        if rc or not res or not res[0] or res[0][0].startswith("ERR"):
            return None
        names = res[0][0].split(" ")
        rc, res, err = run_impl(["primop\t" + esc(n) for n in names])
        if rc or len(res) != len(names):
            return None
        ops = []
        for r in res:
            if len(r) != 5:
                return None
            ops.append({"canon": unesc(r[0]), "debug": unesc(r[1]), "display": unesc(r[2]), "arity": int(r[3]), "pos": r[4]})
        return ops
    except (OSError, ValueError):
        return None


def setup_gen():
    """called by `./verif setup` before the Coq build (coq/Gen is not committed)"""
    try:
        write_table()
    except c14_gen.TranslatorError:
        # the table of names cannot be read from the source text: ask the implementation
        rc, out = core.cargo_build(["c14"])
        ops = harness_primops() if rc == 0 else None
        if ops is None:
            raise
        write_table(ops)


def gen_table(ck, ops=None):
    """Regenerate coq/Gen/OpTable.v from the working tree of the repository."""
    try:
        t = write_table(ops)
    except c14_gen.TranslatorError as ex:
        ck.obligation("translator:optable " + str(ex)[:150], "translator", False, str(ex))
        return None
    ck.coverage["primop_names_from"] = ("impl Display for PrimOp read from the source text" if t["display_source"] == "static"
                                        else "Display called on every PrimOp value by the harness (the source text of impl Display could not be read)")
    if t["display_source"] != "static":
        ck.log("note: impl Display for PrimOp could not be read from the source text; names obtained by running it")
    ck.coverage.setdefault("generated_tables", []).append({"file": "Gen/OpTable.v", "source_sha": t["source_sha"]})
    base = os.path.join(core.ROOT, "corpus", "C14", "optable.baseline.json")
    cur = {"binops": [list(x) for x in t["binops"]], "prefixops": [list(x) for x in t["prefixops"]]}
    if os.path.exists(base):
        ref = json.load(open(base))
        if ref != cur:
            ck.coverage["operator_table_changed_since_baseline"] = {
                "was": [x for x in ref["binops"] + ref["prefixops"] if x not in cur["binops"] + cur["prefixops"]],
                "now": [x for x in cur["binops"] + cur["prefixops"] if x not in ref["binops"] + ref["prefixops"]]}
            ck.log("note: the operator table differs from the recorded baseline (the model follows it):",
                   ck.coverage["operator_table_changed_since_baseline"])
    return t


# values of PrimOp that have no concrete syntax (the parser never produces them)
NOT_IN_IMAGE = ("force!ine", "(&)!piecewise", "label/with_error_data")


def primop_app_sexp(o):
    """the application of one operator to variables, as the parser would build it"""
    q = lambda x: '"%s"' % x
    n, ar = o["canon"], o["arity"]
    xs = ['(var "x%d")' % (i + 1) for i in range(max(ar, 1))]
    if n in ("(&&)", "(||)"):
        return '(app (op %s (var "x1")) (var "x2"))' % q(n)
    if n == "record/get":
        return '(op "record/get" (chunks (expr (var "x1") 0)) (var "x2"))'
    return "(op %s %s)" % (q(n), " ".join(xs[:ar]))


def enumerate_primops(ck, ops):
    """Every PrimOp constructor once, built on the Rust side, printed by the real printer and read
    back by the real parser: the nodes must be equal.  Needs no table and no model."""
    src = open(os.path.join(core.REPO, "parser/src/ast/primop.rs"), encoding="utf-8").read()
    m = re.search(r"pub enum PrimOp \{(.*?)\n\}", src, flags=re.S)
    declared = None
    if m:
        body = re.sub(r"//[^\n]*", "", m.group(1))
        body = re.sub(r"#\[cfg\(feature[^\]]*\)\]\s*[A-Za-z0-9_]+[^,]*,", "", body)     # feature-gated constructors
        body = re.sub(r"#\[[^\]]*\]", "", body)
        declared = set(re.findall(r"^\s*([A-Z][A-Za-z0-9_]*)\s*(?:,|\(|\{)", body, flags=re.M))
    heads = set(re.match(r"[A-Za-z0-9_]+", o["debug"]).group(0) for o in ops) | {"RecordStatAccess", "EnumEmbed"}
    ck.coverage["primop_constructors"] = {"declared_in_primop_rs": len(declared) if declared else None, "enumerated_by_harness": len(heads)}
    if declared is not None and declared != heads:
        ck.obligation("harness-protocol:primop-enumeration", "internal", False,
                      "constructors of PrimOp in primop.rs and in the harness table differ: %s" % sorted(declared ^ heads))
    # how many arguments the grammar gives to `%name%`: asked from the parser itself (PrimOp::arity is
    # a separate table of the implementation; where they differ it is noted, and the grammar wins)
    probes = [(o, k) for o in ops if o["pos"] == "Prefix" and o["canon"] not in NOT_IN_IMAGE + ("bool/not",) for k in range(1, 6)]
    rc, res, err = run_impl(["parse\t" + esc("%" + o["display"] + "% " + " ".join("x%d" % (i + 1) for i in range(k))) for o, k in probes])
    parsed_arity = {}
    if not rc and len(res) == len(probes):
        for (o, k), r in zip(probes, res):
            if len(r) >= 2 and r[0] != "P" and unesc(r[1]) == primop_app_sexp(dict(o, arity=k)):
                parsed_arity[o["canon"]] = max(k, parsed_arity.get(o["canon"], 0))
    differ = {o["canon"]: {"PrimOp::arity": o["arity"], "grammar": parsed_arity[o["canon"]]}
              for o in ops if o["canon"] in parsed_arity and parsed_arity[o["canon"]] != o["arity"]}
    if differ:
        ck.coverage["primop_arity_differs_from_grammar"] = differ
    ops = [dict(o, arity=parsed_arity.get(o["canon"], o["arity"])) for o in ops]
    cases = [(o["canon"], primop_app_sexp(o)) for o in ops if o["canon"] not in NOT_IN_IMAGE]
    cases += [("stat_access", '(op (stat_access "f") (var "x1"))'), ("enum_embed", '(op (enum_embed "t") (var "x1"))')]
    rc, res, err = run_impl(["build\t" + esc(sx) for _, sx in cases])
    if rc or len(res) != len(cases):
        ck.obligation("harness-run:primop-enumeration", "internal", False, "rc=%s %s" % (rc, err[-800:]))
        return
    for (name, sx), r in zip(cases, res):
        r = (r + [""] * 5)[:5]
        status, printed, detail, reparsed = r[1], unesc(r[2]), unesc(r[3]), unesc(r[4])
        ck.case(key="primop:" + sx, nontrivial=True)
        ck.hist("primop-enumeration:status", status)
        if status.startswith("ERR"):
            ck.obligation("harness-builder:primop-enumeration", "internal", False, "%s on %s" % (status[:200], sx))
        elif status != "OK":
            ck.violation("primop-roundtrip:" + name,
                         "the operator %s is printed as `%s`, which the parser reads back as %s (%s)" % (name, printed.strip()[:80], reparsed[:120], status),
                         {"origin": "every PrimOp constructor once", "kind": status, "witness_sexp": sx, "printed": printed[:2000],
                          "detail": detail[:2000], "reparsed": reparsed[:2000], "expected": "the parser reads the printed text back as " + sx,
                          "how_to_replay": "./verif check C14 --replay <this file>"})


# ------------------------------------------------------------------------------------- runners

def run_impl(lines):
    rc, out, err = core.run_sharded(core.harness_bin("c14"), [], lines, timeout=3000)
    return rc, [o.split("\t") for o in out], err


MODEL_ARGS = []


def run_model(exe, lines, args=()):
    rc, out, err = core.run_sharded(exe, MODEL_ARGS + list(args), lines, timeout=3000)
    return rc, [o.split("\t") for o in out], err


# defects that are recorded but not repaired in /repo: the model has both variants, the check
# looks which one the working tree implements (the witness of Surface/Refuted.v) and ties that one
PROBES = [("aliaspar", "fun g @ ('Some y) => y")]


def probe_variant(ck):
    rc, res, err = run_impl(["rt\t\t\t" + esc(src) for _, src in PROBES])
    flags = [name for (name, _), r in zip(PROBES, res) if r and r[0] == "V"]
    ck.coverage["printer_variant_flags"] = flags
    del MODEL_ARGS[:]
    if flags:
        MODEL_ARGS.append("flags=" + ",".join(flags))
    return flags


def fuse_lits(toks):
    out = []
    for w in toks.split(" "):
        if w.startswith("L") and out and out[-1].startswith("L"):
            out[-1] += w[1:]
        else:
            out.append(w)
    return " ".join(out)


def norm_dump(d):
    """the model has no wildcard numbering"""
    import re
    return re.sub(r"\(wildcard \d+\)", "(wildcard 0)", d)


# ------------------------------------------------------------------- classification / minimising

def diff_terms(a, b, out, enclosing=None):
    """the innermost term nodes of `a` inside which the trees `a` and `b` differ"""
    if a == b and type(a) is type(b):
        return out
    if isinstance(a, list) and isinstance(b, list) and len(a) == len(b):
        enc = a if cc.is_term(a) else enclosing
        for x, y in zip(a, b):
            diff_terms(x, y, out, enc)
        return out
    t = enclosing if enclosing is not None else a
    if not any(t is o for o in out):
        out.append(t)
    return out


def minimise(dump, other=None):
    """minimal sub-terms of a failing tree that fail the direct oracle on their own.  `other`: the
    tree that re-parsing gave (when it differs): the places where the two differ are tried first,
    which finds the witness inside a large program (the whole standard library) at once."""
    try:
        t = cc.sx_parse(dump)
    except Exception:
        return []
    first = []
    if other:
        try:
            first = [cc.show(x) for x in diff_terms(t, cc.sx_parse(other), [])[:24]]
        except Exception:
            first = []
    if first:
        rc, res, err = run_impl(["build\t" + esc(x) for x in first])
        bad = [x for x, r in zip(first, res) if len(r) > 1 and r[1] not in ("OK",) and not r[1].startswith("ERR")]
        if bad:
            out = []
            for x in bad[:3]:
                for w in (minimise(x) or [x]):
                    if w not in out:
                        out.append(w)
            return out
    subs = cc.subterms(t, [])
    strs = []
    for s in subs:
        x = cc.show(s)
        if x not in strs:
            strs.append(x)
    strs = strs[:400]
    rc, res, err = run_impl(["build\t" + esc(s) for s in strs])
    status = {s: (r[1] if len(r) > 1 else "ERR") for s, r in zip(strs, res)}
    mins = []
    for s in strs:
        if status[s] == "OK":
            continue
        kids = [cc.show(k) for k in cc.subterms(cc.sx_parse(s), [])[:-1]]
        if all(status.get(k, "OK") == "OK" for k in kids):
            mins.append(s)
    return mins


def witness_key(sexp):
    """stable key of a minimal failing tree: its constructor skeleton to depth 3"""
    try:
        t = cc.sx_parse(sexp)
    except Exception:
        return "unparsed"

    def sk(x, d):
        if isinstance(x, cc.S):
            return "_"
        if isinstance(x, str):
            return x if not x.lstrip("-").isdigit() else "n"
        if not x:
            return "()"
        if d == 0:
            return sk(x[0], 0) if isinstance(x[0], str) and not isinstance(x[0], cc.S) else "(..)"
        return "(" + " ".join(sk(y, d - 1) for y in x[:4]) + ")"

    return sk(t, 3)[:120]


# ---- defect classes that are recorded in known_findings.txt (key `class:<name>`): a failing tree
# belongs to a class only if it contains the shape AND repairing just that shape makes it pass

def _walk(x, f, parent=None):
    if isinstance(x, list):
        y = f(x, parent)
        if y is not None:
            return y
        return [_walk(c, f, x) for c in x]
    return x


def _paren_positions(t, out):
    """patterns printed through pat_with_parens: fun arguments, enum-pattern arguments, or-branches"""
    if isinstance(t, list):
        if t and t[0] == "fun" and len(t) == 3 and isinstance(t[1], list):
            out.extend(id(p) for p in t[1])
        if t and t[0] == "penum" and len(t) == 3 and isinstance(t[2], list) and t[2] and t[2][0] == "some":
            out.append(id(t[2][1]))
        if t and t[0] == "por":
            out.extend(id(p) for p in t[1:])
        for c in t:
            _paren_positions(c, out)
    return out


def _aliased_paren_pattern(p):
    return (isinstance(p, list) and len(p) == 3 and p[0] == "pat" and isinstance(p[1], list) and p[1][0] == "some"
            and isinstance(p[2], list) and p[2] and (p[2][0] == "por" or (p[2][0] == "penum" and p[2][2][0] == "some")))


def has_aliased_paren_pattern(t):
    ids = set(_paren_positions(t, []))
    found = []

    def f(x, parent):
        if id(x) in ids and _aliased_paren_pattern(x):
            found.append(x)
        return None
    _walk(t, f)
    return bool(found)


def drop_aliases_in_paren_positions(t):
    ids = set(_paren_positions(t, []))

    def f(x, parent):
        if id(x) in ids and _aliased_paren_pattern(x):
            return ["pat", ["none"], _walk(x[2], f, x)]
        return None
    return _walk(t, f)


KNOWN_CLASSES = [("aliased-pattern-parens", has_aliased_paren_pattern, drop_aliases_in_paren_positions)]


def classify(sexp):
    """name of the recorded defect class that alone explains the failure of this tree, or None"""
    try:
        t = cc.sx_parse(sexp)
    except Exception:
        return None
    for name, has, repair in KNOWN_CLASSES:
        if has(t):
            rc, res, err = run_impl(["build\t" + esc(cc.show(repair(t)))])
            if res and len(res[0]) > 1 and res[0][1] == "OK":
                return name
    return None


MAX_MINIMISE = 12
MAX_CORR = 4


def corr_fail(ck, name, detail):
    """a model/implementation disagreement: keep the first few per kind, count the others"""
    k = "n:" + name
    ck.stats[k] = ck.stats.get(k, 0) + 1
    if ck.stats[k] <= MAX_CORR:
        ck.obligation(name, "correspondence", False, detail)
    else:
        ck.count("more_disagreements:" + name)



def report_direct(ck, origin, kind, dump, printed, detail, source=None):
    """a failure of the direct oracle: the property fails on the implementation"""
    cls = classify(dump) if dump else None
    if cls:
        ck.count("known_class:" + cls)
        ck.violation("class:" + cls, "recorded defect class " + cls,
                     {"origin": origin, "kind": kind, "tree": dump[:4000], "printed": printed[:2000]})
        return
    ck.stats["minimised"] = ck.stats.get("minimised", 0) + 1
    if ck.stats["minimised"] > MAX_MINIMISE:
        # enough distinct witnesses have been minimised and reported: only count the others
        ck.count("direct_oracle_failures_not_minimised")
        ck.violation("roundtrip:more", "further failing cases of the direct oracle (not minimised, see the evidence counters)",
                     {"origin": origin, "kind": kind, "tree": dump[:4000], "printed": printed[:2000]})
        return
    wits = minimise(dump, detail if kind == "TD" else None) if dump else []
    if not wits:
        wits = [dump or ""]
    for w in wits[:3]:
        cls = classify(w)
        key = "class:" + cls if cls else "roundtrip:%s:%s" % (kind, witness_key(w))
        ck.violation(key, "print/parse round trip fails on the implementation (%s): %s" % (kind, w[:160]),
                     {"origin": origin, "kind": kind, "witness_sexp": w, "tree": dump[:4000], "printed": printed[:2000],
                      "detail": detail[:2000], "source": source[:4000] if source else None,
                      "how_to_replay": "./verif check C14 --replay <this file>"})


# ------------------------------------------------------------------------------------ the runs

def repo_sources():
    files = sorted(p for p in glob.glob(os.path.join(core.REPO, "**", "*.ncl"), recursive=True)
                   if not any(x in p for x in FILES_EXCLUDE))
    out = []
    for f in files:
        try:
            out.append((f, open(f, encoding="utf-8").read()))
        except (OSError, UnicodeDecodeError):
            continue
    return out


def corpus_cases():
    """corpus/C14/*.case: one case per line, `src<TAB>escaped source` or `sexp<TAB>s-expression`"""
    p = os.path.join(core.ROOT, "corpus", "C14")
    res = []
    if os.path.isdir(p):
        for f in sorted(os.listdir(p)):
            if not f.endswith(".case"):
                continue
            for line in open(os.path.join(p, f), encoding="utf-8"):
                line = line.rstrip("\n")
                if line and not line.startswith("#") and "\t" in line:
                    kind, payload = line.split("\t", 1)
                    res.append((kind, payload, f))
    return res


def oracle_on_sources(ck, cases, flags, label):
    """cases: [(origin, dir, source)]"""
    lines = ["rt\t%s\t%s\t%s" % (flags, esc(d), esc(s)) for _, d, s in cases]
    rc, res, err = run_impl(lines)
    if rc:
        ck.obligation("harness-run:" + label, "internal", False, "rc=%s %s" % (rc, err[-800:]))
    nparse = 0
    for (origin, d, s), r in zip(cases, res):
        if r[0] == "P":
            ck.count(label + ":unparseable")
            continue
        nparse += 1
        ck.case(key=s, nontrivial=len(s) > 20)
        if r[0] == "OK":
            ck.count(label + ":ok")
            ck.hist(label + ":tree_nodes", min(int(r[1]) // 50 * 50, 1000))
            if len(r) > 2:
                ck.hist(label + ":eval_outcome", unesc(r[2]).split(" ")[0] + " " + unesc(r[2]).split(" ")[1][:14] if " " in unesc(r[2]) else unesc(r[2]))
        elif r[0] == "V":
            kind = r[1]
            dump, printed, detail = (unesc(x) for x in (r[2:5] + ["", "", ""])[:3])
            if kind == "RT":
                # the runtime-term printer (core/src/pretty.rs) after to_mainline: observed only
                ck.count(label + ":runtime_printer:" + detail.split(":")[0][:40])
                obs = ck.coverage.setdefault("runtime_printer_observations_not_claimed", [])
                if len(obs) < 4 and "not a fixpoint" in detail:
                    obs.append({"origin": origin, "detail": detail[:300]})
                ck.count(label + ":ok")
                continue
            ck.count(label + ":violation:" + kind)
            report_direct(ck, origin, kind, dump, printed, detail, source=s)
        else:
            ck.obligation("harness-protocol:" + label, "internal", False, "unexpected answer %r for %s" % (r[:2], origin))
    return nparse


def tie_on_asts(ck, exe_model, sexps, in_image, label):
    """model print vs real print (tokens), model parse vs real parse (of the printed text), and the
    direct oracle for trees in the parser's image"""
    lines_i = ["build\t" + esc(s) for s in sexps]
    lines_m = ["print\t" + esc(s) for s in sexps]
    rc1, ri, e1 = run_impl(lines_i)
    if exe_model is None:
        # no model (translator or proof broken): the direct oracle alone
        if not in_image:
            return
        if rc1:
            ck.obligation("harness-run:" + label, "internal", False, "rc=%s %s" % (rc1, e1[-800:]))
        for s, a in zip(sexps, ri):
            ck.case(key=s, nontrivial=s.count("(") >= 6)
            a = (a + [""] * 5)[:5]
            istatus = a[1]
            ck.hist(label + ":impl_status", istatus)
            if istatus.startswith("ERR"):
                ck.obligation("harness-builder:" + label, "internal", False, "%s on %s" % (istatus[:200], s[:300]))
            elif istatus != "OK":
                report_direct(ck, label, istatus, s, unesc(a[2]), unesc(a[3]))
        return
    rc2, rm, e2 = run_model(exe_model, lines_m)
    if rc1 or rc2:
        ck.obligation("correspondence-run:" + label, "internal", False, "rc=%s/%s %s %s" % (rc1, rc2, e1[-500:], e2[-500:]))
    for s, a, b in zip(sexps, ri, rm):
        ck.case(key=s, nontrivial=s.count("(") >= 6)
        ck.hist(label + ":tree_nodes", min(s.count("(") // 10 * 10, 200))
        a = (a + [""] * 5)[:5]
        itoks, istatus, iprinted, idetail, ireparsed = unesc(a[0]), a[1], unesc(a[2]), unesc(a[3]), unesc(a[4])
        mtoks = unesc(b[0]) if b else ""
        mimg = b[1] if len(b) > 1 else "?"
        b = [b[0]] + b[2:] if len(b) > 1 else b
        mstatus = b[1] if len(b) > 1 else "ERR"
        if b and b[0].startswith("ERR"):
            ck.obligation("model-driver:" + label, "internal", False, "%s on %s" % (b[0][:200], s[:300]))
            continue
        if istatus.startswith("ERR"):
            ck.obligation("harness-builder:" + label, "internal", False, "%s on %s" % (istatus[:200], s[:300]))
            continue
        direct_fail = istatus not in ("OK",)
        ck.hist(label + ":parser_image", mimg)
        if in_image and mimg != "1":
            corr_fail(ck, "correspondence:generator-vs-parser_image", "generated as a tree of the parser's image, but parser_image = %s: %s" % (mimg, s[:600]))
        ck.hist(label + ":impl_status", istatus)
        ck.hist(label + ":model_status", mstatus)
        # 1. direct oracle
        if in_image and direct_fail:
            report_direct(ck, label, istatus, s, iprinted, idetail)
            continue
        # 2. panic behaviour
        if (istatus == "PANIC") != (mstatus == "PANIC"):
            corr_fail(ck, "correspondence:printer-panic", "tree %s\nimpl %s\nmodel %s" % (s[:400], istatus, mstatus))
            continue
        if istatus == "PANIC":
            ck.count(label + ":both_panic")
            continue
        # 3. tokens (how literal text is cut into literal tokens is not meaningful: fuse them)
        if fuse_lits(itoks) != fuse_lits(mtoks):
            corr_fail(ck, "correspondence:print-tokens", "tree  %s\nimpl  %s\nmodel %s\ntext  %s" % (s[:600], itoks[:600], mtoks[:600], iprinted[:300]))
            continue
        # 4. what re-parsing gives
        mparsed = "NONE" if mstatus == "NONE" else (s if mstatus == "OK" else (unesc(b[2]) if len(b) > 2 else "?"))
        want = norm_dump(ireparsed)
        # the harness dump of the *built* tree is the normal form of s
        if mstatus == "OK":
            mparsed = norm_dump(cc.show(cc.sx_parse(s)))
        if want != norm_dump(mparsed):
            # the real parser also rejects for reasons the model does not look at (duplicate bindings...)
            if want == "NONE" and not in_image:
                ck.count(label + ":impl_rejects_model_accepts")
                continue
            corr_fail(ck, "correspondence:parse-of-printed", "tree  %s\nimpl  %s\nmodel %s" % (s[:500], want[:500], norm_dump(mparsed)[:500]))


def tie_on_parse(ck, exe_model, sources, label):
    """model parser vs real parser on real token streams"""
    if exe_model is None:
        return
    lines = ["parse\t" + esc(s) for _, s in sources]
    rc, res, err = run_impl(lines)
    todo = []
    for (origin, s), r in zip(sources, res):
        if r[0] == "P" or len(r) < 2:
            continue
        toks, dump = unesc(r[0]), unesc(r[1])
        if toks.startswith("LEXERR"):
            continue
        if any(w.startswith("Y") for w in toks.split(" ")):
            ck.count(label + ":skipped_symbolic_string")
            continue
        todo.append((origin, s, toks, dump))
    rc2, rm, e2 = run_model(exe_model, ["parse\t" + esc(t[2]) for t in todo])
    for (origin, s, toks, dump), m in zip(todo, rm):
        ck.case(key="parse:" + s, nontrivial=len(toks) > 40)
        got = unesc(m[0]) if m else "ERR"
        if len(m) > 1:
            ck.hist(label + ":parser_image_of_parsed", m[0])
            if m[0] != "1":
                corr_fail(ck, "correspondence:image-closed-under-parse", "the model parser returned a tree outside parser_image for %s: %s" % (origin, unesc(m[1])[:600]))
            got = unesc(m[1])
        if got.startswith("ERR"):
            ck.obligation("model-driver:" + label, "internal", False, "%s on %s" % (got[:200], origin))
            continue
        if norm_dump(got) != norm_dump(dump):
            ck.count(label + ":disagree")
            corr_fail(ck, "correspondence:parser", "source %s\ntokens %s\nimpl   %s\nmodel  %s" % (origin, toks[:500], dump[:500], got[:500]))
        else:
            ck.count(label + ":agree")


def raise_stack_limit():
    """the extracted parser recurses as deep as its input is long"""
    import resource
    soft, hard = resource.getrlimit(resource.RLIMIT_STACK)
    want = 4 << 30
    if hard != resource.RLIM_INFINITY:
        want = min(want, hard)
    try:
        resource.setrlimit(resource.RLIMIT_STACK, (want, hard))
    except (ValueError, OSError):
        pass


def prefix_primops_of(ops):
    """(spelling, name, arity) of the `%name%` operators, from what the implementation says about
    its PrimOp values: what the generator needs when the tables cannot be read"""
    special = set(NOT_IN_IMAGE) | {"bool/not", "(&&)", "(||)", "record/get"}
    return [("%" + o["display"] + "%", o["canon"], o["arity"]) for o in ops
            if o["pos"] == "Prefix" and o["canon"] not in special and o["arity"] >= 1]


def run(ck):
    tier = ck.tier
    raise_stack_limit()
    # the harness first: it needs nothing that is generated, and the direct oracle needs only it
    ok = ck.harness(["c14"])
    ops = harness_primops() if ok else None
    if ok and ops is None:
        ck.obligation("harness-protocol:primops", "internal", False, "the harness does not answer the `primops` request")
    tables = gen_table(ck, ops)
    if tables and tables.get("display_ambiguous"):
        ck.obligation("translator:primop-names-injective", "translator", False,
                      "two PrimOp constructors are printed under the same name: %s" % tables["display_ambiguous"])
    coq_ok = ck.coq("Props.C14", extra_targets=["Surface/Io.vo"], clean=False)
    exe_model = ck.model("C14.v") if tables is not None else None
    if not ok:
        return
    if tables is None or not coq_ok or not exe_model:
        # DESIGN 1.4: a broken translator / proof does not stop the search.  Everything below that
        # does not need the model still runs: the direct oracle on the corpus, the repository, the
        # mutants, the generated trees and every PrimOp constructor.
        exe_model = None
        ck.log("no model (translator, proof or extraction failed): direct oracle only")
        ck.coverage["model_ties"] = "not run: no model"
    rng = core.SplitMix64(ck.seed * 1000003 + 14)
    probe_variant(ck)

    # ---- every PrimOp constructor once
    if ops:
        enumerate_primops(ck, ops)
        ck.log("primop enumeration done")

    # ---- corpus first: past findings and hand-picked witnesses
    cor = corpus_cases()
    cor_src = [("corpus:" + f, "", unesc(p)) for k, p, f in cor if k == "src"]
    cor_sx = [p for k, p, f in cor if k == "sexp"]
    ck.coverage["corpus_cases"] = len(cor)
    if cor_src:
        oracle_on_sources(ck, cor_src, "er", "corpus")
        tie_on_parse(ck, exe_model, [(o, s) for o, _, s in cor_src], "corpus-parse")
    if cor_sx:
        tie_on_asts(ck, exe_model, cor_sx, True, "corpus-ast")

    ck.log("corpus done")
    # ---- every .ncl file of the repository: direct oracle with evaluation, runtime printer, parser tie
    files = repo_sources()
    ck.coverage["repo_files"] = len(files)
    src_cases = [(f, os.path.dirname(f), s) for f, s in files]
    nparse = oracle_on_sources(ck, src_cases, "er", "repo")
    ck.coverage["repo_files_parsed"] = nparse
    ck.log("repo oracle done")
    tie_on_parse(ck, exe_model, files, "repo-parse")
    ck.log("repo parser tie done")

    # ---- the same files under token-level mutation
    per_file = 3 if tier == "quick" else 60
    muts = []
    for f, s in files:
        if len(s) > 60000:
            continue
        r = rng.fork()
        for k in range(per_file):
            muts.append(("%s#mut%d" % (f, k), os.path.dirname(f), cc.mutate(r, s)))
    oracle_on_sources(ck, muts, "e" if tier == "thorough" else "", "mutated")
    ck.log("mutants done")
    if tier == "thorough":
        tie_on_parse(ck, exe_model, [(o, s) for o, _, s in muts[:20000]], "mutated-parse")

    # ---- generated ASTs inside the parser's image: direct oracle + both ties
    n = 3000 if tier == "quick" else 60000
    primops = [(sp, name, ar) for sp, name, ar in tables["primops"]] if tables else prefix_primops_of(ops or [])
    sexps = []
    for i in range(n):
        g = cc.Gen(rng.fork(), primops, max_depth=rng.choice([2, 3, 3, 4, 4, 5]))
        sexps.append(cc.show(g.program()))
    tie_on_asts(ck, exe_model, sexps, True, "generated")
    ck.log("generated done")
    # ---- and outside of it: ties only
    n2 = 600 if tier == "quick" else 10000
    outs = []
    for i in range(n2):
        g = cc.Gen(rng.fork(), primops, max_depth=2)
        outs.append(cc.show(cc.out_of_image(rng, g)))
    tie_on_asts(ck, exe_model, outs, False, "out-of-image")
    for s in sexps[:4]:
        ck.sample({"generated_tree": s[:400]})

    ck.coverage["rule"] = ("direct oracle: parse -> print(width 80) -> parse gives the same position-erased tree (s-expression dump incl. forall kinds and wildcard ids), print again is identical, widths 0/200 re-parse to the same tree, evaluation (typecheck + export, 300k steps) gives the same canonical outcome, runtime-term printer output parses and is a textual fixpoint; every PrimOp value (enumerated on the Rust side through an exhaustive match, count compared with the enum in primop.rs) applied to variables with the arity the parser itself gives to its `%name%`, printed and re-parsed to the same node; operators are compared by constructor (the harness's own names), never through Display; "
                           "inputs: corpus/C14, every .ncl under /repo, token-level mutants of them (delete/duplicate/swap/replace/insert/parenthesise, number literals replaced by long ones), seeded random ASTs inside the parser's image over the whole surface syntax (depth <= 5) and a stream outside of it for the model ties; "
                           "non-trivial = source > 20 chars / tree with >= 6 nodes; distinct by exact text")
    ck.coverage["partial"] = ("parse_print/print_fixpoint are proved for the expression core; match and patterns, record metadata, piecewise/quoted/interpolated field paths, open records, includes, let metadata, forall/record/enum/dict types, types in term position, %enum/embed% are covered by the executed model round trip and the direct oracle only; parser_image closed under parse is not proved (it is checked on every parsed program by execution); "
                              "topiary formatter not covered; symbolic strings are only parsed by the implementation (never printed); include identifiers that are metadata keywords and identifiers named `or` in patterns are not generated; the model parser accepts a superset of the real one (type-variable kind mismatches, features disabled at compile time), so parser_image is the image of the model parser and the generator respects the kind discipline by construction")
    ck.trusted += ["extraction: ExtrOcamlBasic + ExtrOcamlNativeString", "harness bin c14 (s-expression dump/builder, token regrouping)",
                   "ocaml/c14/driver.ml (s-expression glue)", "translator checks/c14_gen.py (the table of primop names is the source text of impl Display when it can be read, checked against what Display returns on every value; otherwise what Display returns)", "generator checks/c14_cases.py (SplitMix64, VERIF_SEED)"]
    ck.assumptions += ["string escapes and identifier lexing are opaque (C13)", "malachite prints/parses decimal numbers exactly",
                       "the `pretty` crate only inserts whitespace"]


def replay(ck, path):
    raise_stack_limit()
    obj = json.load(open(path))
    ok = ck.harness(["c14"])
    if not ok:
        return
    ops = harness_primops()
    tables = gen_table(ck, ops)
    exe_model = ck.model("C14.v") if tables is not None else None
    probe_variant(ck)
    if obj.get("source"):
        oracle_on_sources(ck, [("replay", "", obj["source"])], "er", "replay")
    if obj.get("witness_sexp"):
        tie_on_asts(ck, exe_model, [obj["witness_sexp"]], True, "replay-ast")
