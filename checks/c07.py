"""C07 — recursive fields are recomputed after overriding.

Ties (each model is an extracted Coq definition, see coq/Rec/*.v):
  A  dependency analysis: harness bin `c07fv` parses Nickel source with the real parser, converts it to
     the runtime term (`to_mainline`), runs `transform::free_vars::transform` and prints (1) the term
     in the syntax of Rec/FreeVars.v and (2) the `RecordDeps` of every record literal; the extracted
     `all_deps` is run on (1) and compared with (2).  Inputs: a corpus, every .ncl file of /repo, and
     generated programs with colliding names.  The Rust enums are also listed from source and compared
     with the constructors the model covers (fail closed).
  B  overriding mechanism: generated override histories run on the extracted mechanism model I, on the
     extracted specification S and on the real interpreter (nkeval), field by field.
  O  direct oracles on the implementation alone, over a broad generator: merged == textually
     substituted; same outcome with hook H4 (all dependencies unknown); operands keep their values
     after the merge; forcing the operands first does not change the merge result.
"""
import json
import os
import re

from vlib import core
from checks import c07_gen as g

META = {
    "harness_bins": ["c07fv", "nkeval"],
    "extract": "C07.v",
    "technique": "Coq proof: (A) the model of the free-variable analysis of free_vars.rs computes exactly the free variables of an independent inductive specification, so every field dependency is recorded; (B) the model of revertible thunks / revert / saturate / init_cached / merge refines a heap-free late-binding specification (a record = the table of winning definitions) for every override history; both models tied to the Rust code by running the real analysis and the real interpreter on generated programs and histories; direct oracles (merged = textually substituted, same with all dependencies unknown, operands unchanged) on a broad generator",
    "level_text": "Proved in Coq (coq/Props/C07.v, closed under the global context). "
                  "Part A, for every term of a syntax with one constructor per case of free_vars.rs (Var, Fun, Let rec/non-rec, App, Op1/Op2/OpN, arrays, enum variants, string chunks, Annotated, Sealed, Closurize, record values, RecRecord with static / included / dynamic fields, custom contracts, types: atoms, variables, forall, dict, array, arrow, record rows, enum rows with argument types and tails, Contract(term)): "
                  "C07_collect_sound_complete - the model of CollectFreeVars returns exactly the variables that occur free according to an independent inductive specification (record literals bind their static and included names in field values and annotations, not in dynamic field names; include x is an occurrence of the outer x); "
                  "C07_deps_complete_stat/_incl/_dyn and C07_deps_sound_stat - the RecordDeps entry of every static, included and dynamic field contains exactly the recursive fields free in its annotations and value; C07_deps_pre_fix_refuted - the analysis before fix a9a5295 (enum types skipped) violates this on { Ctr = Number, x | [| 'A Ctr |] = 'A 1 }. "
                  "Part B, for flat recursive records of integer expressions (n, x, +, *, if a <= b) with all priority forms, fields without definition, dynamically named fields, contracts that depend on fields (v >= e, v != e with e over the siblings; pending contracts are thunks that are reverted and patched like values), nested record literals (two levels: a field whose definition is a record literal whose bodies mention its own fields and those of the enclosing record), and every override history (literals, merges of any earlier results, re-merging, an operand used several times, the empty record): "
                  "C07_history_fields - no step panics, and after the whole history every field of every step (merge results and operands alike), read through the thunks of the mechanism model, equals - same value or same error class, same fuel - the field of the single specification record obtained by substituting the winning definitions (higher priority wins, equal priorities give the piecewise definition d1 & d2, the contracts of all operands accumulate, each definition keeps the lexical scope of its literal, every name bound late to the same final record); "
                  "C07_nested_history_fields / C07_inst_ok - reading INTO a record-valued field instantiates the literal against the enclosing record instance (a piecewise definition of records instantiates both sides and merges the instances); the inner instance is coherent and its fields equal those of the record the specification assigns to that field of the final record, so an override of an outer field is seen by the inner fields and an inner override by its inner siblings; C07_history_fields_unknown / C07_depsunknown_equiv - the same reads with every dependency unknown (hook H4) on closed histories; C07_override_refines, C07_eval_literal_ok, C07_merge_ok (invariant `coherent`: every revertible thunk of a record instance is cached on its own instance, dependencies known and within the field names, side filters of saturated bodies nested; preserved; abs(merge) ~ smerge(abs, abs)), C07_operands_unchanged, C07_merge_refines, C07_extends_coherent; "
                  "C07_vars_free / C07_cfg_partA_faithful / C07_literal_deps_agree_* - the dependency sets the mechanism uses are those of part A. "
                  "These hold for the code since fix 8192ce0 (BinaryOp::RecordInsert keeps the thunk of a dynamically named field; configuration cfg_fixed, selected by reading operation.rs/closurize.rs) and (C07_history_fields_current) for the code before it on histories without dynamically named fields; C07_dynamic_field_indirection_refuted: the earlier code gave 11 instead of 6 for the dynamically named field of `{b | default = 10, \"%{n}\" = b + 1} & {b = 5}` (the defect this property found; the model reproduced the implementation's 11). "
                  "Teeth: C07_revert_keeps_cache_panics/_refuted/_overwrite_refuted (revert = clone), C07_inplace_revert_refuted, C07_deps_incomplete_refuted/_after_override_refuted. "
                  "Ties: (A) harness c07fv parses source with the real parser, converts it with to_mainline, runs transform::free_vars::transform, prints the real term in the model's syntax (exhaustive matches, a new variant does not compile; the Rust enums are also read from source and compared with the covered constructors) and its RecordDeps; the extracted model is run on that term: corpus, every .ncl file of /repo (stdlib included), generated programs over 5 colliding names, and the operand records of generated override cases (programs that can also be evaluated): model vs Rust, and the Rust tables of the record as written (local binders named like its fields) vs the same record with every let / fun / pattern binder renamed apart; for every field whose table differs the override history that exposes it is synthesised (override exactly the field whose dependency differs, read every field) and judged by the direct oracle, so a wrong table is reported with a concrete failing program. "
                  "(B) generated override histories on the extracted mechanism model (configured as closurize.rs is, read from source), on the extracted specification and on the real interpreter (every field of every step, by value or error class; normal and with hook H4). "
                  "(O) on the implementation alone, structured records with static, nested, piecewise, dynamically named and included fields, dependencies through arithmetic, interpolation, if, arrays, functions, match, inline records, contracts depending on fields, local binders named like the fields in every binder form (let, let rec, multi-binding let, fun, curried fun, record / array / enum patterns in let, fun and match, matches with several guarded arms whose later arms mention the field an earlier arm rebinds), piecewise definitions of 1-2 pieces, dynamically named fields at both levels, operands that are the `..rest` of a record pattern (match / let / fun) applied to a recursive literal whose remaining fields depend on the extracted ones (reference: the remaining fields frozen at their value in the literal, as std.record.remove gives them; a difference that disappears when the rest is built by std.record.remove is the class rest-pattern-not-frozen), 1-3 overriding operands in 7 merge shapes: merged = textually substituted record WITH EVERY BINDER RENAMED APART (no binder can capture a field there; a difference that the substituted record reproduces with its binders as written is reported as a scoping defect) (whole export, and leaf by leaf when some field fails), = the same with all dependencies unknown, operands read after the merge = operands alone, merge after forcing the operands = merge.",
    "level_note": "Trusted: Coq kernel; extraction (ExtrOcamlBasic only); harness bins c07fv and nkeval; the Python generators; the reading of lazy.rs / merge.rs / fixpoint.rs / closurize.rs / eval/mod.rs in coq/Rec/Mech.v (value level: Rc<RefCell> thunks as cells of a list heap; `cached = Some rid` stands for the closure built by init_cached; saturate's explicit function + application is represented by a body that keeps its own dependency filter; constants are standard thunks; the order of fields inside a record and memoisation of evaluated thunks are not modelled - the latter is exercised by the forcing-order variants of the correspondence). "
                  "Partial: the Coq mechanism/specification cover records of integer expressions nested two levels deep (the inner instance is obtained by substituting the outcomes of the enclosing instance's fields, which its immutability justifies; thunk environments are not modelled as such); a record reached through an alias (`b = a` with `a` a record), records inside nested records, and the structural comparison of two records by a contract are reported by the model as outside the fragment and not compared; piecewise paths, includes, strings, arrays, functions and general contract expressions are covered by part A (dependency analysis, all syntax) and by the direct oracles on the implementation, not by the refinement proof. Hook H4 (all dependencies unknown) is dynamic scoping: it equals the normal run only on closed literals (C07_depsunknown_equiv); a nested literal that mentions a field of the enclosing record is not closed, and under H4 a field of that name merged into the nested record later captures the mention, so histories with nested literals are not run under H4 (the broad generator keeps the names of the two levels apart). Known finding (unrepaired at the time of writing, repair in proposed/C07-rest-pattern-freeze.diff): rest-pattern-not-frozen - the rest of a record pattern is built by %record/remove% on the unfrozen matched record, so its fields are reverted by a later merge and recomputed without the extracted field (unbound identifier, or values that follow overrides where std.record.remove's result is frozen). Findings fixed during the build: dynamic-field-not-recomputed (8192ce0, patch kept in proposed/C07-record-insert-keep-revertible-thunk.diff); match-guard-scope (28e04ba, proposed/C07-match-guard-scope.diff: the variables of a guarded match arm stayed in scope in the following arms, so a field defined by such a match read the pattern variable where it named a sibling field and did not follow the overridden sibling - pattern compilation runs before the dependency analysis, so the tables were consistent with the wrongly scoped term and the defect is visible only against the binder-renamed reference).",
}

REPO = core.REPO
# reduced case counts for the mutation sanity runs (None: the tier's counts)
N_OVERRIDE_FV = N_OVERRIDE_HIST = N_OVERRIDE_OV = N_OVERRIDE_FV_OPS = None


def esc(s):
    return s.replace("\\", "\\\\").replace("\n", "\\n")


# --------------------------------------------------------------------------- fail-closed variant lists
# constructors of the Rust syntax that coq/Rec/FreeVars.v models -> the model constructor
COVERED = {
    "Term": {"StrChunks": "Chunks", "Fun": "Fun", "Let": "Let", "App": "App", "Var": "Var", "RecRecord": "RecRec",
             "Closurize": "Closurize", "Op1": "Op1", "Op2": "Op2", "OpN": "OpN", "Sealed": "Sealed",
             "Annotated": "Annot", "Import": "Leaf", "ResolvedImport": "Leaf", "ParseError": "Leaf",
             "RuntimeError": "Leaf"},
    "TypeF": {"Dyn": "TAtom", "Number": "TAtom", "Bool": "TAtom", "String": "TAtom", "Symbol": "TAtom",
              "ForeignId": "TAtom", "Contract": "TContract", "Arrow": "TArrow", "Var": "TVar",
              "Forall": "TForall", "Enum": "TEnum", "Record": "TRecord", "Dict": "TDict", "Array": "TArray",
              "Wildcard": "TAtom"},
    "EnumRowsF": {"Empty": "EREmpty", "Extend": "ERExt", "TailVar": "ERVar"},
    "RecordRowsF": {"Empty": "RREmpty", "Extend": "RRExt", "TailVar": "RRVar", "TailDyn": "RRDyn"},
    "ValueContentRef": {"Null": "Leaf", "Bool": "Leaf", "Number": "Leaf", "Array": "Arr", "Record": "RecVal",
                        "String": "Leaf", "Thunk": "(unreachable before evaluation)", "Term": "tm",
                        "Label": "Leaf", "EnumVariant": "EnumV", "ForeignId": "Leaf", "SealingKey": "Leaf",
                        "CustomContract": "CustomCtr", "Type": "TypeV"},
}
ENUM_FILES = {
    "Term": "core/src/term/mod.rs",
    "TypeF": "parser/src/typ.rs",
    "EnumRowsF": "parser/src/typ.rs",
    "RecordRowsF": "parser/src/typ.rs",
    "ValueContentRef": "core/src/eval/value/mod.rs",
}


def rust_enum_variants(path, name):
    """variants of `pub enum <name>` read from the Rust source (comments and attributes skipped)"""
    src = open(os.path.join(REPO, path), errors="replace").read()
    src = re.sub(r"/\*.*?\*/", " ", src, flags=re.S)
    src = re.sub(r"//[^\n]*", " ", src)
    m = re.search(r"pub enum %s\b[^{;]*\{" % re.escape(name), src)
    if not m:
        return None
    i, depth, body = m.end(), 1, []
    while i < len(src) and depth > 0:
        c = src[i]
        if c in "{([":
            depth += 1
        elif c in "})]":
            depth -= 1
        if depth >= 1:
            body.append(c if depth == 1 and c not in "{([" else " ")
        i += 1
    text = re.sub(r"#", " ", "".join(body))
    out = []
    for part in text.split(","):
        mm = re.match(r"\s*([A-Z][A-Za-z0-9_]*)", part)
        if mm:
            out.append(mm.group(1))
        elif part.strip():
            return None          # something this reader does not understand: fail closed
    return out


def check_variants(ck):
    for enum, path in ENUM_FILES.items():
        vs = rust_enum_variants(path, enum)
        if vs is None:
            ck.obligation("translator:enum %s found in %s" % (enum, path), "translator", False, "enum not found")
            continue
        cov = COVERED[enum]
        new = [v for v in vs if v not in cov]
        gone = [v for v in cov if v not in vs]
        ck.obligation("translator:variants of %s (%s) are the ones the model of free_vars.rs covers" % (enum, path),
                      "translator", not new and not gone,
                      "" if not new and not gone else "new variants %s, vanished variants %s" % (new, gone))
        ck.coverage.setdefault("rust_enum_variants", {})[enum] = vs


# --------------------------------------------------------------------------- part A
def repo_ncl_files():
    out = []
    for root, dirs, files in os.walk(REPO):
        dirs[:] = [d for d in dirs if d not in ("target", ".git", "node_modules")]
        for f in files:
            if f.endswith(".ncl"):
                out.append(os.path.join(root, f))
    return sorted(out)


def part_a(ck, exe_model):
    rng = core.SplitMix64(ck.seed * 1000003 + 701)
    n_gen = N_OVERRIDE_FV or (4000 if ck.tier == "quick" else 120000)
    reqs, kinds = [], []
    for s in g.FV_CORPUS:
        reqs.append(esc(s))
        kinds.append("corpus")
    for p in corpus_lines("fv.case"):
        reqs.append(esc(p))
        kinds.append("corpus")
    for f in repo_ncl_files():
        reqs.append("@file " + f)
        kinds.append("repo-file")
    for _ in range(n_gen):
        reqs.append(esc(g.gen_fv_program(rng.fork())))
        kinds.append("generated")
    rc, impl, err = core.run_sharded(core.harness_bin("c07fv"), [], reqs)
    if rc:
        ck.obligation("correspondence-run:c07fv", "internal", False, "rc=%s %s" % (rc, err[-800:]))
    sx, idx = [], []
    for i, line in enumerate(impl):
        ck.hist("fv_kind", kinds[i])
        if line.startswith("OK\t"):
            parts = line.split("\t")
            sx.append("fv " + parts[1])
            idx.append(i)
        elif line.startswith("P "):
            ck.hist("fv_unparsed", kinds[i])
        else:
            ck.obligation("correspondence:c07fv-dump", "correspondence", False,
                          "the harness could not print a parsed term in the model syntax: %s\nrequest %s" % (line[:300], reqs[i][:300]))
    rc, mod, err = core.run_sharded(exe_model, [], sx)
    if rc:
        ck.obligation("correspondence-run:model-fv", "internal", False, "rc=%s %s" % (rc, err[-800:]))
    nrec = nfield = ndeps = 0
    for j, i in enumerate(idx):
        parts = impl[i].split("\t")
        rust_deps = parts[2] if len(parts) > 2 else ""
        m = mod[j]
        recs = [x for x in rust_deps.split(";") if x]
        nrec += len(recs)
        nontrivial = False
        for r in recs:
            for fd in re.findall(r"\d+:([0-9,?]*)", r):
                nfield += 1
                if fd:
                    ndeps += 1
                    nontrivial = True
        ck.case(key=reqs[i], nontrivial=nontrivial)
        ck.hist("fv_records_per_program", min(len(recs), 10))
        if m != rust_deps:
            # direct oracle: does the dependency table of the implementation make a program misbehave?
            # (a table that differs from the model is a broken correspondence; it is a violation of the
            # property when a field that occurs free is missing, which we can see on the table itself)
            ck.obligation("correspondence:free_vars-model-vs-rust", "correspondence", False,
                          "request %s\nrust  %s\nmodel %s" % (reqs[i][:600], rust_deps[:600], m[:600]))
            ck.coverage.setdefault("fv_disagreements", []).append({"request": reqs[i][:2000], "rust": rust_deps[:2000], "model": m[:2000]})
    ck.coverage["fv_programs"] = len(idx)
    ck.coverage["fv_record_literals"] = nrec
    ck.coverage["fv_fields"] = nfield
    ck.coverage["fv_fields_with_dependencies"] = ndeps
    ck.log("part A: %d programs parsed (%s), %d record literals, %d fields, %d with dependencies" % (
        len(idx), ck.stats.get("fv_kind"), nrec, nfield, ndeps))
    return [(reqs[i], impl[i]) for i in idx[:2]]


def dep_triples(deps, labels):
    """the dependency tables of one c07fv / model answer read back by name: the sorted multiset of
    (field names of the record literal, field, dependency)"""
    names = labels.split(",") if labels else []

    def nm(i):
        return "?" if i == "?" else names[int(i)] if i.isdigit() and int(i) < len(names) else "#" + i
    out = []
    for rec in [x for x in deps.split(";") if x]:
        m = re.match(r"s\[(.*)\]d\[(.*)\]$", rec)
        if not m:
            out.append(("?", rec, "?"))
            continue
        stat = [e.split(":") for e in m.group(1).split(" ") if e]
        key = tuple(sorted(nm(k) for k, _ in stat))
        for k, d in stat:
            out += [(key, nm(k), nm(x)) for x in d.split(",") if x]
        for d in (m.group(2).split(" ") if m.group(2) else []):
            out += [(key, "<dynamically named>", nm(x)) for x in d.split(",") if x]
    return sorted(out)


def multiset_diff(a, b):
    a, b = list(a), list(b)
    for x in list(a):
        if x in b:
            a.remove(x)
            b.remove(x)
    return a, b


def part_a_operands(ck, exe_model, n, focus=None, seed_salt=704):
    """Part A on programs that can also be EVALUATED: the operand records of generated override
    cases.  (1) model vs Rust dependency tables as for every other program; (2) the tables do not change
    when every local binder (let, fun, pattern variable) is renamed apart - as written, binders are
    named like the fields; (3) DESIGN 1.4: for every field whose table differs, the override history
    that exposes it is synthesised (override exactly the sibling whose dependency differs, read every
    field, compare with the substituted record with binders renamed apart) and handed to the direct
    oracle, which reports the concrete violation."""
    rng = core.SplitMix64(ck.seed * 1000003 + seed_salt)
    cases = [g.gen_override(rng.fork(), focus=focus) for _ in range(n)]
    reqs, where = [], []
    for ci, c in enumerate(cases):
        for oi, nm in enumerate(c["names"]):
            reqs.append(esc(c["progs"]["alone:" + nm]))
            where.append((ci, oi, "written"))
            reqs.append(esc(c["renamed_operands"][nm]))
            where.append((ci, oi, "renamed"))
    rc, impl, err = core.run_sharded(core.harness_bin("c07fv"), [], reqs)
    if rc:
        ck.obligation("correspondence-run:c07fv (operands)", "internal", False, "rc=%s %s" % (rc, err[-800:]))
    ok_idx = [i for i, l in enumerate(impl) if l.startswith("OK\t") and where[i][2] == "written"]
    rc, mod, err = core.run_sharded(exe_model, [], ["fv " + impl[i].split("\t")[1] for i in ok_idx])
    if rc:
        ck.obligation("correspondence-run:model-fv (operands)", "internal", False, "rc=%s %s" % (rc, err[-800:]))
    model = dict(zip(ok_idx, mod))
    extra, bad_model, bad_alpha, nops = [], 0, 0, 0
    known_names = set(g.L0) | set(g.L1) | set(g.DYN) | {"w", "u0"}
    # second look at the operands whose table changes under renaming: with only the pattern variables of
    # guarded match arms renamed apart (if that alone gives the table of the fully renamed record, the
    # difference belongs to the class match-guard-scope)
    alpha = [i for i in range(0, len(reqs), 2) if impl[i].startswith("OK\t") and impl[i + 1].startswith("OK\t")
             and dep_triples(impl[i].split("\t")[2], impl[i].split("\t")[4]) != dep_triples(impl[i + 1].split("\t")[2], impl[i + 1].split("\t")[4])]
    rc, gimpl, err = core.run_sharded(core.harness_bin("c07fv"), [], [esc(cases[where[i][0]]["guards_renamed_operands"][cases[where[i][0]]["names"][where[i][1]]]) for i in alpha]) if alpha else (0, [], "")
    guards_only = {}
    for i, l in zip(alpha, gimpl):
        pl = l.split("\t")
        guards_only[i] = l.startswith("OK\t") and dep_triples(pl[2], pl[4]) == dep_triples(impl[i + 1].split("\t")[2], impl[i + 1].split("\t")[4])
    for i in range(0, len(reqs), 2):
        ci, oi, _ = where[i]
        lw, lr = impl[i], impl[i + 1]
        if not (lw.startswith("OK\t") and lr.startswith("OK\t")):
            ck.obligation("correspondence:c07fv-dump (operands)", "correspondence", False,
                          "a generated operand record is not parsed / printed: %s | %s\n%s" % (lw[:200], lr[:200], reqs[i][:600]))
            continue
        nops += 1
        pw, pr = lw.split("\t"), lr.split("\t")
        tw = dep_triples(pw[2], pw[4] if len(pw) > 4 else "")
        tm = dep_triples(model.get(i, ""), pw[4] if len(pw) > 4 else "")
        tr = dep_triples(pr[2], pr[4] if len(pr) > 4 else "")
        ck.case(key=reqs[i], nontrivial=bool(tw))
        suspects, guard_class = [], False
        if tw != tm:
            bad_model += 1
            only_rust, only_model = multiset_diff(tw, tm)
            suspects += only_rust + only_model
            ck.obligation("correspondence:free_vars-model-vs-rust", "correspondence", False,
                          "operand record %s\nonly in the Rust table  (record, field, dependency): %s\nonly in the model table: %s" % (
                              reqs[i][:900], only_rust[:6], only_model[:6]))
            ck.coverage.setdefault("fv_disagreements", []).append({"request": reqs[i][:2000], "rust": pw[2][:1000], "model": model.get(i, "")[:1000]})
        if tw != tr:
            only_w, only_r = multiset_diff(tw, tr)
            suspects += only_w + only_r
            if guards_only.get(i) and tw == tm:
                guard_class = True
                ck.count("dependency_tables_changed_by_the_variables_of_guarded_match_arms")
            else:
                bad_alpha += 1
                ck.obligation("correspondence:free_vars-dependency-tables-invariant-under-renaming-binders-apart", "correspondence", False,
                              "operand record as written %s\nwith binders renamed apart %s\nonly as written (record, field, dependency): %s\nonly renamed: %s" % (
                                  reqs[i][:700], reqs[i + 1][:700], only_w[:6], only_r[:6]))
        first = None
        for x in sorted(set(t[2] for t in suspects if t[2] in known_names)):
            if len(extra) < 60:
                sc = g.synth_override(cases[ci], oi, x)
                if sc:
                    sc["because"] = {"operand": reqs[i], "differing (record, field, dependency)": [list(map(str, t)) for t in suspects[:8]]}
                    extra.append(sc)
                    first = first or sc
        if guard_class:
            # the table itself is evidence of the class (the synthesised history goes to the direct oracle as well)
            ck.violation(GUARD_KEY, GUARD_TEXT, {"operand_as_written": reqs[i], "operand_with_binders_renamed_apart": reqs[i + 1],
                                                 "dependency_tables_differ_in (record, field, dependency)": [list(map(str, t)) for t in suspects[:8]],
                                                 "case": first["progs"] if first else None, "how_to_replay": "./verif check C07 --replay <this file>"})
    ck.coverage["fv_operand_records"] = ck.coverage.get("fv_operand_records", 0) + nops
    ck.log("part A (operands): %d evaluable operand records as written and with binders renamed apart; model differs on %d, renaming changes the table of %d; %d override histories synthesised" % (
        nops, bad_model, bad_alpha, len(extra)))
    return extra, nops, bad_model + bad_alpha


# --------------------------------------------------------------------------- part B
def dyn_wrap_in_source():
    """Which configuration of the mechanism model is the Rust code?  The value of a dynamically
    named field reaches BinaryOp::RecordInsert (operation.rs) as a thunk.  As long as RecordInsert
    closurizes whatever it pops and `Closurize for NickelValue` (closurize.rs) reuses a thunk only
    when it has no dependencies, the revertible thunk is wrapped in a standard thunk (model
    cfg_current, True).  If RecordInsert keeps a popped thunk as it is (the proposed patch), or
    closurize reuses thunks whatever their dependencies, there is no indirection (cfg_fixed, False).
    None: the code has a form this reader does not know (fail closed)."""
    def norm(path):
        src = open(os.path.join(REPO, path), errors="replace").read()
        src = re.sub(r"//[^\n]*", " ", src)
        return re.sub(r"\s+", " ", src)
    clo = norm("core/src/closurize.rs")
    m = re.search(r"ValueContentRef::Thunk\((\w+)\) if (.*?) => \{? ?self\.try_into_thunk\(\)\.unwrap\(\)", clo)
    if not m or "matches!(btype, BindingType::Normal)" not in m.group(2):
        return None
    closurize_wraps = "deps().is_empty()" in m.group(2)
    if not closurize_wraps and m.group(2).strip() != "matches!(btype, BindingType::Normal)":
        return None
    op = norm("core/src/eval/operation.rs")
    i = op.find("if let RecordExtKind::WithValue = ext_kind {")
    j = op.find("record.fields.insert(", i)
    if i < 0 or j < 0:
        return None
    arm = op[i:j]
    plain = re.search(r"let closurized = value_closure \.value \.closurize\(&mut self\.context\.cache, value_closure\.env\);", arm)
    keeps = re.search(r"let closurized = if value_closure\.value\.as_thunk\(\)\.is_some\(\) \{ value_closure\.value \} else \{ value_closure \.value "
                      r"\.closurize\(&mut self\.context\.cache, value_closure\.env\) \};", arm)
    if keeps:
        return False
    if plain:
        return closurize_wraps
    return None


def corpus_lines(name):
    p = os.path.join(core.ROOT, "corpus", "C07", name)
    if not os.path.exists(p):
        return []
    return [l.rstrip("\n") for l in open(p) if l.strip() and not l.startswith("#")]


def parse_model_fields(s):
    """`{0=#1,1=E:MissingDef,2={3=#2}}` -> {0: '#1', 1: 'E:MissingDef', 2: {3: '#2'}} ; 'BAD'/'PANIC' -> str"""
    if not s.startswith("{"):
        return s
    out, i, n = {}, 1, len(s) - 1
    while i < n:
        j = s.index("=", i)
        k = int(s[i:j])
        i = j + 1
        if s[i] == "{":
            depth, e = 0, i
            while True:
                if s[e] == "{":
                    depth += 1
                elif s[e] == "}":
                    depth -= 1
                    if depth == 0:
                        break
                e += 1
            out[k] = parse_model_fields(s[i:e + 1])
            i = e + 2
        else:
            e = s.find(",", i)
            e = n if e < 0 or e > n else e
            out[k] = s[i:e]
            i = e + 1
    return out


def leaves(fs, path=()):
    """(path, value) for every leaf of a parsed record (paths are tuples of field numbers)"""
    for k, v in sorted(fs.items()):
        if isinstance(v, dict):
            if not v:
                yield path + (k,), "{}"
            for x in leaves(v, path + (k,)):
                yield x
        else:
            yield path + (k,), v


def split_steps(s):
    """split `{..}|{..{..}..}|BAD` at the top-level bars"""
    out, depth, cur = [], 0, ""
    for ch in s:
        if ch == "{":
            depth += 1
        elif ch == "}":
            depth -= 1
        if ch == "|" and depth == 0:
            out.append(cur)
            cur = ""
        else:
            cur += ch
    out.append(cur)
    return out


def expect_line(v):
    if v.startswith("#"):
        return "OK " + v
    if v == "E:Blame":
        return "ERR Blame+"
    if v.startswith("E:"):
        return "ERR " + v[2:]
    if v == "FUEL":
        return "ERR InfiniteRec"
    if v == "PANIC":
        return "ERR Panic"
    return "?" + v


def part_b(ck, exe_model):
    rng = core.SplitMix64(ck.seed * 1000003 + 702)
    n = N_OVERRIDE_HIST or (800 if ck.tier == "quick" else 25000)
    hists = []
    for line in corpus_lines("histories.case"):
        hists.append(json.loads(line))
    ncorpus = len(hists)
    for _ in range(n):
        hists.append(g.gen_history(rng.fork()))
    ck.coverage["history_corpus"] = ncorpus
    sx = [g.history_sexp(h) for h in hists]
    wrap = dyn_wrap_in_source()
    ck.obligation("translator:RecordInsert/closurize wrap-or-keep the thunk of a dynamically named field (selects the model configuration)",
                  "translator", wrap is not None,
                  "" if wrap is not None else "BinaryOp::RecordInsert (operation.rs) or the Thunk arm of `Closurize for NickelValue` (closurize.rs) has a form this reader does not know")
    ck.coverage["model_configuration"] = "cfg_current (dynamic field values wrapped)" if wrap else "cfg_fixed (no indirection)"
    code = "hist" if wrap or wrap is None else "histf"
    rc, mod, err = core.run_sharded(exe_model, [], [code + " " + s for s in sx])
    rc2, modu, err2 = core.run_sharded(exe_model, [], [code + "u " + s for s in sx])
    rc3, modf, err3 = core.run_sharded(exe_model, [], ["histf " + s for s in sx])
    if rc or rc2 or rc3:
        ck.obligation("correspondence-run:model-hist", "internal", False, "rc=%s/%s/%s %s %s %s" % (rc, rc2, rc3, err[-500:], err2[-500:], err3[-500:]))
    # requests for the real interpreter
    reqs, meta = [], []       # meta: (history index, kind, expected line)
    for hi, (h, m, mu, mf) in enumerate(zip(hists, mod, modu, modf)):
        if "\t" not in m or "\t" not in mf:
            ck.obligation("model-run", "internal", False, "model output %s for %s" % (m[:200], sx[hi][:300]))
            continue
        i_out, s_out = m.split("\t")
        if_out, _ = mf.split("\t")
        iu_out, _ = mu.split("\t") if "\t" in mu else ("", "")
        has_dyn = "(dyn " in sx[hi]
        ck.case(key=sx[hi], nontrivial=any(s[0] == "merge" for s in h))
        ck.hist("history_steps", len(h))
        ck.hist("history_merges", sum(1 for s in h if s[0] == "merge"))
        ck.hist("history_has_dynamic_field", has_dyn)
        # the theorems history_fields (patched configuration) / history_fields_current (the code as it
        # is, no dynamically named field), executed
        if if_out != s_out:
            ck.obligation("model:I(cfg_fixed)-refines-S (theorem C07_history_fields, executed)", "correspondence", False,
                          "history %s\nI %s\nS %s" % (sx[hi], if_out, s_out))
        if i_out != s_out:
            if has_dyn and wrap:
                # theorem C07_dynamic_field_indirection_refuted: the code as it is departs from the
                # specification on dynamically named fields (reported by the direct oracle below)
                ck.count("histories_where_the_model_of_the_current_code_departs_from_S")
            else:
                ck.obligation("model:I-refines-S (theorem C07_history_fields_current, executed)", "correspondence", False,
                              "history %s\nI %s\nS %s" % (sx[hi], i_out, s_out))
        if iu_out != i_out and "(sub" not in sx[hi]:
            # generated literals are closed (every variable is a field of its literal), where H4 must not matter
            ck.obligation("model:I(H4 deps unknown) = I on closed literals", "correspondence", False,
                          "history %s\nI  %s\nIu %s" % (sx[hi], i_out, iu_out))
        steps = [parse_model_fields(x) for x in split_steps(i_out)]
        prefix = g.history_prefix(h)
        okfields = []
        for si, fs in enumerate(steps):
            if not isinstance(fs, dict):
                ck.obligation("model:no-panic-on-generated-history", "correspondence", False, "%s: %s" % (sx[hi], i_out))
                continue
            for path, v in leaves(fs):
                ck.hist("field_outcome", v if not v.startswith("#") else "Ok" if len(path) == 1 else "Ok (nested)")
                acc = "s%d.%s" % (si, ".".join(g.LET[k] for k in path))
                if v.startswith("#") or v == "{}":
                    okfields.append((si, path, v))
                elif v in ("RECFAIL", "REC", "OPAQUE"):
                    # a record reached through an alias (`b = a` with `a` a record), a record inside a nested
                    # record, two records compared by a contract: outside the modelled fragment
                    ck.count("fields_outside_the_fragment_not_compared")
                    ck.hist("outside_fragment", v)
                else:
                    reqs.append("\t" + esc(prefix + acc))
                    meta.append((hi, "field " + acc, expect_line(v)))
        # one program reading every field predicted to have a value, operands and results alike, in a
        # generated order (operands may be forced before or after the merges that use them)
        order = rng.shuffle(list(range(len(steps))))

        def tree(si):
            t = {}
            for (s2, path, v) in okfields:
                if s2 == si:
                    d = t
                    for k in path[:-1]:
                        d = d.setdefault(g.LET[k], {})
                    d[g.LET[path[-1]]] = ("s%d.%s" % (si, ".".join(g.LET[k] for k in path)), v)
            return t

        def src_of(t):
            return "{ " + ", ".join("%s = %s" % (k, src_of(v) if isinstance(v, dict) else ("{}" if v[1] == "{}" else v[0]))
                                    for k, v in t.items()) + " }" if t else "{}"

        def exp_of(t):
            return "{" + ",".join("\"%s\":%s" % (k, exp_of(v) if isinstance(v, dict) else v[1]) for k, v in sorted(t.items())) + "}"
        body = ["r%d = %s" % (si, src_of(tree(si))) for si in order]
        exp = ["\"r%d\":%s" % (si, exp_of(tree(si))) for si in sorted(range(len(steps)), key=lambda x: "r%d" % x)]
        # hook H4 (all dependencies unknown) must not change anything on closed literals; a nested
        # literal is not closed (it mentions fields of the enclosing record), and with unknown
        # dependencies a field of the same name merged into it later captures that mention: no H4 run
        for fl in ("", "depsunknown") if "(sub" not in sx[hi] else ("",):
            reqs.append(fl + "\t" + esc(prefix + "{ " + ", ".join(body) + " }"))
            meta.append((hi, "all defined fields" + (" (H4)" if fl else ""), "OK {" + ",".join(exp) + "}"))
    rc, impl, err = run_nk(reqs)
    if rc:
        ck.obligation("correspondence-run:nkeval-hist", "internal", False, "rc=%s %s" % (rc, err[-800:]))
    ck.coverage["history_programs_run_on_impl"] = len(reqs)
    bad = 0
    for (hi, kind, exp), got, req in zip(meta, impl, reqs):
        if got == "<missing>":
            continue                      # the run itself failed (reported above)
        if got != exp:
            bad += 1
            h = hists[hi]
            classify_history_mismatch(ck, h, sx[hi], kind, exp, got, req)
    ck.log("part B: %d histories (%d corpus), %d programs on the implementation, %d mismatches; field outcomes %s" % (
        len(hists), ncorpus, len(reqs), bad, ck.stats.get("field_outcome")))
    return [{"history": sx[0], "model(I\\tS)": mod[0] if mod else "", "program": g.history_prefix(hists[0])}] if hists else []


def classify_history_mismatch(ck, h, sx, kind, exp, got, req):
    """The model and the implementation disagree on a history.  The property is violated on the
    implementation when an operand read after the merges differs from the same literal evaluated on
    its own, or when a merge result differs from ... the specification; the latter needs the model,
    so we report it as a broken correspondence unless the direct check on operands fails."""
    detail = "history %s\n%s\nexpected %s\ngot      %s\nrequest  %s" % (sx, kind, exp, got, req[:1500])
    if got.startswith("ERR Panic") or got.startswith("ERR UnboundId") or got.startswith("ERR Internal"):
        # an unbound identifier / panic on a closed, statically checked program is the property failing
        ck.violation("history:" + got.split()[1], "override history: the implementation fails with %s where the specification gives %s" % (got, exp),
                     {"history": h, "sexp": sx, "what_differs": kind, "expected": exp, "got": got, "request": req,
                      "how_to_replay": "./verif check C07 --replay <this file>"})
        return
    ck.obligation("correspondence:override-model-vs-rust", "correspondence", False, detail)
    ck.coverage.setdefault("history_disagreements", []).append({"history": h, "kind": kind, "expected": exp, "got": got})


# --------------------------------------------------------------------------- direct oracles
def same_outcome(a, b):
    if a.startswith("OK") or b.startswith("OK"):
        return a == b
    return a == b


def crash(a):
    return a.startswith("ERR Panic") or a.startswith("ERR Internal") or a.startswith("ERR UnboundId")


def run_nk(reqs, batch=24000):
    """the implementation on a list of requests, in batches (a shard must finish within its timeout)"""
    rc, out, err = 0, [], ""
    for i in range(0, len(reqs), batch):
        r, o, e = core.run_sharded(core.harness_bin("nkeval"), [], reqs[i:i + batch], timeout=3000)
        rc = rc or r
        out += o
        err += e
    return rc, out, err


GUARD_KEY = "match-guard-scope"
GUARD_TEXT = ("the pattern variables of a guarded match arm stay in scope in the following arms (pattern/compile.rs puts the failure "
              "continuation inside the let that binds them): a field defined by such a match reads the pattern variable where it names a "
              "sibling field, and does not follow the sibling: `({b | default = 5, a = 1 |> match { b if b > 3 => 0, _ => b }} & {b = 7}).a` gives 1")


REST_KEY = "rest-pattern-not-frozen"
REST_TEXT = ("the `..rest` of a record pattern is built with %record/remove% on the matched record as it is (pattern/compile.rs), not on a frozen "
             "copy as std.record.remove does: the remaining fields keep their live dependencies on the extracted fields, so a later merge reverts "
             "them and recomputes them where the extracted field no longer exists: `({e = 1} & ({a = 1, d = a} |> match { {a = v, ..rest} => rest })).d` "
             "fails with unbound identifier `a` (1 without the merge), and fields that only depend on remaining fields follow later overrides "
             "although the rest built by std.record.remove is frozen")


def oracles(ck, extra_cases=()):
    rng = core.SplitMix64(ck.seed * 1000003 + 703)
    n = N_OVERRIDE_OV or (800 if ck.tier == "quick" else 25000)
    cases = []
    for (a, b) in g.OV_CORPUS:
        cases.append({"shape": "corpus", "nops": 1, "features": ["corpus"], "progs": {"merged": a, "subst": b},
                      "lets": None, "paths": None})
    for line in corpus_lines("overrides.case"):
        o = json.loads(line)
        cases.append({"shape": "corpus", "nops": 1, "features": ["corpus"], "progs": {"merged": o["merged"], "subst": o["subst"]},
                      "lets": None, "paths": o.get("paths"), "variants": o.get("variants"), "rest_operands": o.get("rest_operands")})
    cases += list(extra_cases)
    ncorpus = len(cases)
    for _ in range(n):
        cases.append(g.gen_override(rng.fork()))
    mism = []           # differences merged / substituted, classified in phase 3
    # ---- phase 1
    reqs, where = [], []
    for ci, c in enumerate(cases):
        # thorough tier: the operands-on-their-own / forcing-order programs for one case in three
        light = ck.tier == "thorough" and ci >= ncorpus and ci % 3 != 0
        for name, prog in c["progs"].items():
            if light and name.startswith("alone:"):
                continue
            reqs.append("\t" + esc(prog))
            where.append((ci, name))
        reqs.append("depsunknown\t" + esc(c["progs"]["merged"]))
        where.append((ci, "merged-H4"))
    rc, out, err = run_nk(reqs)
    if rc:
        ck.obligation("oracle-run:phase1", "internal", False, "rc=%s %s" % (rc, err[-800:]))
    res = [dict() for _ in cases]
    for (ci, name), o in zip(where, out):
        res[ci][name] = o
    # ---- phase 2: per-leaf comparison where the whole record does not export, operands after merge
    reqs2, where2 = [], []
    for ci, (c, r) in enumerate(zip(cases, res)):
        ck.case(key=c["progs"]["merged"], nontrivial=True)
        ck.hist("override_shape", c["shape"])
        ck.hist("override_operands", c["nops"])
        for f in c["features"]:
            ck.hist("override_features", f)
        m, s, u = r.get("merged", "<missing>"), r.get("subst", "<missing>"), r.get("merged-H4", "<missing>")
        if "<missing>" in (m, s, u):
            continue                      # the run itself failed (reported above)
        ck.hist("merged_outcome", "OK" if m.startswith("OK") else m.split()[1] if len(m.split()) > 1 else m)
        # (a case with the rest of a record pattern: a failure of the merged program alone is classified in phase 3)
        rest_case = bool(c.get("rest_operands")) and not crash(s)
        for o in (m, s, u):
            if crash(o) and not rest_case:
                ck.violation("oracle:crash:" + o.split()[1] if len(o.split()) > 1 else "oracle:crash",
                             "an override sequence fails with %s" % o,
                             {"case": c["progs"], "outcomes": r, "how_to_replay": "./verif check C07 --replay <this file>"})
        if m != s or m != u:
            if m.startswith("OK") and s.startswith("OK") and u.startswith("OK"):
                # everything exports: the values must be equal
                if m == u and only_dynamic_fields_differ(m, s):
                    ck.count("dynamic_field_stale_cases")
                    mism.append({"ci": ci, "path": None, "m": m, "s": s, "key": DYN_KEY, "text": DYN_TEXT,
                                 "obj": {"case": c["progs"], "outcomes": r, "how_to_replay": "./verif check C07 --replay <this file>"}})
                    continue
                obj = {"case": c["progs"], "outcomes": r, "shape": c["shape"], "how_to_replay": "./verif check C07 --replay <this file>"}
                if c.get("because"):
                    obj["synthesised_because_the_dependency_tables_differ"] = c["because"]
                    obj["overridden_field"] = c.get("overridden")
                if m != s:
                    mism.append({"ci": ci, "path": None, "m": m, "s": s, "key": "oracle:subst:" + c["shape"], "obj": obj,
                                 "text": "R & P1 & ... differs from the record with the winning definitions substituted: %s vs %s" % (m[:120], s[:120])})
                if m != u and not (rest_case and m != s):
                    ck.violation("oracle:depsunknown:" + c["shape"],
                                 "R & P1 & ... differs from the same program with all field dependencies unknown (H4)", obj)
                continue
        if not (m.startswith("OK") and s.startswith("OK") and u.startswith("OK")) and c.get("paths"):
            # some field fails: compare field by field (each leaf path on its own)
            for p in c["paths"]:
                for name, fl in (("merged", ""), ("subst", ""), ("merged", "depsunknown")):
                    reqs2.append("%sfield=%s\t%s" % (fl + "," if fl else "", p, esc(c["progs"][name])))
                    where2.append((ci, "leaf", p, name + ("-H4" if fl else "")))
        elif not (m.startswith("OK") and s.startswith("OK") and u.startswith("OK")):
            if (m.startswith("OK") != s.startswith("OK")) or (m.startswith("OK") != u.startswith("OK")):
                mism.append({"ci": ci, "path": None, "m": m, "s": s, "key": "oracle:subst:corpus", "obj": {"case": c["progs"], "outcomes": r},
                             "text": "corpus override: merged %s, substituted %s, H4 %s" % (m[:80], s[:80], u[:80])})
        if c.get("lets") and "alone:o0" in r:
            ok_ops = [nm for nm in c["names"] if r.get("alone:" + nm, "").startswith("OK")]
            ck.hist("operands_exportable_alone", len(ok_ops))
            if ok_ops:
                reqs2.append("\t" + esc(g.merged_after_operands(c, ok_ops)))
                where2.append((ci, "forced-first", tuple(ok_ops), None))
                if m.startswith("OK"):
                    reqs2.append("\t" + esc(g.operands_after(c, ok_ops)))
                    where2.append((ci, "operands-after", tuple(ok_ops), None))
    rc, out2, err = run_nk(reqs2)
    if rc:
        ck.obligation("oracle-run:phase2", "internal", False, "rc=%s %s" % (rc, err[-800:]))
    leaf = {}
    for (ci, kind, a, b), o, rq in zip(where2, out2, reqs2):
        c, r = cases[ci], res[ci]
        if o == "<missing>" or "<missing>" in r.values():
            continue                      # the run itself failed (reported above)
        if kind == "leaf":
            leaf.setdefault((ci, a), {})[b] = o
        elif kind == "forced-first":
            ck.count("oracle_forced_first_checks")
            if o != r["merged"]:
                ck.violation("oracle:forced-first:" + c["shape"],
                             "forcing the operands before merging changes the result: %s vs %s" % (o[:100], r["merged"][:100]),
                             {"case": c["progs"], "program": rq, "outcome": o, "merged": r["merged"], "forced_operands": list(a),
                              "how_to_replay": "./verif check C07 --replay <this file>"})
        elif kind == "operands-after":
            ck.count("oracle_operands_after_checks")
            exp = "OK {" + ",".join("\"r%s\":%s" % (nm, r["alone:" + nm][3:]) for nm in sorted(a)) + "}"
            if o != exp:
                ck.violation("oracle:operands-after:" + c["shape"],
                             "operands read after the merge differ from the operands evaluated on their own",
                             {"case": c["progs"], "program": rq, "outcome": o, "expected": exp,
                              "how_to_replay": "./verif check C07 --replay <this file>"})
    for (ci, p), d in leaf.items():
        ck.count("oracle_leaf_checks")
        c = cases[ci]
        m, s, u = d.get("merged"), d.get("subst"), d.get("merged-H4")
        rest_case = bool(c.get("rest_operands")) and not crash(s or "")
        for o in (m, s, u):
            if o and crash(o) and not rest_case:
                ck.violation("oracle:crash:" + o.split()[1], "field %s of an override sequence fails with %s" % (p, o),
                             {"case": c["progs"], "field": p, "outcomes": d})
        if m != s:
            if leaf_equiv(m, s):
                ck.count("oracle_leaf_error_class_differs_only")
                continue
            if p.split(".")[-1] in g.DYN and m == u:
                ck.count("dynamic_field_stale_cases")
                mism.append({"ci": ci, "path": p, "m": m, "s": s, "key": DYN_KEY, "text": DYN_TEXT,
                             "obj": {"case": c["progs"], "field": p, "outcomes": d, "how_to_replay": "./verif check C07 --replay <this file>"}})
                continue
            obj = {"case": c["progs"], "field": p, "outcomes": d, "how_to_replay": "./verif check C07 --replay <this file>"}
            if c.get("because"):
                obj["synthesised_because_the_dependency_tables_differ"] = c["because"]
                obj["overridden_field"] = c.get("overridden")
            mism.append({"ci": ci, "path": p, "m": m, "s": s, "key": "oracle:subst-leaf:" + c["shape"], "obj": obj,
                         "text": "field %s: R & P1 & ... gives %s, the substituted record gives %s" % (p, (m or "")[:80], (s or "")[:80])})
        if m != u and not (diverges(m or "") and diverges(u or "")) and not (rest_case and m != s):
            ck.violation("oracle:depsunknown-leaf:" + c["shape"],
                         "field %s: %s normally, %s with all dependencies unknown" % (p, (m or "")[:80], (u or "")[:80]),
                         {"case": c["progs"], "field": p, "outcomes": d, "how_to_replay": "./verif check C07 --replay <this file>"})
    # ---- phase 3: what kind of difference?  The substituted record once more with its binders as written
    # (no merge involved: if it reproduces the merged outcome, a binder captured a field name) and with
    # only the pattern variables of guarded match arms renamed apart
    reqs3, where3 = [], []
    for mi, x in enumerate(mism):
        for vn, prog in (cases[x["ci"]].get("variants") or {}).items():
            reqs3.append(("field=%s" % x["path"] if x["path"] else "") + "\t" + esc(prog))
            where3.append((mi, vn))
    rc, out3, err = run_nk(reqs3) if reqs3 else (0, [], "")
    if rc:
        ck.obligation("oracle-run:phase3", "internal", False, "rc=%s %s" % (rc, err[-800:]))
    var = {}
    for (mi, vn), o in zip(where3, out3):
        var.setdefault(mi, {})[vn] = o
    same = lambda a, b: a is not None and b is not None and (a == b or (not a.startswith("OK") and leaf_equiv(a, b)))
    for mi, x in enumerate(mism):
        v = var.get(mi, {})
        sw, sg = v.get("subst-as-written"), v.get("subst-guards-renamed")
        x["obj"]["substituted_with_binders_as_written"] = sw
        x["obj"]["substituted_with_guarded_arm_variables_renamed"] = sg
        st = v.get("merged-with-the-rest-built-by-std.record.remove")
        x["obj"]["merged_with_the_rest_built_by_std_record_remove"] = st
        if st is not None and same(st, x["s"]) and not same(x["m"], x["s"]):
            ck.count("rest_pattern_not_frozen_cases")
            ck.violation(REST_KEY, REST_TEXT, x["obj"])
        elif same(x["m"], sw) and same(x["s"], sg) and not same(sw, sg):
            ck.count("match_guard_scope_cases")
            ck.violation(GUARD_KEY, GUARD_TEXT, x["obj"])
        elif same(x["m"], sw) and not same(x["s"], sw):
            ck.violation("oracle:binder-capture:" + cases[x["ci"]]["shape"],
                         "a local binder named like a field changes the outcome (no merge involved): the substituted record gives %s as written and %s with its binders renamed apart" % (
                             (sw or "")[:100], x["s"][:100]), x["obj"])
        else:
            ck.violation(x["key"], x["text"], x["obj"])
    ck.coverage["override_corpus"] = ncorpus
    ck.coverage["override_programs_run_on_impl"] = len(reqs) + len(reqs2) + len(reqs3)
    ck.log("oracles: %d override sequences (%d corpus), %d programs; shapes %s; merged outcomes %s" % (
        len(cases), ncorpus, len(reqs) + len(reqs2), ck.stats.get("override_shape"), ck.stats.get("merged_outcome")))
    ck.log("oracles: features %s" % ck.stats.get("override_features"))
    ck.log("oracles: leaf checks %s, forced-first %s, operands-after %s" % (
        ck.stats.get("oracle_leaf_checks"), ck.stats.get("oracle_forced_first_checks"), ck.stats.get("oracle_operands_after_checks")))
    return [{"merged": cases[ncorpus]["progs"]["merged"], "subst": cases[ncorpus]["progs"]["subst"], "outcome": res[ncorpus].get("merged")}] if len(cases) > ncorpus else []


def top_fields(tree):
    """`OK {"a":#1,"m":{"p":#2}}` -> {"a": "#1", "m": "{...}"} (None when it is not a record)"""
    if not tree.startswith("OK {") or not tree.endswith("}"):
        return None
    body, out, i, n = tree[4:-1], {}, 0, len(tree) - 5
    while i < n:
        if body[i] != '"':
            return None
        j = body.index('"', i + 1)
        key = body[i + 1:j]
        i = j + 2                       # skip `":`
        depth, k, instr = 0, i, False
        while k < n:
            c = body[k]
            if instr:
                if c == "\\":
                    k += 1
                elif c == '"':
                    instr = False
            elif c == '"':
                instr = True
            elif c in "{[(":
                depth += 1
            elif c in "}])":
                depth -= 1
            elif c == "," and depth == 0:
                break
            k += 1
        out[key] = body[i:k]
        i = k + 1
    return out


def only_dynamic_fields_differ(a, b):
    fa, fb = top_fields(a), top_fields(b)
    if fa is None or fb is None or set(fa) != set(fb):
        return False
    diff = [k for k in fa if fa[k] != fb[k]]
    return bool(diff) and all(k in g.DYN for k in diff)


DYN_KEY = "dynamic-field-not-recomputed"
DYN_TEXT = ("a dynamically named field that depends on a sibling field keeps the value computed in the operand after the sibling is "
            "overridden: `let n = \"y\" in {b | default = 10, \"%{n}\" = b + 1} & {b = 5}` gives y = 11 (the statically named y gives 6)")


def diverges(a):
    return a.startswith("ERR InfiniteRec") or a.startswith("ERR Budget")


def leaf_equiv(a, b):
    """both fail: `v1 & v2` written in one field and the merge of two fields may report a different
    first error (contract blame vs unmergeable values); a success must be matched exactly"""
    if a is None or b is None:
        return False
    if a.startswith("OK") or b.startswith("OK"):
        return a == b
    ca, cb = a.split()[1].rstrip("+-"), b.split()[1].rstrip("+-")
    soft = {"Blame", "NonMergeable", "MissingDef", "InfiniteRec", "TypeErr", "Budget", "FieldMissing"}
    return ca == cb or (ca in soft and cb in soft)


# --------------------------------------------------------------------------- entry points
def run(ck):
    ck.coq("Props.C07", clean=False)
    check_variants(ck)
    ok = ck.harness(["c07fv", "nkeval"])
    exe = ck.model("C07.v")
    if not ok or not exe:
        return
    s1 = part_a(ck, exe)
    nfv = len(ck.coverage.get("fv_disagreements", []))
    extra, nops, nbad = part_a_operands(ck, exe, N_OVERRIDE_FV_OPS or (500 if ck.tier == "quick" else 12000))
    if (nfv or nbad) and not extra or (nfv and not nbad):
        # DESIGN 1.4 (c): a dependency table is wrong somewhere, but not (yet) on a program that can be
        # evaluated: a larger budget of the sub-stream around binders that collide with field names
        ck.log("search: dependency tables differ; focused search on evaluable records")
        extra2, nops2, nbad2 = part_a_operands(ck, exe, 4 * (N_OVERRIDE_FV_OPS or (500 if ck.tier == "quick" else 12000)), focus=True, seed_salt=705)
        extra += extra2
        nbad += nbad2
    if not nbad:
        ck.obligation("correspondence:free_vars-model-vs-rust and invariance of the dependency tables under renaming binders apart, on %d evaluable operand records" % nops,
                      "correspondence", True)
    s2 = part_b(ck, exe)
    s3 = oracles(ck, extra)
    for s in s1:
        ck.sample({"fv_request": s[0][:300], "fv_answer": s[1][:600]})
    for s in s2 + s3:
        ck.sample(s)
    ck.coverage["rule"] = ("A: corpus + every .ncl file of /repo + generated programs over a pool of 5 names (all binders, record forms, "
                           "type forms); non-trivial = some field has a dependency.  B: histories of 2-4 literals over <= 5 field names "
                           "(all priority forms, valueless fields, one literal in five with a dynamically named field, one field in six a nested record literal, one field in four with "
                           "1-2 comparison contracts whose bound mentions siblings, bodies of depth <= 3 referring mostly to lower-numbered "
                           "names so that one history in ~7 is cyclic) and 1-4 merges of earlier steps (re-merging, same operand twice, empty "
                           "record); histories whose worst-case evaluation cost on the non-memoising extracted evaluators exceeds 5e6 steps "
                           "are discarded (~17%, cyclic ones with long bodies); every field of every step is compared (values in one program "
                           "with a generated forcing order, failing fields one program each; the whole program also with hook H4).  "
                           "O: structured records with static / nested / piecewise (1-2 pieces) / dynamic (both levels) / included fields, typed names and one global "
                           "reference order (1 reference in 60 against it), 1-3 overriding operands with rising priorities, 7 merge shapes; one expression node in ~4 "
                           "is a binder form or a guarded match whose binders are named like visible fields (2 in 3, preferably a field the same definition already "
                           "mentions); one case in 3 from the focused sub-stream (binder forms 1 in 2, piecewise 1 in 2, dynamic 1 in 2); the same operand records go "
                           "through part A as written and renamed.")
    ck.coverage["partial"] = ("refinement proof for records of integer expressions nested two levels deep (with priorities, valueless and "
                              "dynamically named fields, comparison contracts depending on fields, known or unknown dependencies); record aliases, "
                              "deeper nesting, piecewise paths, included fields, strings, arrays, functions, general contracts: dependency analysis "
                              "proved for the whole syntax, overriding behaviour checked by the direct oracles only")
    ck.trusted += ["extraction: ExtrOcamlBasic only", "harness bins c07fv (prints real terms and RecordDeps), nkeval",
                   "generators checks/c07_gen.py (SplitMix64, VERIF_SEED)", "hooks: H1 (fuel), H4 (deps unknown)"]


def replay(ck, path):
    obj = json.load(open(path))
    if not ck.harness(["c07fv", "nkeval"]):
        return
    progs = obj.get("case") if isinstance(obj.get("case"), dict) else None
    if progs:
        reqs = ["\t" + esc(progs["merged"]), "\t" + esc(progs["subst"]), "depsunknown\t" + esc(progs["merged"])]
        if obj.get("field"):
            reqs = ["field=%s%s" % (obj["field"], r) if r.startswith("\t") else r.replace("\t", ",field=%s\t" % obj["field"], 1) for r in reqs]
        rc, out, err = run_nk(reqs)
        ck.log("merged      ", out[0])
        ck.log("substituted ", out[1])
        ck.log("merged (H4) ", out[2])
        ck.case(key=path)
        if not (leaf_equiv(out[0], out[1]) and out[0] == out[2]):
            ck.violation(obj.get("key", "replay"), "replayed: merged %s / substituted %s / H4 %s" % (out[0][:80], out[1][:80], out[2][:80]), obj)
    elif obj.get("request"):
        rc, out, err = run_nk([obj["request"]])
        ck.log("outcome", out[0], "expected", obj.get("expected"))
        ck.case(key=path)
        if out[0] != obj.get("expected"):
            ck.violation(obj.get("key", "replay"), "replayed: %s, expected %s" % (out[0][:80], obj.get("expected")), obj)
