"""C01 / T0 translators: the static primop type table and the dynamic primop x operand-kind table,
both obtained from the *running* code of /repo (harness bin c01), written to coq/Gen/*.v.

Static side : for every arm of `impl Display for PrimOp` (parser/src/ast/primop.rs; the match is
              exhaustive over the enum, so the arms enumerate every primitive operation), the
              program `fun a0 .. an => <op applied to a0 .. an>` is run through the real
              typechecker in typed mode and the resolved types of a0..an and of the PrimOpApp node
              are read back (this is `PrimOpType::primop_type`, observed through the public
              `typecheck_visit` API, so no hook H6 is needed).
Dynamic side: every primop is run by the real interpreter on representatives of every run-time kind
              in every argument position.
"""
import os
import re
from vlib import core

KINDS = ["KNum", "KStr", "KBool", "KNull", "KArr", "KRec", "KFun", "KTag", "KVariant", "KLabel", "KType", "KCustom"]

# default representatives (used where the static type says nothing about the position)
DEFAULT_REPS = {
    "KNum": ["1", "0"],
    "KStr": ['"a"', '""'],
    "KBool": ["true", "false"],
    "KNull": ["null"],
    "KArr": ["[1]", "[]"],
    "KRec": ["{a = 1}", "{}"],
    "KFun": ["(fun x => x)"],
    "KTag": ["'Foo"],
    "KVariant": ["('Foo 1)"],
    "KLabel": ["LBL"],
    "KType": ["Number"],
    "KCustom": ["(%contract/custom% (fun l v => 'Ok v))"],
}

INFIX = {"(+)": "+", "(-)": "-", "(*)": "*", "(/)": "/", "(%)": "%", "(==)": "==", "(<)": "<", "(<=)": "<=",
         "(>)": ">", "(>=)": ">=", "(@)": "@", "(&)": "&", "(&&)": "&&", "(||)": "||"}
# spelled differently from %<display name>%
SPECIAL = {"string/concat": lambda a: "%s ++ %s" % (a[0], a[1]),
           "record/access": lambda a: "%s.foo" % a[0],
           "enum/embed": lambda a: "%%enum/embed%% foo %s" % a[0],
           "bool/not": lambda a: "!%s" % a[0],
           "record/get": lambda a: "(.) %s %s" % (a[1], a[0])}
# primops that cannot be written in source at all (explained, not open obligations)
UNSPELLABLE = {"eval_nix": "feature nix-experimental is off in the harness build"}


class TranslatorError(Exception):
    pass


# ------------------------------------------------------------------ reading the source (fail closed)

def read_primops():
    """[(display_name, arity)] from parser/src/ast/primop.rs."""
    src = open(os.path.join(core.REPO, "parser/src/ast/primop.rs")).read()
    m = re.search(r"pub enum PrimOp \{(.*?)\n\}", src, re.S)
    if not m:
        raise TranslatorError("enum PrimOp not found")
    body = re.sub(r"///[^\n]*", "", m.group(1))
    body = re.sub(r"//[^\n]*", "", body)
    body = re.sub(r"#\[[^\]]*\]", "", body)
    variants = []
    for part in split_top(body, ","):
        part = part.strip()
        if not part:
            continue
        vm = re.match(r"^([A-Z][A-Za-z0-9]*)\s*(\(.*\)|\{.*\})?$", part, re.S)
        if not vm:
            raise TranslatorError("unreadable PrimOp variant: %r" % part[:80])
        variants.append(vm.group(1))
    # Display arms
    m = re.search(r"impl fmt::Display for PrimOp \{.*?match self \{(.*?)\n        \}\n    \}\n\}", src, re.S)
    if not m:
        raise TranslatorError("Display impl of PrimOp not found")
    arms = []
    text = re.sub(r"#\[[^\]]*\]", "", m.group(1))
    text = re.sub(r"//[^\n]*", "", text)
    pos = 0
    arm_re = re.compile(r"\s*((?:Self::)?[A-Z][A-Za-z0-9]*)\s*(\([^)]*\)|\{[^}]*\})?\s*=>\s*(?:\{\s*)?write!\(f,\s*\"([^\"]*)\"\)\s*(?:\})?\s*,?", re.S)
    while pos < len(text):
        if not text[pos:].strip():
            break
        am = arm_re.match(text, pos)
        if not am:
            raise TranslatorError("unreadable Display arm near: %r" % text[pos:pos + 100])
        arms.append((am.group(1).replace("Self::", ""), am.group(3)))
        pos = am.end()
    seen = {v for v, _ in arms}
    missing = [v for v in variants if v not in seen]
    if missing:
        raise TranslatorError("PrimOp variants without a Display arm: %s" % missing)
    # arity()
    m = re.search(r"pub fn arity\(&self\) -> usize \{.*?match self \{(.*?)\n        \}\n    \}", src, re.S)
    if not m:
        raise TranslatorError("PrimOp::arity not found")
    text = re.sub(r"#\[[^\]]*\]", "", m.group(1))
    arity = {}
    for am in re.finditer(r"((?:\s*\|?\s*(?:Self::)?[A-Z][A-Za-z0-9]*\s*(?:\([^)]*\)|\{[^}]*\})?)+)\s*=>\s*(\d+)\s*,", text):
        for v in re.findall(r"(?:Self::)?([A-Z][A-Za-z0-9]*)\s*(?:\([^)]*\)|\{[^}]*\})?", am.group(1)):
            arity[v] = int(am.group(2))
    out = []
    for v, name in arms:
        if v not in arity:
            raise TranslatorError("no arity for PrimOp::%s" % v)
        out.append((name, arity[v], v))
    lex = open(os.path.join(core.REPO, "parser/src/lexer.rs")).read()
    tokens = set(re.findall(r'#\[token\("%([^"]+)%"\)\]', lex))
    return out, tokens


def split_top(s, sep):
    out, depth, cur = [], 0, ""
    for c in s:
        if c in "({[":
            depth += 1
        elif c in ")}]":
            depth -= 1
        if c == sep and depth == 0:
            out.append(cur)
            cur = ""
        else:
            cur += c
    out.append(cur)
    return out


def spell(name, args, tokens):
    """Nickel source applying primop `name` to the argument texts, or None."""
    if name in INFIX:
        return "%s %s %s" % (args[0], INFIX[name], args[1]) if len(args) == 2 else None
    if name in SPECIAL:
        try:
            return SPECIAL[name](args)
        except IndexError:
            return None
    if name in tokens:
        return "%%%s%% %s" % (name, " ".join(args))
    return None


# ------------------------------------------------------------------ s-expressions of the harness

def parse_sexps(s):
    """Parse a sequence of s-expressions (atoms, "strings", lists)."""
    pos = 0
    n = len(s)

    def skip():
        nonlocal pos
        while pos < n and s[pos] in " \t":
            pos += 1

    def one():
        nonlocal pos
        skip()
        if s[pos] == "(":
            pos += 1
            items = []
            while True:
                skip()
                if s[pos] == ")":
                    pos += 1
                    return items
                items.append(one())
        if s[pos] == '"':
            j = pos + 1
            buf = ""
            while s[j] != '"':
                if s[j] == "\\":
                    buf += s[j + 1]
                    j += 2
                else:
                    buf += s[j]
                    j += 1
            pos = j + 1
            return ("str", buf)
        j = pos
        while j < n and s[j] not in " \t()":
            j += 1
        tok = s[pos:j]
        pos = j
        return tok

    out = []
    while True:
        skip()
        if pos >= n:
            return out
        out.append(one())


def parse_tc(line):
    """-> (ok, terms=[(s,e,kind,ty)], idents=[(s,e,name,ty)]) with ty as nested python lists."""
    if not line.startswith("OK "):
        return False, [], []
    rest = line[3:]
    rest = rest.split(" ", 1)[1] if " " in rest else ""
    left, _, right = rest.partition(" |")
    terms = [(int(x[0]), int(x[1]), x[2], x[3]) for x in parse_sexps(left)]
    idents = [(int(x[1]), int(x[2]), x[3][1], x[4]) for x in parse_sexps(right)]
    return True, terms, idents


# ------------------------------------------------------------------ static table

def coq_str(s):
    return '"' + s.replace('"', '""') + '"'


def sty_coq(t):
    if isinstance(t, str):
        return {"dyn": "SDyn", "num": "SNum", "bool": "SBool", "str": "SStr", "sym": "SSym", "foreign": "SForeign"}[t]
    h = t[0]
    if h == "contract":
        return "SContract"
    if h == "wild":
        return "SWild"
    if h == "var":
        return "(SVar %s)" % coq_str(t[1][1])
    if h == "arr":
        return "(SArr %s)" % sty_coq(t[1])
    if h == "fun":
        return "(SFun %s %s)" % (sty_coq(t[1]), sty_coq(t[2]))
    if h == "dict":
        return "(SDict %s)" % sty_coq(t[2])
    if h == "forall":
        return "(SForall %s %s)" % (coq_str(t[1][1]), sty_coq(t[3]))
    if h == "rec":
        rows = "; ".join("(%s, %s)" % (coq_str(r[0][1]), sty_coq(r[1])) for r in t[1])
        return "(SRec [%s] %s)" % (rows, tail_coq(t[2]))
    if h == "enum":
        rows = "; ".join("(%s, %s)" % (coq_str(r[0][1]), ("Some %s" % sty_coq(r[1])) if len(r) > 1 else "None") for r in t[1])
        return "(SEnum [%s] %s)" % (rows, tail_coq(t[2]))
    raise TranslatorError("unknown type s-expression %r" % (t,))


def tail_coq(t):
    if t == "closed":
        return "TClosed"
    if t == "dyn":
        return "TDynTail"
    return "(TVarTail %s)" % coq_str(t[1][1])


def inhabits(k, t):
    """Python mirror of SigDefs.inhabits (only used to decide which vectors to *run*; the theorem
    uses the Coq definition and fails closed on a missing row)."""
    if isinstance(t, str):
        return {"dyn": True, "num": k == "KNum", "bool": k == "KBool", "str": k == "KStr", "sym": False, "foreign": False}[t]
    h = t[0]
    if h in ("contract", "wild", "var"):
        return True
    if h == "arr":
        return k == "KArr"
    if h == "fun":
        return k == "KFun"
    if h in ("dict", "rec"):
        return k == "KRec"
    if h == "forall":
        return inhabits(k, t[3])
    if h == "enum":
        bare = any(len(r) == 1 for r in t[1])
        arg = any(len(r) > 1 for r in t[1])
        op = t[2] != "closed"
        return (k == "KTag" and (bare or op)) or (k == "KVariant" and (arg or op))
    raise TranslatorError("inhabits: %r" % (t,))


def reps_for(k, t, depth=0):
    """Source texts of kind k that inhabit static type t (type-directed), or the default ones."""
    if not inhabits(k, t) or isinstance(t, str) and t == "dyn" or (not isinstance(t, str) and t[0] in ("contract", "wild", "var")):
        return DEFAULT_REPS[k]
    if isinstance(t, str):
        return DEFAULT_REPS[k]
    h = t[0]
    if h == "arr":
        inner = inhabitant(t[1], depth + 1)
        return ["[%s]" % inner, "[]"]
    if h == "dict":
        inner = inhabitant(t[2], depth + 1)
        return ["{a = %s}" % inner, "{}"]
    if h == "rec":
        fs = ["%s = %s" % (r[0][1], inhabitant(r[1], depth + 1)) for r in t[1]]
        if t[2] != "closed":
            return ["{%s}" % ", ".join(fs + ["zz = 1"]), "{%s}" % ", ".join(fs)]
        return ["{%s}" % ", ".join(fs)]
    if h == "fun":
        return ["(fun _x => %s)" % inhabitant(t[2], depth + 1)]
    if h == "forall":
        return reps_for(k, t[3], depth)
    if h == "enum":
        out = []
        for r in t[1]:
            if k == "KTag" and len(r) == 1:
                out.append("'%s" % r[0][1])
            if k == "KVariant" and len(r) > 1:
                out.append("('%s %s)" % (r[0][1], inhabitant(r[1], depth + 1)))
        if t[2] != "closed":
            out.append("'Zz" if k == "KTag" else "('Zz 1)")
        return out
    raise TranslatorError("reps_for: %r" % (t,))


def inhabitant(t, depth=0):
    """One closed source term of static type t."""
    if isinstance(t, str):
        return {"dyn": "1", "num": "1", "bool": "true", "str": '"a"', "sym": "null", "foreign": "null"}[t]
    h = t[0]
    if h in ("contract", "wild", "var"):
        return "1"
    for k in KINDS:
        if inhabits(k, t):
            return reps_for(k, t, depth)[0]
    return "null"


def strip_arrows(t):
    doms = []
    while not isinstance(t, str) and t[0] == "fun":
        doms.append(t[1])
        t = t[2]
    return doms, t


def static_table(exe):
    prims, tokens = read_primops()
    progs, meta, unspelled = [], [], []
    for name, arity, variant in prims:
        if name in UNSPELLABLE:
            continue
        cands = [arity + 1] if name in ("(&&)", "(||)") else [arity, arity - 1]
        tried = False
        for n in cands:
            if n < 1:
                continue
            args = ["a%d" % i for i in range(n)]
            app = spell(name, args, tokens)
            if app is None:
                continue
            progs.append("tc,enforce\tfun %s => %s" % (" ".join(args), app))
            meta.append((name, n, variant, app, arity))
            tried = True
        if not tried:
            unspelled.append(name)
    rc, out, err = core.run_lines(exe, [], progs, timeout=600)
    if rc != 0 or len(out) != len(progs):
        raise TranslatorError("harness c01 tc failed rc=%s %s" % (rc, err[-500:]))
    table, done, failed = [], set(), {}
    for (name, n, variant, app, arity), line, prog in zip(meta, out, progs):
        if name in done:
            continue
        ok, terms, idents = parse_tc(line)
        if not ok:
            failed.setdefault(name, []).append(line[:200])
            continue
        prim_nodes = [t for t in terms if t[2] == "PrimOpApp"]
        if not prim_nodes:
            failed.setdefault(name, []).append("no PrimOpApp node in " + prog)
            continue
        argty = {idn: ty for (s, e, idn, ty) in idents}
        node = min(prim_nodes, key=lambda t: t[1] - t[0])
        nstrict = min(arity, n)
        args = [argty["a%d" % i] for i in range(nstrict)]
        lazy, res = strip_arrows(node[3])
        table.append({"name": name, "arity_src": n, "args": args, "lazy": lazy, "res": res, "full_res": node[3],
                      "variant": variant, "nargs": nstrict, "declared_arity": arity})
        done.add(name)
    still = [(k, v) for k, v in failed.items() if k not in done]
    return table, unspelled, still, prims, tokens


# ------------------------------------------------------------------ dynamic table

CLASS_RE = re.compile(r"^ERR (\S+)")


def result_kind(tree):
    t = tree.strip()
    if t.startswith("('"):
        # ('"Ok" x): the contract wrapper's 'Ok _
        return None
    return None


def kind_of_tree(t):
    t = t.strip()
    if t.startswith("#"):
        return "KNum"
    if t.startswith('"'):
        return "KStr"
    if t in ("true", "false"):
        return "KBool"
    if t == "null":
        return "KNull"
    if t.startswith("["):
        return "KArr"
    if t.startswith("{"):
        return "KRec"
    if t.startswith("('"):
        return "KVariant"
    if t.startswith("'"):
        return "KTag"
    if t == "<fun>":
        return "KFun"
    if t == "<label>":
        return "KLabel"
    if t == "<type>":
        return "KType"
    if t == "<contract>":
        return "KCustom"
    if t == "<sealingkey>":
        return "KSealKey"
    if t == "<foreign>":
        return "KForeign"
    if t == "<term>":
        return "KFun"   # match expressions and other unevaluated function-like terms
    return None


def parse_tree(t):
    """the canonical value tree printed by the harness -> python structure:
    ("num",) ("str",) ("bool",) ("null",) ("arr", [..]) ("rec", {k: v}) ("tag", name) ("variant", name, v) ("opaque", what)"""
    pos = 0
    n = len(t)

    def ws():
        nonlocal pos
        while pos < n and t[pos] == " ":
            pos += 1

    def string():
        nonlocal pos
        assert t[pos] == '"'
        j = pos + 1
        buf = ""
        while t[j] != '"':
            if t[j] == "\\":
                buf += t[j + 1]
                j += 2
            else:
                buf += t[j]
                j += 1
        pos = j + 1
        return buf

    def val():
        nonlocal pos
        ws()
        c = t[pos]
        if c == "#":
            j = pos + 1
            while j < n and (t[j].isdigit() or t[j] in "-/"):
                j += 1
            pos = j
            return ("num",)
        if c == '"':
            string()
            return ("str",)
        if t.startswith("true", pos):
            pos += 4
            return ("bool",)
        if t.startswith("false", pos):
            pos += 5
            return ("bool",)
        if t.startswith("null", pos):
            pos += 4
            return ("null",)
        if c == "[":
            pos += 1
            items = []
            ws()
            if t[pos] == "]":
                pos += 1
                return ("arr", items)
            while True:
                items.append(val())
                ws()
                if t[pos] == ",":
                    pos += 1
                    continue
                assert t[pos] == "]"
                pos += 1
                return ("arr", items)
        if c == "{":
            pos += 1
            fields = {}
            ws()
            if t[pos] == "}":
                pos += 1
                return ("rec", fields)
            while True:
                ws()
                k = string()
                assert t[pos] == ":"
                pos += 1
                if t[pos] == "~":
                    pos += 1
                fields[k] = val()
                ws()
                if t[pos] == ",":
                    pos += 1
                    continue
                assert t[pos] == "}"
                pos += 1
                return ("rec", fields)
        if c == "'":
            pos += 1
            return ("tag", string())
        if t.startswith("('", pos):
            pos += 2
            name = string()
            v = val()
            ws()
            assert t[pos] == ")"
            pos += 1
            return ("variant", name, v)
        if c == "<":
            j = t.index(">", pos)
            what = t[pos + 1:j]
            pos = j + 1
            return ("opaque", what)
        raise ValueError("unreadable tree at %d: %r" % (pos, t[pos:pos + 30]))

    v = val()
    return v


def tree_inhabits(v, t):
    """deep check of a result tree against a static type s-expression (type variables, Dyn, contracts
    and wildcards accept anything); returns None or a description of the mismatch"""
    if isinstance(t, str):
        want = {"dyn": None, "num": "num", "bool": "bool", "str": "str", "sym": None, "foreign": None}[t]
        if want is not None and v[0] != want:
            return "%s where a %s is promised" % (v[0], t)
        return None
    h = t[0]
    if h in ("contract", "wild", "var"):
        return None
    if h == "forall":
        return tree_inhabits(v, t[3])
    if h == "arr":
        if v[0] != "arr":
            return "%s where an array is promised" % v[0]
        for x in v[1]:
            r = tree_inhabits(x, t[1])
            if r:
                return "array element: " + r
        return None
    if h == "fun":
        if v[0] != "opaque" or v[1] not in ("fun", "term"):
            return "%s where a function is promised" % (v,)
        return None
    if h == "dict":
        if v[0] != "rec":
            return "%s where a dictionary is promised" % v[0]
        for k, x in v[1].items():
            r = tree_inhabits(x, t[2])
            if r:
                return "field %s: %s" % (k, r)
        return None
    if h == "rec":
        if v[0] != "rec":
            return "%s where a record is promised" % v[0]
        for row in t[1]:
            f = row[0][1]
            if f not in v[1]:
                return "field %s promised by the type is missing" % f
            r = tree_inhabits(v[1][f], row[1])
            if r:
                return "field %s: %s" % (f, r)
        if t[2] == "closed" and set(v[1]) - {row[0][1] for row in t[1]}:
            return "extra fields %s in a closed record type" % sorted(set(v[1]) - {row[0][1] for row in t[1]})
        return None
    if h == "enum":
        if v[0] == "tag":
            if any(r[0][1] == v[1] and len(r) == 1 for r in t[1]) or t[2] != "closed":
                return None
            return "tag '%s is not a case of the enum type" % v[1]
        if v[0] == "variant":
            for r in t[1]:
                if r[0][1] == v[1] and len(r) > 1:
                    x = tree_inhabits(v[2], r[1])
                    return ("payload of '%s: %s" % (v[1], x)) if x else None
            return None if t[2] != "closed" else "variant '%s is not a case of the enum type" % v[1]
        return "%s where an enum is promised" % v[0]
    return None


def wrap(app):
    # a label is only available inside a custom contract: every test program has the same shape
    return "(null | %%contract/custom%% (fun LBL _v => 'Ok (%s)))" % app


def unwrap_ok(line):
    """the contract wrapper returns the payload of its 'Ok: `OK <tree>` -> <tree>"""
    return line[3:] if line.startswith("OK ") else None


_STAMP = None


def source_stamp():
    """sha256 over the contents of every .rs/.ncl/.lalrpop/.toml file of /repo's core, parser and
    vector crates and of the harness sources used by bin c01"""
    global _STAMP
    if _STAMP is not None:
        return _STAMP
    import hashlib
    h = hashlib.sha256()
    roots = [os.path.join(core.REPO, d) for d in ("core", "parser", "vector")]
    files = []
    for root in roots:
        for dp, dn, fn in os.walk(root):
            dn[:] = [d for d in dn if d not in ("target", ".git", "benches", "tests")]
            for f in fn:
                if f.endswith((".rs", ".ncl", ".lalrpop", ".toml")):
                    files.append(os.path.join(dp, f))
    files += [os.path.join(core.REPO, "Cargo.lock"), os.path.join(core.HARNESS, "src", "bin", "c01.rs"),
              os.path.join(core.HARNESS, "src", "eval.rs")]
    for f in sorted(files):
        h.update(f.encode())
        try:
            h.update(open(f, "rb").read())
        except OSError:
            h.update(b"<missing>")
    _STAMP = h.hexdigest()
    return _STAMP


def run_robust(exe, lines, timeout=1800, shards=None, cache=False):
    """Like core.run_sharded, but survives an aborting harness process (stack overflow inside the
    interpreter kills the process): the line being processed is answered `ERR Crash` and the shard
    is restarted after it."""
    import concurrent.futures as cf
    import subprocess
    shards = shards or core.NPROC
    n = len(lines)
    if n == 0:
        return []
    key = None
    if cache:
        # the answers are a pure function of (sources the harness binary is built from, input lines):
        # the binary is rebuilt from /repo's working tree by cargo before every run and embeds the
        # stdlib; the stamp hashes every source file of the crates it links
        import hashlib
        import json
        h = hashlib.sha256()
        h.update(source_stamp().encode())
        h.update("\n".join(lines).encode())
        key = os.path.join(core.BUILD, "c01cache", h.hexdigest()[:24] + ".json")
        if os.path.exists(key):
            try:
                got = json.load(open(key))
                if len(got) == n:
                    return got
            except Exception:
                pass
    size = (n + shards - 1) // shards
    chunks = [lines[i:i + size] for i in range(0, n, size)]

    def run_chunk(chunk):
        out = []
        i = 0
        while i < len(chunk):
            p = subprocess.run([exe], input="\n".join(chunk[i:]) + "\n", timeout=timeout,
                               stdout=subprocess.PIPE, stderr=subprocess.PIPE, text=True, errors="replace")
            got = p.stdout.split("\n")
            if got and got[-1] == "":
                got = got[:-1]
            got = got[:len(chunk) - i]
            out += got
            i += len(got)
            if i < len(chunk):
                out.append("ERR Crash -- harness process died (rc=%s): %s" % (p.returncode, p.stderr.strip().replace("\n", " ")[-120:]))
                i += 1
        return out

    with cf.ThreadPoolExecutor(max_workers=len(chunks)) as ex:
        res = list(ex.map(run_chunk, chunks))
    res = [x for c in res for x in c]
    if key:
        import json
        os.makedirs(os.path.dirname(key), exist_ok=True)
        with open(key + ".tmp", "w") as f:
            json.dump(res, f)
        os.replace(key + ".tmp", key)
    return res


def dynamic_table(exe, table, tokens, tier):
    import itertools
    exempt_names = exempt_ops()
    cases = []          # (name, kinds tuple, program)
    inh_of, res_of = {}, {}
    for row in table:
        inh_of[row["name"]] = set(itertools.product(*[[k for k in KINDS if inhabits(k, t)] for t in row["args"]]))
        res_of[row["name"]] = row["res"]
    for row in table:
        n = row["nargs"]
        args_t = row["args"]
        per_pos_inh = [[k for k in KINDS if inhabits(k, t)] for t in args_t]
        # every vector that inhabits the static argument types (the theorem needs all of them), and
        # for the negative space every single-position deviation from the first inhabiting vector
        # (informational: shows that the dynamic dispatch does reject something)
        exempt = row["name"] in exempt_names
        inh = list(itertools.product(*per_pos_inh))
        if exempt and len(inh) > 24:
            inh = inh[:1]
        vs = set(inh)
        base = tuple((p[0] if p else "KNull") for p in per_pos_inh)
        for i in range(n):
            for k in KINDS:
                v = list(base)
                v[i] = k
                vs.add(tuple(v))
        if tier == "thorough" and n <= 2:
            vs |= set(itertools.product(KINDS, repeat=n))
        vectors = sorted(vs)
        inh = set(inh)
        lazy_args = [inhabitant_for_lazy(t) for t in row["lazy"]]
        for ks in vectors:
            reps = [reps_for(k, t) for k, t in zip(ks, args_t)]
            if any(not r for r in reps):
                continue
            combos = [tuple(r[0] for r in reps)]
            for i, r in enumerate(reps):
                for alt in (r[1:] if ks in inh else []):
                    c = list(combos[0])
                    c[i] = alt
                    combos.append(tuple(c))
            for c in combos:
                args = list(c)
                nsrc = row["arity_src"]
                app = spell(row["name"], args + lazy_args[:max(0, nsrc - len(args))], tokens)
                rest = lazy_args[max(0, nsrc - len(args)):]
                if rest:
                    app = "(%s) %s" % (app, " ".join(rest))
                cases.append((row["name"], ks, wrap(app), args, rest_all(lazy_args)))
    lines = ["ev,notc,full,fuel=200000\t" + esc(c[2]) for c in cases]
    out = run_robust(exe, lines, cache=(tier != "thorough"))
    if len(out) != len(lines):
        raise TranslatorError("harness c01 ev produced %d lines for %d inputs" % (len(out), len(lines)))
    dyn = {}
    for (name, ks, prog, args, lazies), line in zip(cases, out):
        d = dyn.setdefault(name, {}).setdefault(ks, {"errs": set(), "kinds": set(), "progs": []})
        m = CLASS_RE.match(line)
        if m:
            d["errs"].add(m.group(1))
            d["progs"].append((prog, line[:160], args, lazies))
        else:
            inner = unwrap_ok(line)
            k = kind_of_tree(inner) if inner is not None else None
            if k is None:
                d["errs"].add("Unreadable")
                d["progs"].append((prog, line[:160], args, lazies))
            else:
                d["kinds"].add(k)
                # deep shape of the result against the static result type (for operand vectors inhabiting
                # the argument types): a record field / enum case the type promised must be there
                if ks in inh_of[name]:
                    try:
                        why = tree_inhabits(parse_tree(inner), res_of[name])
                    except (ValueError, AssertionError, IndexError) as ex:
                        why = "unreadable result tree: %s" % ex
                    if why:
                        d["errs"].add("ShapeMismatch")
                        d["progs"].append((prog, ("ERR ShapeMismatch " + why + " :: " + line)[:200], args, lazies))
    return dyn, len(cases)


def rest_all(l):
    return list(l)


def esc(p):
    return p.replace("\\", "\\\\").replace("\n", "\\n").replace("\t", " ")


def witness_program(row, args, lazies, tokens):
    """A typed-block program applying the primop to the failing representatives: operands whose
    static type is Dyn are cast with `| Dyn` (typed code has no implicit upcast to Dyn)."""
    def cast(a, t):
        return "(%s | Dyn)" % a if t == "dyn" else a
    cargs = [cast(a, t) for a, t in zip(args, row["args"])]
    lz = [cast(a, t) for a, t in zip(lazies, row["lazy"])]
    nsrc = row["arity_src"]
    app = spell(row["name"], cargs + lz[:max(0, nsrc - len(cargs))], tokens)
    rest = lz[max(0, nsrc - len(cargs)):]
    if rest:
        app = "(%s) %s" % (app, " ".join(rest))
    prog = "((%s) : _)" % app
    if "LBL" in prog:
        prog = "(null | %%contract/custom%% (fun LBL _v => 'Ok (%s | Dyn)))" % prog
    return prog


def inhabitant_for_lazy(t):
    # the lazy operand of array/map, record/map, array/generate is a function: make it total
    if not isinstance(t, str) and t[0] == "fun":
        n, rt = 0, t
        while not isinstance(rt, str) and rt[0] == "fun":
            n += 1
            rt = rt[2]
        return "(fun %s => %s)" % (" ".join("_x%d" % i for i in range(n)), inhabitant(rt))
    return inhabitant(t)


# ------------------------------------------------------------------ writing Gen/*.v

def write_gen(table, dyn):
    gen = os.path.join(core.COQ, "Gen")
    os.makedirs(gen, exist_ok=True)
    sig_lines = []
    for row in table:
        sig_lines.append("  {| s_name := %s; s_args := [%s]; s_lazy := [%s]; s_res := %s |}" % (
            coq_str(row["name"]), "; ".join(sty_coq(a) for a in row["args"]),
            "; ".join(sty_coq(a) for a in row["lazy"]), sty_coq(row["res"])))
    sig = ("(* GENERATED by checks/c01_sig.py from the running typechecker of /repo -- do not edit *)\n"
           "From Coq Require Import List String.\nImport ListNotations.\nOpen Scope string_scope.\n"
           "From NV Require Import Types.SigDefs.\n\n"
           "Definition sig_table : list sig_row := [\n%s\n].\n" % ";\n".join(sig_lines))
    dyn_lines = []
    for row in table:
        rows = dyn.get(row["name"], {})
        rl = []
        for ks in sorted(rows):
            d = rows[ks]
            rl.append("    ([%s], {| d_errs := [%s]; d_kinds := [%s] |})" % (
                "; ".join(ks), "; ".join(coq_str(e) for e in sorted(d["errs"])), "; ".join(sorted(d["kinds"]))))
        dyn_lines.append("  (%s, [\n%s\n  ])" % (coq_str(row["name"]), ";\n".join(rl)))
    dynv = ("(* GENERATED by checks/c01_sig.py from the running interpreter of /repo -- do not edit *)\n"
            "From Coq Require Import List String.\nImport ListNotations.\nOpen Scope string_scope.\n"
            "From NV Require Import Types.SigDefs.\n\n"
            "Definition dyn_table : dyn_table_t := [\n%s\n].\n" % ";\n".join(dyn_lines))
    changed = False
    for fn, body in (("PrimopSig.v", sig), ("PrimopDyn.v", dynv)):
        p = os.path.join(gen, fn)
        old = open(p).read() if os.path.exists(p) else None
        if old != body:
            with open(p, "w") as f:
                f.write(body)
            changed = True
    return changed


# ------------------------------------------------------------------ python re-check (for the search)

EXEMPT_RE = re.compile(r"Definition exempt_ops : list string :=\s*\[(.*?)\]\.", re.S)
TYPE_ERR = {"TypeErr", "NotAFunc", "NonExhaustive", "UnboundId", "Internal", "NotEnoughArgs", "Unreadable", "ShapeMismatch"}


def exempt_ops():
    src = core.strip_coq_comments(open(os.path.join(core.COQ, "Types", "SigDefs.v")).read())
    m = EXEMPT_RE.search(src)
    return set(re.findall(r'"([^"]+)"', m.group(1))) if m else set()


def bad_class(op, c):
    return c in TYPE_ERR or (c == "FieldMissing" and op == "record/access")


def failing_vectors(table, dyn):
    """[(row, ks, reason, programs)] for inhabiting vectors whose dynamic row is not safe."""
    import itertools
    out = []
    for row in table:
        per = [[k for k in KINDS if inhabits(k, t)] for t in row["args"]]
        for ks in itertools.product(*per):
            d = dyn.get(row["name"], {}).get(ks)
            if d is None:
                out.append((row, ks, "no dynamic row", []))
                continue
            bad = [e for e in d["errs"] if bad_class(row["name"], e)]
            wrongk = [k for k in d["kinds"] if not inhabits(k, row["res"])]
            if bad or wrongk:
                out.append((row, ks, "classes %s result kinds %s" % (sorted(bad), sorted(wrongk)),
                            [p for p in d["progs"] if any(("ERR " + b) in p[1] for b in bad)]))
    return out


def ty_src(t):
    """Nickel concrete syntax of a static type s-expression (for witness programs)."""
    if isinstance(t, str):
        return {"dyn": "Dyn", "num": "Number", "bool": "Bool", "str": "String", "sym": "Dyn", "foreign": "Dyn"}[t]
    h = t[0]
    if h in ("contract", "wild", "var"):
        return "Dyn"
    if h == "arr":
        return "Array (%s)" % ty_src(t[1])
    if h == "fun":
        return "(%s) -> (%s)" % (ty_src(t[1]), ty_src(t[2]))
    if h == "dict":
        return "{_ : %s}" % ty_src(t[2])
    if h == "rec":
        tail = "" if t[2] == "closed" else "; Dyn"
        return "{%s%s}" % (", ".join("%s : %s" % (r[0][1], ty_src(r[1])) for r in t[1]), tail)
    if h == "enum":
        return "[| %s |]" % ", ".join(("'%s" % r[0][1]) + ((" (%s)" % ty_src(r[1])) if len(r) > 1 else "") for r in t[1])
    if h == "forall":
        return ty_src(t[3])
    return "Dyn"


# ------------------------------------------------------------------ the model's signature table

MODEL_PRIMS = [("PAdd", "primop", "(+)"), ("PSub", "primop", "(-)"), ("PMul", "primop", "(*)"), ("PDiv", "primop", "(/)"),
               ("PLt", "primop", "(<)"), ("PLe", "primop", "(<=)"), ("PGt", "primop", "(>)"), ("PGe", "primop", "(>=)"),
               ("PNot", "primop", "bool/not"), ("PConcat", "primop", "string/concat"), ("PArrCat", "primop", "(@)"),
               ("PEq", "primop", "(==)"),
               ("PStrLen", "std", "string.length"), ("PArrLen", "std", "array.length"), ("PArrAt", "std", "array.at"),
               ("PArrMap", "std", "array.map"), ("PRecFields", "std", "record.fields"), ("PRecValues", "std", "record.values"),
               ("PRecHas", "std", "record.has_field"), ("PRecGet", "std", "record.get")]


def std_type(exe):
    rc, out, err = core.run_lines(exe, [], ["tc,enforce\tstd"], timeout=300)
    ok, terms, idents = parse_tc(out[0]) if out else (False, [], [])
    if not ok or not terms:
        raise TranslatorError("cannot read the type of std: %s" % (out[:1],))
    return terms[0][3]


def std_lookup(t, path):
    for part in path.split("."):
        if isinstance(t, str) or t[0] != "rec":
            raise TranslatorError("std.%s: not a record type" % path)
        hit = [r[1] for r in t[1] if r[0][1] == part]
        if not hit:
            raise TranslatorError("std.%s: no such field" % path)
        t = hit[0]
    return t


def model_ty_coq(t, env):
    """harness type s-expression -> Coq term of Types.Syntax.ty (de Bruijn; env = bound names, innermost first)"""
    if isinstance(t, str):
        return {"dyn": "TDyn", "num": "TNum", "bool": "TBool", "str": "TStr"}[t]
    h = t[0]
    if h == "var":
        return "(TVar %d)" % env.index(t[1][1])
    if h == "arr":
        return "(TArr %s)" % model_ty_coq(t[1], env)
    if h == "fun":
        return "(TFun %s %s)" % (model_ty_coq(t[1], env), model_ty_coq(t[2], env))
    if h == "dict":
        return "(TDict %s)" % model_ty_coq(t[2], env)
    if h == "forall":
        if t[2] != "ty":
            raise TranslatorError("row quantifier in a model primitive")
        return "(TForall %s)" % model_ty_coq(t[3], [t[1][1]] + env)
    if h == "enum" and t[2] == "closed" and all(len(r) == 1 for r in t[1]):
        return "(TEnum [%s])" % "; ".join(coq_str(r[0][1]) for r in t[1])
    raise TranslatorError("type outside the model fragment: %r" % (t,))


def free_vars(t, acc):
    if isinstance(t, str):
        return acc
    if t[0] == "var":
        if t[1][1] not in acc:
            acc.append(t[1][1])
        return acc
    for x in t[1:]:
        if isinstance(x, list):
            free_vars(x, acc)
    return acc


def write_model_sig(exe, table):
    """coq/Gen/ModelSigGen.v: the static types the *running* typechecker gives to the primitives and
    stdlib functions that the model of Types/Syntax.v contains (compared with Types/ModelSig.v by the
    theorem of Types/SigTie.v)."""
    rows = {r["name"]: r for r in table}
    stdt = std_type(exe)
    out = []
    for (o, where, name) in MODEL_PRIMS:
        if where == "primop":
            if name not in rows:
                raise TranslatorError("primop %s missing from the static table" % name)
            r = rows[name]
            t = r["res"]
            for a in reversed(r["args"] + r["lazy"]):
                t = ["fun", a, t]
            fv = free_vars(t, [])
            # unification variables left free = the primop's polymorphism; first-seen is outermost
            body = model_ty_coq(t, list(reversed(fv)))
            for _ in fv:
                body = "(TForall %s)" % body
        else:
            body = model_ty_coq(std_lookup(stdt, name), [])
        out.append("  (%s, %s)" % (o, body))
    txt = ("(* GENERATED by checks/c01_sig.py from the running typechecker of /repo -- do not edit *)\n"
           "From Coq Require Import List String.\nImport ListNotations.\nOpen Scope string_scope.\n"
           "From NV Require Import Types.Syntax.\n\n"
           "Definition gen_model_sig : list (prim * ty) := [\n%s\n].\n" % ";\n".join(out))
    p = os.path.join(core.COQ, "Gen", "ModelSigGen.v")
    old = open(p).read() if os.path.exists(p) else None
    if old != txt:
        with open(p, "w") as f:
            f.write(txt)
