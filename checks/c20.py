"""C20 — resolved dependency versions satisfy every requirement and are reproducible
(package/src/{resolve,version,lock}.rs, index/mod.rs)."""
import itertools
import json
import os
from vlib import core

META = {
    "harness_bins": ["c20"],
    "extract": "C20.v",
    "technique": "Coq proof about a model of the resolver glue (requirement views, buckets, post-resolution lookup, lock-file construction, package map) with pubgrub as an oracle under a stated contract; every pubgrub answer is translation-validated by a proved-correct checker and a proved-complete brute-force solver; model tied to the Rust crate by differential runs on synthetic on-disk indices",
    "level_text": "Theorems (coq/Props/C20.v, 27, closed under the global context), for all indices, manifests, lock files and solver answers: (req_views_agree) the solver's bucket+range view of a requirement equals the property's words (exact version, or same compatibility class and not lower, no prerelease unless exact) and equals the matcher now in the tree (matches_fix); the matcher of the tree before dd15f85 (matches_cur) is refuted with two witness classes; (lookup_total_and_right) on every valid assignment, hence on every answer of a solver meeting the stated pubgrub contract (a Section hypothesis, shown satisfiable), each dependency edge's index_dep_version returns the version assigned to the edge's bucket, it satisfies the requirement, there is one version per package and class, independently of the order of the stored list; for the old matcher the same holds exactly outside the proved-non-empty known class; (checker_complete) valid_solution <-> declarative spec, exists_solution = None <-> no assignment is valid; (lock_no_crash, namer_injective) LockFile::new never panics and terminates with a lock file (cyclic indices included), package_map returns, entry names are in bijection with precise packages; (relock_stable) with a lock that is a complete valid solution every run of a decide/propagate solver scheme decides exactly the locked versions without conflict. Tie: the Rust resolver is run on generated universes (exhaustive small families in the thorough tier); its answer is validated by the extracted checker (success) or brute force (NoSolution); every edge binding, sorted_dependencies, the lock file, the package map are compared with the extracted model of the matcher the tree implements (detected from the refuted-lemma witnesses); re-resolution with the produced lock must return the same versions and lock; a model-free oracle re-checks the property on Rust's own output.",
    "level_note": "Trusted: Coq kernel; extraction (ExtrOcamlBasic + ExtrOcamlNativeString); the hand-written model's reading of resolve.rs/version.rs/lock.rs (tied by correspondence only); the harness, generators and the model-free oracle in checks/c20.py. pubgrub is not modelled or proved: its answers are validated one by one, and theorems mentioning it assume its documented contract explicitly (pubgrub 0.3 breaks that contract on self-dependencies; since 3edc943 the provider never reports one, and the check would flag a recurrence through the checker). relock_stable is about a solver scheme without conflict learning, instantiated by pubgrub only as observed (RL=same on every universe; the lock's entries are validated as a complete solution per universe). Only index dependencies are modelled: git/path packages, Snapshot and manifest evaluation are outside the model (the root manifest is built in memory). Findings of this property, all fixed in /repo: dd15f85 (SemVerPrefix::matches: minor gap panic, prerelease picked), 3edc943 (self-dependency).",
}

PRES = ["", "alpha", "rc1"]


# --------------------------------------------------------------------------- syntax

def show_ver(v):
    s = "%d.%d.%d" % v[:3]
    return s + "-" + v[3] if v[3] else s


def parse_ver(s):
    core_, _, pre = s.partition("-")
    a, b, c = core_.split(".")
    return (int(a), int(b), int(c), pre)


def show_req(r):
    if r[0] == "=":
        return "=" + show_ver(r[1])
    _, M, mi, pa = r
    if mi is None and pa is None:
        return str(M)
    if pa is None:
        return "%d.%d" % (M, mi)
    return "%d.%s.%s" % (M, "_" if mi is None else mi, "_" if pa is None else pa)


def parse_req(s):
    if s.startswith("="):
        return ("=", parse_ver(s[1:]))
    parts = s.split(".")
    num = lambda x: None if x == "_" else int(x)
    return ("^", int(parts[0]), num(parts[1]) if len(parts) > 1 else None, num(parts[2]) if len(parts) > 2 else None)


def show_dep(d):
    return "%s>%s:%s" % (d[0], d[1], show_req(d[2]))


def parse_dep(s):
    name, rest = s.split(">", 1)
    pkg, req = rest.split(":", 1)
    return (name, pkg, parse_req(req))


def show_case(index, root, locked=None, root2=None):
    """index: list of (pkg, ver, [deps]); root: [deps]; locked: [(pkg, ver)] or None;
    root2: the root dependencies after an edit, or None"""
    s = "I:" + ";".join("%s@%s(%s)" % (p, show_ver(v), ",".join(show_dep(d) for d in ds)) for p, v, ds in index)
    s += " R:" + ",".join(show_dep(d) for d in root)
    if root2 is not None:
        s += " R2:" + ",".join(show_dep(d) for d in root2)
    if locked is not None:
        s += " L:" + ",".join("%s@%s" % (p, show_ver(v)) for p, v in locked)
    return s


def parse_case(line):
    index, root, locked = [], [], None
    for sec in line.split(" "):
        if not sec or sec.startswith("R2:"):
            continue
        tag, body = sec[:2], sec[2:]
        if tag == "I:":
            for pv in filter(None, body.split(";")):
                head, deps = pv[:-1].split("(", 1)
                p, v = head.split("@")
                index.append((p, parse_ver(v), [parse_dep(d) for d in filter(None, deps.split(","))]))
        elif tag == "R:":
            root = [parse_dep(d) for d in filter(None, body.split(","))]
        elif tag == "L:":
            locked = [(x.split("@")[0], parse_ver(x.split("@")[1])) for x in filter(None, body.split(","))]
    return index, root, locked


# --------------------------------------------------------------------------- the property's words (model-free oracle)

def klass(v):
    """compatibility class of a version; prereleases are alone in their class"""
    if v[3]:
        return ("pre", v)
    return ("minor", v[1]) if v[0] == 0 else ("major", v[0])


def satisfies(r, v):
    if r[0] == "=":
        return v == r[1]
    _, M, mi, pa = r
    lb = (M, mi or 0, pa or 0, "")
    return v[3] == "" and klass(lb) == klass(v) and lb <= v


def req_class(r):
    if r[0] == "=":
        return klass(r[1])
    return klass((r[1], r[2] or 0, 0, ""))


def old_matches(r, v):
    """SemVerPrefix::matches of the unchanged tree — used only to *name* the known class of a witness"""
    if r[0] == "=":
        return v == r[1]
    _, M, mi, pa = r
    if mi is None:
        return v[0] == M
    if pa is None:
        return v[0] == M and v[1] >= mi
    return v[0] == M and v[1] == mi and v[2] >= pa


def known_class(r, proper, vs):
    """'lookup-minor-gap' / 'lookup-prerelease-first' / None (mirrors Resolve.known_class)"""
    if r[0] == "^" and r[2] is not None and r[3] is not None and r[1] != 0 and proper[1] != r[2]:
        return "lookup-minor-gap"
    if any(v[3] and old_matches(r, v) and v < proper for v in vs):
        return "lookup-prerelease-first"
    return None


def poisoned(byp, pkg, cls):
    """some version of this bucket depends on its own bucket with a requirement it does not meet
    itself (pubgrub 0.3 has no self-dependency check and answers with the package left out)"""
    for u, ds in byp.get(pkg, {}).items():
        if klass(u) == cls:
            for _, q, r in ds:
                if q == pkg and req_class(r) == cls and not satisfies(r, u):
                    return True
    return False


def brute_solve(index, root):
    """Independent backtracking search.  Returns an assignment {(pkg, class): ver} or None."""
    byp = {}
    for p, v, ds in index:
        byp.setdefault(p, {})[v] = ds

    def go(asg, pending):
        if not pending:
            return asg
        (name, pkg, r), rest = pending[0], pending[1:]
        k = (pkg, req_class(r))
        if k in asg:
            return go(asg, rest) if satisfies(r, asg[k]) else None
        for v in sorted(byp.get(pkg, {})):
            if klass(v) == k[1] and satisfies(r, v):
                a2 = dict(asg)
                a2[k] = v
                res = go(a2, rest + list(byp[pkg][v]))
                if res is not None:
                    return res
        return None
    return go({}, list(root))


def lock_is_complete_valid(index, root, locked):
    """the given lock, read as an assignment, satisfies every edge reachable from the root;
    returns the reachable part {(pkg, class): ver} or None"""
    byp = {}
    for p, v, ds in index:
        byp.setdefault(p, {})[v] = ds
    asg = {}
    for p, v in locked:
        if (p, klass(v)) in asg or v not in byp.get(p, {}):
            return None
        asg[(p, klass(v))] = v
    seen, todo = {}, list(root)
    while todo:
        name, pkg, r = todo.pop()
        k = (pkg, req_class(r))
        if k not in asg or not satisfies(r, asg[k]):
            return None
        if k not in seen:
            seen[k] = asg[k]
            todo += byp[pkg][asg[k]]
    # every locked entry must itself be consistent (valid_solution checks all entries)
    for (p, c), v in asg.items():
        for name, pkg, r in byp[p][v]:
            k = (pkg, req_class(r))
            if k not in asg or not satisfies(r, asg[k]):
                return None
    return seen


def root2_of(line):
    for sec in line.split(" "):
        if sec.startswith("R2:"):
            return [parse_dep(d) for d in filter(None, sec[3:].split(","))]
    return None


def fields_of(line):
    f = {}
    for tok in line.split(" "):
        if "=" in tok:
            k, v = tok.split("=", 1)
            f[k] = v
    return f


def parse_assignment(s):
    a = {}
    for item in filter(None, s.split(",")):
        p, vs = item.split(":", 1)
        a[p] = [parse_ver(v) for v in vs.split("+")]
    return a


def oracle(case, out):
    """The property, checked on the implementation's own output.  Returns [(key, text)]."""
    index, root, locked = parse_case(case)
    f = fields_of(out)
    res = f.get("res", "?")
    finds = []
    byp = {}
    for p, v, ds in index:
        byp.setdefault(p, {})[v] = ds
    if res == "NoSolution":
        sol = brute_solve(index, root)
        if sol is not None:
            finds.append(("spurious-failure", "resolution failed although an assignment exists: " +
                          ",".join("%s@%s" % (k[0], show_ver(v)) for k, v in sorted(sol.items()))))
        return finds
    if res != "ok":
        finds.append(("resolve-crash:" + res.split(":")[0], "index load / resolve returned " + res))
        return finds
    A = parse_assignment(f.get("A", ""))
    for p, vs in A.items():
        if len({klass(v) for v in vs}) != len(vs):
            finds.append(("two-versions-one-class", "%s resolved to %s" % (p, [show_ver(v) for v in vs])))
        for v in vs:
            if v not in byp.get(p, {}):
                finds.append(("version-not-in-index", "resolved version %s@%s was never published in the index" % (p, show_ver(v))))
    # expected edges, from the case itself
    expected = [("root", d) for d in sorted(root)]
    for p in sorted(A):
        for v in sorted(A[p]):
            for d in sorted(byp.get(p, {}).get(v, [])):
                expected.append(("%s@%s" % (p, show_ver(v)), d))
    got = {}
    for e in filter(None, f.get("E", "").split(",")):
        lhs, _, bound = e.rpartition("=")
        got[lhs] = bound
    known_here = set()
    binding = {}
    for parent, d in expected:
        lhs = "%s/%s" % (parent, show_dep(d))
        if lhs not in got:
            finds.append(("edge-missing", lhs))
            continue
        b = got[lhs]
        name, pkg, r = d
        ok = b != "!" and b != "?" and satisfies(r, parse_ver(b)) and parse_ver(b) in A.get(pkg, [])
        binding[(parent, name)] = b
        if not ok:
            proper = [v for v in A.get(pkg, []) if satisfies(r, v)]
            kc = known_class(r, proper[0], A.get(pkg, [])) if len(proper) == 1 else None
            if not proper and poisoned(byp, pkg, req_class(r)):
                kc = "self-dependency"
            if kc:
                known_here.add(kc)
                finds.append((kc, "edge %s bound to %s, the resolved version is %s" % (
                    lhs, b, show_ver(proper[0]) if proper else "missing")))
            else:
                finds.append(("edge-unsatisfied", "edge %s bound to %s; resolved versions of %s: %s" % (
                    lhs, b, pkg, [show_ver(v) for v in A.get(pkg, [])])))
    crashed_edge = any(b == "!" for b in got.values())
    attributed = sorted(known_here)[0] if known_here else None

    def crash(what, val):
        # a crash is explained only by an edge whose lookup panicked
        if crashed_edge and attributed:
            finds.append((attributed, "%s = %s" % (what, val)))
        else:
            finds.append((what.lower() + "-crash", "%s = %s" % (what, val)))
    # sorted_dependencies
    for sd in filter(None, f.get("SD", "").split(";")):
        head, body = sd[:-1].split("[", 1)
        if body in ("PANIC",) or body.startswith("Err"):
            crash("SD", sd)
            continue
        for item in filter(None, body.split(",")):
            n, q = item.split("=", 1)
            b = binding.get((head, n))
            if b is not None and b != "!" and q != "%s@%s" % (q.split("@")[0], b):
                finds.append(("sd-vs-precise", "%s: %s vs %s" % (head, item, b)))
    # lock file
    K = f.get("K", "")
    if not K.startswith("ok{"):
        crash("K", K)
    else:
        deps_s, _, pk_s = K[3:-1].partition("|")
        entries = {}
        for e in filter(None, pk_s.split(";")):
            en, rest = e.split("=", 1)
            prec, ds = rest[:-1].split("[", 1)
            entries[en] = (prec, dict(x.split("=", 1) for x in filter(None, ds.split(","))))
        precs = [p for p, _ in entries.values()]
        if len(set(precs)) != len(precs):
            finds.append(("lock-duplicate-entry", K))
        def check_deps(parent, ds):
            for n, en in ds.items():
                b = binding.get((parent, n))
                if en not in entries:
                    finds.append(("lock-dangling", "%s/%s -> %s" % (parent, n, en)))
                elif b not in (None, "!") and entries[en][0].split("@", 1)[1] != b:
                    finds.append(("lock-wrong", "%s/%s -> %s but bound to %s" % (parent, n, entries[en][0], b)))
        rd = dict(x.split("=", 1) for x in filter(None, deps_s.split(",")))
        if sorted(rd) != sorted({d[0] for d in root}):
            finds.append(("lock-wrong", "root dependency names " + deps_s))
        check_deps("root", rd)
        for en, (prec, ds) in entries.items():
            check_deps(prec, ds)
            p, v = prec.split("@", 1)
            if sorted(ds) != sorted({d[0] for d in byp.get(p, {}).get(parse_ver(v), [])}):
                finds.append(("lock-wrong", "lock entry %s lists other dependency names than the index" % prec))
    # package map
    M = f.get("M", "")
    if not M.startswith("ok{"):
        crash("M", M)
    else:
        top_s, _, pk_s = M[3:-1].partition("|")
        for item in filter(None, top_s.split(",")):
            n, q = item.split("=", 1)
            b = binding.get(("root", n))
            if b not in (None, "!") and q.split("@", 1)[1] != b:
                finds.append(("map-wrong", "package map binds top-level %s but the edge is bound to %s" % (item, b)))
        seen = set()
        for item in filter(None, pk_s.split(",")):
            lhs, q = item.split("=", 1)
            parent, n = lhs.rsplit("/", 1)
            seen.add((parent, n))
            b = binding.get((parent, n))
            if b not in (None, "!") and q.split("@", 1)[1] != b:
                finds.append(("map-wrong", "package map binds %s but the edge is bound to %s" % (item, b)))
        for parent, d in expected:
            if parent != "root" and (parent, d[0]) not in seen:
                finds.append(("map-wrong", "missing %s/%s" % (parent, d[0])))
    # reproducibility
    RL = f.get("RL", "")
    if RL not in ("same", "skipped"):
        if attributed:
            finds.append((attributed, "re-resolution with the produced lock file: " + RL))
        else:
            finds.append(("relock-differs", "re-resolution with the produced lock file: " + RL))
    if RL == "same" and f.get("RK") != "same":
        finds.append((attributed or "relock-lockfile-differs", "lock file of the re-resolution: " + f.get("RK", "?")))
    # a complete valid lock handed in must be kept
    if locked is not None:
        keep = lock_is_complete_valid(index, root, locked)
        if keep is not None:
            want = {}
            for (p, c), v in keep.items():
                want.setdefault(p, []).append(v)
            if {p: sorted(vs) for p, vs in want.items()} != {p: sorted(vs) for p, vs in A.items()}:
                finds.append(("valid-lock-not-kept", "lock %s, resolved %s" % (locked, f.get("A"))))
    return finds


# --------------------------------------------------------------------------- generators

# The semver-precedence zoo of prerelease tags: numeric vs alphanumeric identifiers, different
# lengths with a common prefix (rc / rc.1, alpha / alpha.1 / alpha.beta, beta.2 / beta.2.fix),
# rc.2 vs rc.10, leading zeros (not valid semver, but `SemVer` is deserialised without
# validation), hyphens inside identifiers, upper case.  Build metadata is dropped by
# `SemVer` (only `FullSemVer` keeps it), so it cannot occur in an index or a requirement.
ZOO = ["alpha", "alpha.1", "alpha.beta", "alpha.beta.1", "beta", "beta.2", "beta.2.fix", "beta.11", "rc", "rc.1", "rc.2",
       "rc.10", "rc.01", "rc1", "RC", "1", "2", "10", "01", "0.3.7", "x.7.z.92", "x-y", "x-y.1", "-1"]


def gen_pre(rng):
    return rng.weighted([("", 14), ("alpha", 2), ("rc1", 1), (None, 4)]) or rng.choice(ZOO)


def pre_neighbour(rng, tag):
    """a tag in a precedence-relevant relation to `tag`: extended / truncated by one identifier,
    numeric identifier changed in length, or another zoo tag"""
    ids = tag.split(".") if tag else []
    how = rng.below(4)
    if how == 0 or not ids:
        return ".".join(ids + [rng.choice(["1", "0", "x", "10"])])
    if how == 1 and len(ids) > 1:
        return ".".join(ids[:-1])
    if how == 2 and ids[-1].isdigit():
        return ".".join(ids[:-1] + [rng.choice([str(int(ids[-1]) + 1), ids[-1] + "0", "0" + ids[-1]])])
    return rng.choice(ZOO)


def gen_version(rng, small):
    top = 2 if small else 3
    M = rng.weighted([(0, 4), (1, 5), (2, 2)])
    v = (M, rng.below(top + 1), rng.below(top + 1), gen_pre(rng))
    return v


def gen_req(rng, target_versions):
    """a requirement, usually aimed at (or just below / above) an existing version of the target"""
    if target_versions and not rng.chance(1, 8):
        v = rng.choice(target_versions)
    else:
        v = gen_version(rng, True)
    form = rng.weighted([("M", 3), ("Mm", 5), ("Mmp", 6), ("=", 3), ("M_p", 1)])
    M, m, p, pre = v
    if form == "=":
        if pre and rng.chance(1, 5):
            return ("=", (M, m, p, pre_neighbour(rng, pre)))
        return ("=", v if rng.chance(5, 6) else (M, m, p, ""))
    # wiggle downwards so that a later minor/patch has to be taken
    if rng.chance(1, 2) and m > 0:
        m -= rng.range(0, m)
    if rng.chance(1, 2) and p > 0:
        p -= rng.range(0, p)
    if rng.chance(1, 10):
        p += 1
    if form == "M":
        return ("^", M, None, None)
    if form == "Mm":
        return ("^", M, m, None)
    if form == "M_p":
        return ("^", M, None, p)
    return ("^", M, m, p)


NAMES = ["a", "b", "c", "x", "y", "dep", "a1"]


def req_met_by(rng, w):
    """a requirement that version w satisfies (used to plant a solution)"""
    M, m, p, pre = w
    if pre or rng.chance(1, 6):
        return ("=", w)
    forms = ["Mm", "Mmp", "Mmp"]
    if M >= 1 or m == 0:
        forms += ["M", "M_p"]
    form = rng.choice(forms)
    if M >= 1:
        m2 = rng.range(0, m)
        p2 = rng.range(0, p) if m2 == m else rng.range(0, 3)
    else:
        m2, p2 = m, rng.range(0, p)
    if form == "M":
        return ("^", M, None, None)
    if form == "M_p":
        return ("^", M, None, rng.range(0, p) if m == 0 else 0)
    if form == "Mm":
        return ("^", M, m2, None)
    return ("^", M, m2, p2)


def gen_universe(rng, npk_max, nver_max, with_lock, with_edit=False):
    npk = rng.range(1, npk_max)
    pkgs = ["p%d" % i for i in range(npk)]
    vers = {}
    for p in pkgs:
        vs = set()
        for _ in range(rng.range(1, nver_max)):
            vs.add(gen_version(rng, rng.chance(2, 3)))
        # neighbours: same class different minor/patch, and prerelease twins, make matchers diverge
        for v in list(vs):
            if rng.chance(1, 3) and len(vs) < nver_max + 1:
                vs.add((v[0], v[1] + rng.range(0, 1), v[2] + 1, ""))
            if rng.chance(1, 6) and len(vs) < nver_max + 1:
                vs.add((v[0], v[1], max(0, v[2] - rng.range(0, 1)), rng.choice(["alpha", "rc1"] + ZOO[:12])))
            if v[3] and rng.chance(1, 3) and len(vs) < nver_max + 2:
                vs.add((v[0], v[1], v[2], pre_neighbour(rng, v[3])))
        vers[p] = sorted(vs)
    # planted solution (mostly-valid stream): one chosen version per (package, class); the chosen
    # versions and the root only require what chosen versions provide
    planted = rng.chance(2, 3)
    chosen = {}
    if planted:
        for p in pkgs:
            for v in rng.shuffle(vers[p]):
                chosen.setdefault((p, klass(v)), v)
    chosen_list = sorted(chosen.items())
    index = []
    for p in pkgs:
        for v in vers[p]:
            nd = rng.weighted([(0, 5), (1, 4), (2, 2), (3, 1)])
            names = rng.shuffle(NAMES)[:nd]
            ds = []
            for n in names:
                if planted and chosen.get((p, klass(v))) == v and not rng.chance(1, 12):
                    (q, _), w = rng.choice(chosen_list)
                    ds.append((n, q, req_met_by(rng, w)))
                else:
                    q = rng.choice(pkgs)
                    ds.append((n, q, gen_req(rng, vers[q])))
            index.append((p, v, ds))
    nroot = rng.weighted([(0, 1), (1, 8), (2, 8), (3, 4)])
    root = []
    for n in rng.shuffle(NAMES)[:nroot]:
        if planted and not rng.chance(1, 12):
            (q, _), w = rng.choice(chosen_list)
            root.append((n, q, req_met_by(rng, w)))
        else:
            q = rng.choice(pkgs + (["p9"] if rng.chance(1, 25) else []))
            root.append((n, q, gen_req(rng, vers.get(q, []))))
    index = rng.shuffle(index)
    locked = None
    if with_lock:
        how = rng.below(3)
        if how == 0:
            # a complete valid (usually non-minimal) solution: solve preferring large versions
            sol = brute_solve([(p, v, ds) for p, v, ds in sorted(index, key=lambda e: (e[0], tuple(-x if isinstance(x, int) else x for x in e[1][:3])))], root)
            locked = sorted((k[0], v) for k, v in (sol or {}).items())
        else:
            locked = []
            for p in pkgs:
                for v in vers[p]:
                    if rng.chance(1, 3) and (p, klass(v)) not in {(q, klass(w)) for q, w in locked}:
                        locked.append((p, v))
    root2 = None
    if with_edit:
        root2 = list(root)
        for _ in range(rng.range(1, 2)):
            how = rng.below(5)
            if how == 0 and root2:            # loosen a requirement (usually keeps the lock up to date)
                i = rng.below(len(root2))
                n, q, r = root2[i]
                if r[0] == "^":
                    r = ("^", r[1], r[2] if rng.chance(1, 2) else None, None)
                else:
                    r = ("^", r[1][0], r[1][1], None) if not r[1][3] else r
                root2[i] = (n, q, r)
            elif how == 1 and root2:          # another requirement on the same package
                i = rng.below(len(root2))
                n, q, r = root2[i]
                root2[i] = (n, q, gen_req(rng, vers.get(q, [])))
            elif how == 2 and root2:          # drop a dependency (its lock entries become stale)
                root2.pop(rng.below(len(root2)))
            elif how == 3:                    # add a dependency
                free = [n for n in NAMES if n not in {d[0] for d in root2}]
                if free:
                    q = rng.choice(pkgs)
                    root2.append((rng.choice(free), q, gen_req(rng, vers[q])))
            # how == 4: unchanged
    return show_case(index, root, locked, root2)


GRID = [(0, 0, 1, ""), (0, 1, 0, ""), (0, 1, 1, ""), (0, 2, 0, ""), (1, 0, 0, ""), (1, 1, 0, ""),
        (1, 1, 1, ""), (1, 2, 0, ""), (2, 0, 0, ""), (1, 1, 0, "alpha"), (1, 1, 0, "alpha.1"), (0, 1, 0, "alpha")]


def grid_reqs(grid):
    rs = set()
    for v in grid:
        M, m, p, pre = v
        rs.add(("=", v))
        if not pre:
            rs |= {("^", M, None, None), ("^", M, m, None), ("^", M, m, p)}
    rs.add(("^", 1, None, 1))
    rs.add(("^", 3, None, None))
    return sorted(rs, key=show_req)


def exhaustive_one_package():
    """every set of <= 3 grid versions of one package x every pair of requirement forms from the root"""
    reqs = grid_reqs(GRID)
    out = []
    for k in (1, 2, 3):
        for vs in itertools.combinations(GRID, k):
            index = [("p0", v, []) for v in vs]
            for r1 in reqs:
                out.append(show_case(index, [("a", "p0", r1)]))
            for r1, r2 in itertools.combinations(reqs, 2):
                out.append(show_case(index, [("a", "p0", r1), ("b", "p0", r2)]))
    return out


def exhaustive_chain():
    """root -> p0 (<= 2 versions, each with one requirement on p1) -> p1 (<= 3 versions), plus a direct
    root requirement on p1: small grid, all requirement forms"""
    g1 = [(0, 1, 0, ""), (0, 1, 1, ""), (1, 1, 0, ""), (1, 2, 0, ""), (1, 1, 5, "rc1")]
    r1s = grid_reqs(g1)
    g0 = [(1, 0, 0, ""), (1, 1, 0, "")]
    out = []
    for k in (1, 2, 3):
        for vs1 in itertools.combinations(g1, k):
            for ra in r1s:          # requirement of p0@1.0.0 on p1
                for rb in r1s[::2]:  # requirement of p0@1.1.0 on p1
                    for rr in [None] + r1s[::3]:
                        index = [("p1", v, []) for v in vs1] + [("p0", g0[0], [("x", "p1", ra)]), ("p0", g0[1], [("x", "p1", rb)])]
                        root = [("a", "p0", ("^", 1, None, None))] + ([("b", "p1", rr)] if rr else [])
                        out.append(show_case(index, root))
    return out


# --------------------------------------------------------------------------- laws of the implementation's order / matching

LAW_CORES = [(1, 0, 0), (1, 0, 1), (0, 1, 0)]


def law_pool():
    vs = []
    for c in LAW_CORES:
        vs.append(c + ("",))
        vs += [c + (t,) for t in ZOO]
    vs.append((2, 0, 0, ""))
    vs.append((0, 2, 0, ""))
    reqs = [("^", 1, None, None), ("^", 1, 0, None), ("^", 1, 0, 0), ("^", 1, 0, 1), ("^", 1, None, 1), ("^", 0, None, None),
            ("^", 0, 1, None), ("^", 0, 1, 0), ("^", 0, 2, None), ("^", 2, None, None), ("^", 2, 0, 0)]
    reqs += [("=", v) for v in vs]
    return vs, reqs


def laws_line(vs, reqs):
    return "LAWS V:%s Q:%s" % (",".join(show_ver(v) for v in vs), ",".join(show_req(r) for r in reqs))


def check_laws(ck, exe_impl, exe_model, mode):
    """Direct oracles on the implementation's own `Ord`/`Eq`/matching over the zoo pool (no model):
    cmp reflexive, antisymmetric, transitive, Equal iff ==; the index cache keeps every distinct
    version; VersionReq::matches and BucketVersion agree with the property's words.  Then the same
    tables against the model.  Returns (version pairs, (requirement, version) pairs) around which
    the pipeline search has to look, unlawful ones first."""
    vs, reqs = law_pool()
    line = laws_line(vs, reqs)
    rc, out, err = core.run_lines(exe_impl, [], [line], env=scratch_env())
    f = fields_of(out[0]) if out and out[0].startswith("laws ") else None
    if f is None:
        ck.obligation("laws-run:impl", "internal", False, "rc=%s %s %s" % (rc, out[:1], err[-300:]))
        return [], []
    n = len(vs)
    cmp = f["cmp"].split("/")
    eq = f["eq"].split("/")
    flip = {"<": ">", ">": "<", "=": "="}
    unlawful, laws_broken = [], {}

    def bad(law, i, j):
        laws_broken.setdefault(law, []).append((i, j))
        if (i, j) not in unlawful and (j, i) not in unlawful and i != j:
            unlawful.append((i, j))
    for i in range(n):
        if cmp[i][i] != "=" or eq[i][i] != "1":
            bad("reflexivity", i, i)
        for j in range(n):
            if cmp[i][j] != flip[cmp[j][i]]:
                bad("antisymmetry", i, j)
            if (cmp[i][j] == "=") != (eq[i][j] == "1"):
                bad("Equal-iff-==", i, j)
            if (eq[i][j] == "1") != (vs[i] == vs[j]):
                bad("==-is-structural", i, j)
    le = [[c in "<=" for c in row] for row in cmp]
    for i in range(n):
        for j in range(n):
            if le[i][j]:
                for k in range(n):
                    if le[j][k] and not le[i][k]:
                        bad("transitivity", i, k)
    if int(f.get("bt", "0")) != len(set(vs)):
        laws_broken.setdefault("index-cache-keeps-every-version", []).append((int(f.get("bt", "0")), len(set(vs))))
    ck.count("order_law_pairs_checked", n * n)
    ck.count("order_law_triples_checked", n * n * n)
    for law, wit in laws_broken.items():
        ck.hist("order_laws_broken", law, len(wit))
    # matching against the property's words (req_views_agree on the implementation)
    m = f["m"].split("/")
    bc = f["bc"].split("/")
    bk = f["bk"].split(",")
    rv = []
    for qi, q in enumerate(reqs):
        for vi, v in enumerate(vs):
            want = satisfies(q, v)
            want_bc = klass(v) == req_class(q)
            if (bc[qi][vi] == "1") != want_bc or (mode == "fix" and (m[qi][vi] == "1") != want):
                rv.append((q, v))
    ck.count("matching_pairs_checked", len(reqs) * n)
    for vi, v in enumerate(vs):
        kl = klass(v)
        want = show_ver(v) if kl[0] == "pre" else ("0.%d" % kl[1] if kl[0] == "minor" else str(kl[1]))
        if bk[vi] != want:
            rv.append((("=", v), v))
    # against the model
    disagree = []
    if exe_model:
        rc2, out2, err2 = core.run_lines(exe_model, [], [line])
        g = fields_of(out2[0]) if out2 and out2[0].startswith("laws ") else None
        if g is None:
            ck.obligation("laws-run:model", "internal", False, "rc=%s %s %s" % (rc2, out2[:1], err2[-300:]))
        else:
            mc = g["cmp"].split("/")
            for i in range(n):
                for j in range(n):
                    if cmp[i][j] != mc[i][j] and (i, j) not in unlawful and (j, i) not in unlawful:
                        disagree.append((i, j))
            for k, gk in (("eq", "eq"), ("bk", "bk"), ("bc", "bc"), ("m", "m" + mode), ("sd", "sd")):
                if f.get(k) != g.get(gk):
                    ck.hist("laws_tables_differing_from_model", k)
            ck.coverage["semver_order_vs_model"] = "%d of %d ordered pairs differ" % (len(disagree) + sum(
                1 for (i, j) in unlawful if cmp[i][j] != mc[i][j]), n * n)
            if disagree or any(f.get(k) != g.get(gk) for k, gk in (("eq", "eq"), ("bk", "bk"), ("bc", "bc"), ("m", "m" + mode))):
                ck.obligation("correspondence:semver-order-and-matching", "correspondence", False,
                              "the implementation's cmp/==/matches/bucket tables differ from the model on the zoo pool; first pairs: %s" % [
                                  (show_ver(vs[i]), cmp[i][j], show_ver(vs[j]), "model " + mc[i][j]) for i, j in (unlawful + disagree)[:6]])
    pairs = [(vs[i], vs[j]) for i, j in unlawful] + [(vs[i], vs[j]) for i, j in disagree if i < j]
    return (pairs, rv, {law: [(show_ver(vs[i]), show_ver(vs[j])) if law != "index-cache-keeps-every-version" else (i, j)
                              for i, j in wit[:5]] for law, wit in laws_broken.items()})


def universes_around(pairs, rv, limit=14):
    """smallest universes around versions the implementation compares / matches suspiciously: both
    published in one package; one published and the other requested exactly, by range, as lower
    bound; the same behind a transitive dependency"""
    out = []
    for a, b in pairs[:limit]:
        M, m, p = a[:3]
        rel = (M, m, p + 1, "")
        rng_req = ("^", M, m, None)
        lb = ("^", M, m, p)
        both = [("p0", a, []), ("p0", b, [])]
        for idx in (both, both + [("p0", rel, [])], [("p0", b, []), ("p0", a, []), ("p0", rel, [])]):
            for root in ([("x", "p0", ("=", a))], [("x", "p0", ("=", b))], [("x", "p0", ("=", a)), ("y", "p0", ("=", b))],
                         [("x", "p0", rng_req)], [("x", "p0", lb)], [("x", "p0", rng_req), ("y", "p0", ("=", a))]):
                out.append(show_case(idx, root))
        for pub, req in ((a, b), (b, a)):
            for idx in ([("p0", pub, [])], [("p0", pub, []), ("p0", rel, [])]):
                out.append(show_case(idx, [("x", "p0", ("=", req))]))
                out.append(show_case(idx, [("x", "p0", ("=", req)), ("y", "p0", rng_req)]))
                out.append(show_case(idx, [("x", "p0", lb)]))
                # transitive
                out.append(show_case(idx + [("p1", (1, 0, 0, ""), [("d", "p0", ("=", req))])], [("a", "p1", ("^", 1, None, None))]))
                out.append(show_case(idx + [("p1", (1, 0, 0, ""), [("d", "p0", ("=", req))]), ("p1", (1, 1, 0, ""), [])],
                                     [("a", "p1", ("^", 1, None, None))]))
        out.append(show_case(both + [("p1", (1, 0, 0, ""), [("d", "p0", ("=", a))])], [("a", "p1", ("^", 1, None, None)), ("b", "p0", ("=", b))]))
    for q, v in rv[:limit]:
        M, m, p = v[:3]
        rel = (M, m, p + 1, "")
        for idx in ([("p0", v, [])], [("p0", v, []), ("p0", rel, [])]):
            out.append(show_case(idx, [("x", "p0", q)]))
            out.append(show_case(idx + [("p1", (1, 0, 0, ""), [("d", "p0", q)])], [("a", "p1", ("^", 1, None, None))]))
    seen, res = set(), []
    for c in out:
        if c not in seen:
            seen.add(c)
            res.append(c)
    return res


def corpus():
    p = os.path.join(core.ROOT, "corpus", "C20")
    res = []
    if os.path.isdir(p):
        for fn in sorted(os.listdir(p)):
            res += [l.strip() for l in open(os.path.join(p, fn)) if l.strip() and not l.startswith("#")]
    return res


# --------------------------------------------------------------------------- running and comparing

def model_block(mline, mode):
    """the `cur{...}` / `fix{...}` block of a model line as a field dict"""
    tag = " %s{" % mode
    i = mline.find(tag)
    if i < 0:
        return {}
    body = mline[i + len(tag):]
    # the block ends at the matching brace
    depth, end = 1, 0
    for k, ch in enumerate(body):
        if ch == "{":
            depth += 1
        elif ch == "}":
            depth -= 1
            if depth == 0:
                end = k
                break
    return fields_of(body[:end])


SCRATCH = {"dir": None}


def scratch_env():
    """one scratch directory per check run, removed at the end whatever happened to the harness
    processes (a process killed by a stack overflow cannot clean up after itself)"""
    if SCRATCH["dir"] is None:
        import atexit
        import shutil
        import tempfile
        SCRATCH["dir"] = tempfile.mkdtemp(prefix="verif-c20-run-")
        atexit.register(lambda: shutil.rmtree(SCRATCH["dir"], ignore_errors=True))
    return {"TMPDIR": SCRATCH["dir"]}


def run_robust(exe, cases, depth=0):
    """run_sharded, but a universe that kills the process (abort / stack overflow, which
    catch_unwind cannot stop) is reported as `res=ABORT` and the rest of its shard is re-run."""
    shards = core.NPROC
    n = len(cases)
    if n == 0:
        return 0, [], ""
    rc, out, err = core.run_sharded(exe, [], cases, shards=shards, env=scratch_env())
    if rc == 0 or depth > 40:
        return rc, out, err
    size = (n + shards - 1) // shards
    res = list(out)
    for lo in range(0, n, size):
        hi = min(n, lo + size)
        miss = [i for i in range(lo, hi) if res[i] == "<missing>"]
        if not miss:
            continue
        first = miss[0]
        res[first] = "res=ABORT"
        rc2, rest, err2 = run_robust(exe, cases[first + 1:hi], depth + 1)
        res[first + 1:hi] = rest
    res = ["res=ABORT" if x == "<missing>" else x for x in res]
    return 0, res, err


def run_cases(ck, cases, exe_impl, exe_model, mode=None):
    rc1, impl_out, e1 = run_robust(exe_impl, cases)
    if rc1:
        ck.obligation("correspondence-run:impl", "internal", False, "rc=%s %s" % (rc1, e1))
    minputs = []
    for c, o in zip(cases, impl_out):
        f = fields_of(o)
        minputs.append(c + (" A:" + f.get("A", "") if f.get("res") == "ok" else "")
                       + (" B:" + f.get("A2", "") if f.get("res2") == "ok" and f.get("UP") == "0" else ""))
    if not exe_model:
        return impl_out, ["MODEL-MISSING"] * len(cases)
    rc2, model_out, e2 = core.run_sharded(exe_model, [], minputs)
    if rc2:
        ck.obligation("correspondence-run:model", "internal", False, "rc=%s %s" % (rc2, e2))
    return impl_out, model_out


def detect_mode(ck, exe_impl, exe_model):
    """Which matcher does the tree implement?  Decided by the refuted-lemma witnesses."""
    if not exe_model:
        return "fix"
    w = ["I:p0@1.3.0() R:a>p0:1.2.3", "I:p0@1.0.0-alpha();p0@1.2.0() R:a>p0:1,b>p0:=1.0.0-alpha"]
    impl_out, model_out = run_cases(ck, w, exe_impl, exe_model)
    votes = set()
    for o, m in zip(impl_out, model_out):
        f = fields_of(o)
        for mode in ("cur", "fix"):
            b = model_block(m, mode)
            if all(f.get(k) == b.get(k) for k in ("E", "SD", "K", "M")):
                votes.add(mode)
                break
        else:
            votes.add("neither")
    if votes == {"cur"} or votes == {"fix"}:
        return votes.pop()
    return "cur"   # mixed / neither: compare against the unchanged model and let the differences show


def compare(ck, cases, impl_out, model_out, mode):
    for case, a, m in zip(cases, impl_out, model_out):
        f = fields_of(a)
        no_model = m == "MODEL-MISSING"
        mf = fields_of(m.split(" cur{")[0])
        res = f.get("res", "?")
        index, root, locked = parse_case(case)
        nontrivial = res == "ok" and len(f.get("E", "").split(",")) >= 2
        ck.case(key=case, nontrivial=nontrivial)
        ck.hist("outcome", res)
        ck.hist("packages", len({p for p, _, _ in index}))
        ck.hist("index_entries", min(len(index), 12))
        if res == "ok":
            ck.hist("edges_bound", min(len(list(filter(None, f.get("E", "").split(",")))), 12))
            ck.hist("versions_resolved", min(sum(len(x.split("+")) for x in filter(None, f.get("A", "").split(","))), 8))
        if locked is not None:
            ck.hist("with_lock", "yes")
        for _, _, ds in index + [("root", None, root)]:
            for d in ds:
                r = d[2]
                ck.hist("req_form", "exact-pre" if r[0] == "=" and r[1][3] else "exact" if r[0] == "=" else
                        "M" if r[2] is None and r[3] is None else "M.m" if r[3] is None else "M._.p" if r[2] is None else "M.m.p")
        # 1. the property on the implementation's own output
        finds = oracle(case, a)
        for key, text in finds:
            ck.hist("oracle_findings", key)
            ck.violation(key, "%s; universe [%s]" % (text[:150], case[:200]),
                         {"case": case, "impl": a, "model": m, "how_to_replay": "./verif check C20 --replay <this file>"})
        # 2. translation validation of the solver's answer by the extracted checker / brute force:
        #    a rejected answer is a violation of the property on the implementation
        known_keys = sorted({k for k, _ in finds if k in ("lookup-minor-gap", "lookup-prerelease-first", "self-dependency")})
        other_keys = [k for k, _ in finds if k not in known_keys]
        tv = []
        if no_model:
            continue
        if m.startswith("MODEL-ERROR"):
            ck.obligation("model-run", "internal", False, case + "\n" + m)
        elif res == "ok":
            if mf.get("valid") != "1":
                tv.append("the proved checker valid_solution rejects the resolver's answer")
            if mf.get("exists") == "0":
                tv.append("the proved-complete brute force finds no solution but the resolver answered")
        elif res == "NoSolution":
            if mf.get("exists") == "1":
                tv.append("the brute force (extracted) finds %s but the resolver failed" % mf.get("sol"))
            if mf.get("exists") == "skip":
                ck.count("bruteforce_skipped")
        if tv:
            key = "self-dependency" if "self-dependency" in known_keys else "invalid-answer"
            ck.violation(key, "%s; universe [%s]" % ("; ".join(tv)[:170], case[:200]), {"case": case, "impl": a, "model": m})
            if not finds:
                # the model-free oracle should have seen it too
                ck.obligation("oracle-vs-checker", "correspondence", False, "case %s\n%s\nimpl %s\nmodel %s" % (case, tv, a[:500], m[:500]))
        # 3. everything downstream of the answer: model of the matcher the tree implements vs Rust
        disagree = []
        if res == "ok" and not m.startswith("MODEL-ERROR"):
            if mf.get("ipsame") != "1":
                # the order/duplication of the stored lists is not part of the property (the model's
                # lookups below run on the lists exactly as the implementation stored them)
                ck.count("index_packages_not_sorted_dedup")
            b = model_block(m, mode)
            for k in ("E", "SD", "K", "M"):
                if f.get(k) != b.get(k):
                    disagree.append("%s differs (model[%s]): impl %s / model %s" % (k, mode, f.get(k, "")[:300], b.get(k, "")[:300]))
            if b.get("LV") == "0" and not known_keys:
                disagree.append("the lock file's entries are not a valid solution (hypothesis of relock_stable)")
            if b.get("LV") == "1":
                ck.count("lockfiles_validated_as_complete_solutions")
            if mf.get("lockok") == "1" and parse_assignment(mf.get("lockreach", "")) != {
                    p: sorted(set(vs)) for p, vs in parse_assignment(f.get("A", "")).items()}:
                disagree.append("a complete valid lock was not kept: model reach %s, impl %s" % (mf.get("lockreach"), f.get("A")))
            # the model's known class and the oracle's naming of it must coincide
            mk = set(filter(None, mf.get("known", "").split(",")))
            ok_keys = {k for k in known_keys if k.startswith("lookup-")}
            if mode == "cur" and bool(mk) != bool(ok_keys):
                disagree.append("known class: model %s, oracle %s" % (sorted(mk), sorted(ok_keys)))
            if mk:
                ck.count("universes_in_known_lookup_class")
        elif res not in ("ok", "NoSolution"):
            disagree.append("resolver outcome " + res)
        # 4. second phase: manifest edited, lock file kept (ManifestFile::lock's decision replayed)
        r2 = root2_of(case)
        if r2 is not None and "UP" in f and res == "ok" and not m.startswith("MODEL-ERROR"):
            b = model_block(m, mode)
            ck.hist("second_phase", "up-to-date:copy_from_lock" if f.get("UP") == "1" else "stale:resolve_with_lock:" + f.get("res2", "?"))
            case2 = show_case(index, r2)
            out2 = "res=%s A=%s E=%s SD=%s K=%s M=%s RL=skipped" % tuple(f.get(k, "") for k in ("res2", "A2", "E2", "SD2", "K2", "M2"))
            finds2 = oracle(case2, out2)
            for key, text in finds2:
                ck.hist("oracle_findings", "phase2:" + key)
                ck.violation("phase2:" + key, "after editing the manifest and keeping the lock file: %s; universe [%s]" % (text[:120], case[:170]),
                             {"case": case, "impl": a, "model": m})
            if f.get("UP") != b.get("UP"):
                disagree.append("is_lock_file_up_to_date: impl %s, model %s" % (f.get("UP"), b.get("UP")))
            elif f.get("res2") == "ok":
                if b.get("V2") != "1":
                    ck.violation("phase2:invalid-answer", "the second assignment is rejected by valid_solution for the edited manifest",
                                 {"case": case, "impl": a, "model": m})
                if parse_assignment(f.get("A2", "")) != parse_assignment(b.get("A2", "")) and sorted(
                        (p, sorted(vs)) for p, vs in parse_assignment(f.get("A2", "")).items()) != sorted(
                        (p, sorted(vs)) for p, vs in parse_assignment(b.get("A2", "")).items()):
                    disagree.append("A2 differs (model[%s]): impl %s / model %s" % (mode, f.get("A2", "")[:300], b.get("A2", "")[:300]))
                for k in ("E2", "SD2", "K2", "M2"):
                    if f.get(k) != b.get(k):
                        disagree.append("%s differs (model[%s]): impl %s / model %s" % (k, mode, f.get(k, "")[:300], b.get(k, "")[:300]))
            elif f.get("res2") == "NoSolution":
                if mf.get("exists2") == "1":
                    ck.violation("phase2:spurious-failure", "brute force finds a solution for the edited manifest but the resolver failed",
                                 {"case": case, "impl": a, "model": m})
            else:
                disagree.append("second phase outcome " + f.get("res2", "?"))
            other_keys = other_keys + [k for k, _ in finds2]
        if disagree:
            ck.hist("disagreements", len(disagree))
            if other_keys:
                pass  # the property itself fails on the implementation: reported above as a violation
            else:
                # the property holds here (or fails only in a known class, which the model of the
                # unchanged tree must reproduce exactly): the model and the code have drifted apart
                ck.obligation("correspondence:model-vs-rust", "correspondence", False,
                              "case %s\n%s\nimpl  %s\nmodel %s" % (case, "\n".join(disagree), a[:800], m[:800]))


def run(ck):
    ck.coq("Props.C20", clean=(ck.tier == "thorough"))
    ok = ck.harness(["c20"])
    exe_model = ck.model("C20.v")
    if not ok:
        return
    # (if the proofs or the extraction are broken the direct oracles still run, without the model)
    exe_impl = core.harness_bin("c20")
    mode = detect_mode(ck, exe_impl, exe_model)
    ck.coverage["matcher_implemented_by_tree"] = {"cur": "unchanged SemVerPrefix::matches (model matches_cur)",
                                                   "fix": "repaired matcher (model matches_fix)"}[mode]
    ck.log("tree implements matcher:", mode)
    # laws of the implementation's order and matching on the precedence zoo; wherever they fail or
    # differ from the model, the pipeline is run on the smallest universes around those versions
    pairs, rv, broken = check_laws(ck, exe_impl, exe_model, mode)
    around = universes_around(pairs, rv)
    ck.coverage["search_universes_around_suspicious_versions"] = len(around)
    if around:
        ck.log("order/matching suspicious on %d version pairs, %d (requirement, version) pairs: searching %d universes" % (
            len(pairs), len(rv), len(around)))
        nviol = len(ck.violations)
        io, mo = run_cases(ck, around, exe_impl, exe_model)
        compare(ck, around, io, mo, mode)
        if broken and len(ck.violations) == nviol:
            # a law of the order fails on the implementation but no universe built around it failed
            ck.violation("semver-order-law", "Ord/Eq for SemVer break %s" % broken, {"laws": broken, "line": laws_line(*law_pool())})
    elif broken:
        ck.violation("semver-order-law", "Ord/Eq for SemVer break %s" % broken, {"laws": broken, "line": laws_line(*law_pool())})
    rng = core.SplitMix64(ck.seed * 1000003 + 20)
    cases = corpus()
    ncorpus = len(cases)
    n = 3000 if ck.tier == "quick" else 40000
    for i in range(n):
        big = rng.chance(1, 6)
        cases.append(gen_universe(rng.fork(), 5 if big else 3, 4 if big else 3, with_lock=rng.chance(1, 6),
                                  with_edit=rng.chance(1, 4)))
    if ck.tier == "thorough":
        ex1 = exhaustive_one_package()
        ex2 = exhaustive_chain()
        ck.coverage["exhaustive_one_package_universes"] = len(ex1)
        ck.coverage["exhaustive_chain_universes"] = len(ex2)
        cases += ex1 + ex2
    else:
        # a fixed slice of the exhaustive families also runs in the quick tier
        ex1 = exhaustive_one_package()
        cases += ex1[::97]
    impl_out, model_out = run_cases(ck, cases, exe_impl, exe_model)
    compare(ck, cases, impl_out, model_out, mode)
    for c, a in list(zip(cases, impl_out))[:4]:
        ck.sample({"universe": c[:300], "impl": a[:400]})
    ck.coverage["universes_validated_against_impl"] = len(cases)
    ck.coverage["corpus"] = ncorpus
    ck.coverage["rule"] = ("universe = synthetic on-disk index (1-5 packages, 1-5 versions each over majors 0-2 / minors, patches 0-3 / "
                           "prereleases alpha, rc1 and the precedence zoo (numeric / alphanumeric identifiers, dot-prefixes, rc.2 vs rc.10, leading zeros, hyphens), with precedence-neighbours of published prereleases published or requested exactly; 0-3 named dependencies per version with requirements M, M.m, M.m.p, M._.p, =v, =v-pre "
                           "aimed at or around existing versions; cycles and self-dependencies allowed) + root manifest with 0-3 index "
                           "dependencies + optionally a lock file (a complete valid non-minimal solution, or random existing versions) "
                           "+ optionally an edit of the root manifest (loosen / change / drop / add a dependency) replayed against the "
                           "kept lock file; 2/3 of the universes have a planted solution; "
                           "non-trivial = resolution succeeded with >= 2 dependency edges; distinct by exact text")
    ck.coverage["partial"] = ("pubgrub itself is validated answer by answer, not proved; git/path dependencies and the snapshot are not "
                              "modelled (index dependencies only)")
    ck.trusted += ["extraction: ExtrOcamlBasic + ExtrOcamlNativeString", "harness bin c20 (synthetic index files written in the crate's PackageFormat)",
                   "generator + model-free oracle in checks/c20.py (SplitMix64, VERIF_SEED)"]
    ck.assumptions += ["pubgrub is external: each answer is validated by the extracted checker (success) or brute force (failure)",
                       "commit ids of index packages are pairwise distinct (the harness makes them so)"]


def replay(ck, path):
    obj = json.load(open(path))
    ok = ck.harness(["c20"])
    exe_model = ck.model("C20.v")
    if ok and exe_model and "case" in obj:
        exe_impl = core.harness_bin("c20")
        mode = detect_mode(ck, exe_impl, exe_model)
        impl_out, model_out = run_cases(ck, [obj["case"]], exe_impl, exe_model)
        compare(ck, [obj["case"]], impl_out, model_out, mode)
        ck.log("impl :", impl_out[0])
        ck.log("model:", model_out[0])
