"""C13 — data survives export and import across formats (serialize/*, yaml.rs, pretty.rs, lexer.rs)."""
import json
import os
import sys
from fractions import Fraction

if hasattr(sys, "set_int_max_str_digits"):
    sys.set_int_max_str_digits(0)

from vlib import core
from checks import c13_translate

META = {
    "harness_bins": ["c13"],
    "extract": "C13.v",
    "technique": "Coq proofs about executable models of the in-repo codec logic (string escaping of the printer vs. the string-mode lexer automaton, record-key quoting vs. the keyword tables regenerated from the sources on every run, integer emission/reading, YAML plain/quoted scalar resolution incl. the grammar of number spellings, the two JSON loaders over an abstract event stream); models extracted to OCaml and compared token by token with the Rust code; direct round-trip oracles on the implementation for whole data values, all formats and all loaders",
    "level_text": "Theorems (coq/Props/C13.v), for every string / key / integer / document tree, no bound: the printed literal of any string lexes back to exactly that string (escape_roundtrip; escape IS the chain of replaces read from pretty.rs at this run, escape_char IS the table read from lexer.rs, the regexes the automata were written for are pinned to the source text); a record key printed by ident_quoted reads back as the same key given the keyword tables extracted from lexer.rs/grammar.lalrpop at this run (ident_quoted_roundtrip; keyword_tables_agree is re-checked by coqc against the regenerated tables); every integer in [-2^63, 2^64) is emitted as its exact decimal token and the YAML/JSON event loader, serde_json and toml (i64 part) models map the token back to it, outside that range the f64 path is taken (int_roundtrip); a quoted YAML scalar is always a string and a plain one is a string iff it is not one of the enumerated spellings, the number spellings being exactly the grammar [+-]?(D+|D+.D*|D*.D+)([eE][+-]?D+)? (yaml_plain_resolution, from_sci_grammar), which states the contract the external YAML emitter must meet; the class on which serde_yaml breaks that contract is a Coq definition shown non-empty (yaml_overflow_spelling_is_number); the JSON event loader and the serde path build the same value from the event stream of every in-scope document tree (loaders_agree). The models are tied to the Rust code by running both on the same generated inputs (printed text, lexer result, key, integer token, scalar resolution of the scalar event the loader actually received, loader results per document) and the property itself is checked on the implementation by direct oracles that need no model: deserialize(serialize v) == v through the library functions and through the primops in the evaluator, export/import/export textual fixpoint, file import (SourceCache::parse_other), the `nickel convert` path (loader AST -> printer -> parser -> evaluation), 'YamlDocuments, and agreement of all loaders on the same generated or foreign document.",
    "level_note": "partial: decimals through f64 (try_from_float_simplest, ryu) are NOT proved, only checked on the grid of decimals with <= 4 significant digits and exponents -6..6 plus boundaries (exhaustive in the thorough tier, sampled in the quick tier), compared as exact rationals; numbers outside the statement's scope are only reported as observations. Trusted/assumed: the external emitters and parsers (serde_json, serde_yaml/unsafe-libyaml, toml/toml_edit, saphyr-parser, json_scanner, malachite from_sci_string/to_sci, logos) are not modelled except for the documented readings in Codec/Num.v and Codec/YamlScalar.v (from_sci) and the longest-match reading of logos in Codec/Escape.v, which the correspondence validates; the LALRPOP grammar is represented by the table of reserved words it accepts as field names (extracted from grammar.lalrpop); nesting deeper than the external parsers' limits (serde_json 128, toml about 80) gives an error, not a wrong value, and is counted, not failed. Known findings (KNOWN-FINDING lines, known_findings.txt): yaml-float-overflow-string, yaml-ls-ps-string, json-duplicate-keys, toml-datetime-deserialize.",
}


def setup_gen():
    """./verif setup: regenerate coq/Gen/Keywords.v from /repo (same code path as run)."""
    c13_translate.write()


# ----------------------------------------------------------------------------- helpers


def cps(s):
    return ".".join(str(ord(c)) for c in s) if s else "-"


def uncps(t):
    return "" if t in ("-", "") else "".join(chr(int(x)) for x in t.split("."))


def bits(z):
    return ("-" if z < 0 else "") + (bin(abs(z))[2:] if z else "0")


def unbits(b):
    if b in ("0", ""):
        return 0
    return -int(b[1:], 2) if b.startswith("-") else int(b, 2)


def fields(line):
    """`A=x\tB=y` -> dict"""
    d = {}
    for f in line.split("\t"):
        if "=" in f:
            k, v = f.split("=", 1)
            d[k] = v
    return d


def model_fields(line):
    d = {}
    for f in line.split(" "):
        if "=" in f:
            k, v = f.split("=", 1)
            d[k] = v
    return d


def sci_value(m, e):
    return Fraction(m) * (Fraction(10) ** e)


def parse_model_sres(tok):
    """model `N:<bits m>:<bits e>` etc. -> canonical comparable form"""
    if tok.startswith("N:"):
        _, m, e = tok.split(":")
        ee = unbits(e)
        if abs(ee) > 20000:
            return ("Nbig", unbits(m), ee)
        return ("N", sci_value(unbits(m), ee))
    return (tok,)


def parse_impl_sres(tok):
    if tok.startswith("N:"):
        return ("N", Fraction(tok[2:]))
    return (tok,)


# ----------------------------------------------------------------------------- generators

SPECIAL = list("\"\\%{}\n\r\t'#:- $&*!|>@`,[]?=~.+/<;()^")
SEQS = ["%{", "%%{", "\\%{", "\"%", "m%\"", "\\\\", "\\\"", "\\n", "\\r", "\\x41", "\\u{1F600}", "${", "#{", "'''",
        "\"\"\"", ": ", " #", "- ", "---", "...", "<<", "&a", "*a", "!!str ", "%YAML", "\r\n", "\n\n", "  ", "\t\t",
        "%}", "{%", "\\%", "%\\", "%\"", "\"}", "''", "\\'", "\\t", "\\0", "\\u0041", "\\U0001F600"]
CONTROL = [chr(c) for c in list(range(0, 32)) + [0x7F, 0x80, 0x85, 0x9F, 0xA0, 0xAD]]
UNI = [chr(c) for c in [0xE9, 0x3A9, 0x4E2D, 0x2028, 0x2029, 0xFEFF, 0xFFFD, 0xFFFE, 0xFFFF, 0xD7FF, 0xE000,
                        0x10000, 0x1F600, 0x1F468, 0x200D, 0x10FFFF, 0x0301, 0x202E]]
PLAIN = list("abcxyzABZ019_ ")
YAML_SPELLINGS = [
    "null", "Null", "NULL", "~", "true", "True", "TRUE", "false", "False", "FALSE", "yes", "no", "on", "off",
    "y", "n", "Yes", "No", ".inf", "-.inf", "+.inf", ".Inf", ".INF", ".nan", ".NaN", ".NAN", "+.nan", "inf", "nan",
    "infinity", "NaN", "0x1F", "0o17", "0b1", "0x", "0o", "0xG", "0o8", "+12", "-0", "+0", "007", "-012", "1e3", "1E3",
    "1e+3", "1e-3", "1e400", "-1e999", "1e309", "1E400", "+1e400", "1.0e400", ".1e401", "1e+400",
    "1.7976931348623157e308", "1.7976931348623158e308", "1.7976931348623159e308", "1.8e308", "1e308", "2e308",
    "1e-400", ".5", "5.", "+.5", "-.5", ".", "-", "+", "-.", "1_000", "12:30", "2001-12-14", "0x-5", "0o-7", "0x+A",
    "++5", "+-5", "--5", "-+5", "1e", "e1", "1e5e5", "1.2.3", "1.+5", "1.-5", "1.e5", "0.1", "1.5", "-1.5e-3",
    "9223372036854775807", "9223372036854775808", "-9223372036854775808", "-9223372036854775809",
    "18446744073709551615", "18446744073709551616", "123456789012345678901234567890", "0xFFFFFFFFFFFFFFFF",
    "0x7FFFFFFFFFFFFFFF", "0x8000000000000000", "-0x1", "+0x1", "0X1F", "0O17", "1" + "0" * 310, "9" * 400,
    "", " ", "a ", " a", "a\n", "\na", "- a", "a: b", "a #b", "? a", "[a]", "{a}", "@a", "`a", "%a", "!a", "&a",
    "*a", "|", ">", "=", "<<", "a:", ":a", "#", "a#", "'", "\"", "''", "\"\"", "\\", "-a", "a-", "--- a", "...",
    "1e1000", "-1e-1000", "1e4999", "00", "0.0", "-0.0", "1e0", "0e0", "0x0", "+0o7",
]
KEYWORD_KEYS = ["merge", "m", "a-s", "x-s", "or", "as", "include", "_", "__", "_a", "_1", "a-b", "-a", "a-", "1a", "a'b",
                "a'", "'a", "é", "名前", "a.b", "$n", "", " ", "a b", "A", "Z9", "_-", "a_", "a--b", "%{a}", "\"", "a\"b",
                "a\nb", "null ", "if'", "if-", "_if", "If", "TRUE", "type", "Type", "fun'", "rec-", "0", "-1", "1e3"]


def gen_string(rng, maxlen=16):
    kind = rng.below(100)
    if kind < 14:
        return rng.choice(YAML_SPELLINGS)
    if kind < 20:
        # a number-like spelling built from pieces (exponents kept below 10^4: the loader computes 10^e exactly)
        import re
        t = "".join(rng.choice(["0x", "0o", "+", "-", ".", "e", "E", "1", "0", "9", "5", "_", "x", "4", "00", "e4", "e-"])
                    for _ in range(rng.range(1, 7)))
        return re.sub(r"([eE][+-]?\d{4})\d+", lambda m: m.group(1), t)
    n = rng.below(maxlen + 1)
    out = []
    for _ in range(n):
        c = rng.below(100)
        if c < 30:
            out.append(rng.choice(SPECIAL))
        elif c < 45:
            out.append(rng.choice(SEQS))
        elif c < 55:
            out.append(rng.choice(CONTROL))
        elif c < 65:
            out.append(rng.choice(UNI))
        elif c < 68:
            out.append(chr(rng.range(0x20, 0x7E)))
        elif c < 70:
            x = rng.range(0xA0, 0x10FFFF)
            out.append(chr(x) if not (0xD800 <= x <= 0xDFFF) else "\uFFFD")
        else:
            out.append(rng.choice(PLAIN))
    return "".join(out)


def gen_key(rng, tables):
    c = rng.below(100)
    if c < 20:
        return rng.choice(tables["all_words"])
    if c < 40:
        return rng.choice(KEYWORD_KEYS)
    if c < 60:
        # identifier-like
        return "".join(rng.choice(list("_aZ9-'") + ["if", "in", "or"]) for _ in range(rng.range(1, 6)))
    return gen_string(rng, 8)


INT_BOUNDS = [0, 1, -1, 7, 10, 255, 2 ** 31 - 1, 2 ** 31, -2 ** 31, 2 ** 32, 2 ** 53 - 1, 2 ** 53, 2 ** 53 + 1, -(2 ** 53) - 1,
              10 ** 15, 10 ** 16 - 1, 10 ** 16, 10 ** 16 + 1, 12345678901234567, 99999999999999999, 10 ** 17, 10 ** 18,
              2 ** 63 - 1, 2 ** 63, 2 ** 63 + 1, -(2 ** 63), -(2 ** 63) + 1, 2 ** 64 - 1, 2 ** 64 - 2, 9007199254740993,
              1234567890123456, 1 << 62, 3 * 10 ** 18, 18 * 10 ** 18, 1234567890123456000, -1234567890123456789]
INT_OUTSIDE = [2 ** 64, 2 ** 64 + 1, -(2 ** 63) - 1, -(2 ** 64), 10 ** 20, 2 ** 70, 10 ** 30 + 7, -(10 ** 25)]


def gen_int(rng):
    c = rng.below(100)
    if c < 40:
        return rng.choice(INT_BOUNDS)
    if c < 60:
        return rng.range(-1000, 1000)
    if c < 80:
        return rng.next() - (1 << 63) if rng.chance(1, 2) else rng.next()
    b = rng.range(1, 64)
    v = rng.next() >> (64 - b)
    return max(-v, -(2 ** 63)) if rng.chance(1, 3) else v


def gen_decimal(rng):
    """short decimal: <= 4 significant digits, exponent -6..6"""
    m = rng.range(1, 9999)
    e = rng.range(-6, 6)
    v = Fraction(m) * Fraction(10) ** e
    return -v if rng.chance(1, 4) else v


def frac_str(q):
    q = Fraction(q)
    return "%d/%d" % (q.numerator, q.denominator)


def gen_value(rng, depth, tables, toml_ok, top=False):
    """tagged value spec (see harness `build`).  toml_ok: no null, record at top level."""
    c = rng.below(100)
    if top and toml_ok:
        c = 95
    if depth <= 0 and c >= 70:
        c = rng.below(70)
    if c < 30:
        return {"s": gen_string(rng)}
    if c < 45:
        n = gen_int(rng)
        if toml_ok and n > 2 ** 63 - 1:
            n = 2 ** 63 - 1 - rng.below(1000)
        return {"n": "%d/1" % n}
    if c < 55:
        return {"n": frac_str(gen_decimal(rng))}
    if c < 62:
        return {"b": rng.chance(1, 2)}
    if c < 70:
        return {"s": gen_string(rng)} if toml_ok else {"z": 0}
    if c < 84:
        return {"a": [gen_value(rng, depth - 1, tables, toml_ok) for _ in range(rng.below(4))]}
    keys, fs = set(), []
    for _ in range(rng.below(5) if not top else rng.range(1, 5)):
        k = gen_key(rng, tables)
        if k in keys:
            continue
        keys.add(k)
        fs.append([k, gen_value(rng, depth - 1, tables, toml_ok)])
    return {"r": fs}


def spec_strings(v):
    """all strings and keys of a value spec"""
    (k, x), = v.items()
    if k == "s":
        return [x]
    if k == "a":
        return [t for e in x for t in spec_strings(e)]
    if k == "r":
        return [kk for kk, _ in x] + [t for _, e in x for t in spec_strings(e)]
    return []


def replace_null(v):
    (k, x), = v.items()
    if k == "z":
        return {"s": "was-null"}
    if k == "a":
        return {"a": [replace_null(e) for e in x]}
    if k == "r":
        return {"r": [[kk, replace_null(e)] for kk, e in x]}
    return v


def newline_only_docs(v):
    """'YamlDocuments: a top-level array element that is a string made of newlines only, not the last one"""
    if "a" not in v:
        return False
    xs = v["a"]
    return any("s" in e and e["s"] and set(e["s"]) == {"\n"} for e in xs[:-1])


def replace_newline_docs(v):
    if "a" not in v:
        return v
    return {"a": [{"s": "nl"} if ("s" in e and e["s"] and set(e["s"]) == {"\n"}) else e for e in v["a"]]}


def replace_lsps(v):
    (k, x), = v.items()
    f = lambda t: t.replace("\u2028", "x").replace("\u2029", "x")
    if k == "s":
        return {"s": f(x)}
    if k == "a":
        return {"a": [replace_lsps(e) for e in x]}
    if k == "r":
        seen, out = set(), []
        for kk, e in x:
            kk2 = f(kk)
            while kk2 in seen:
                kk2 += "_"
            seen.add(kk2)
            out.append([kk2, replace_lsps(e)])
        return {"r": out}
    return v


def deep_value(rng, n, leaf):
    v = leaf
    for i in range(n):
        v = {"a": [v]} if rng.chance(1, 2) else {"r": [[rng.choice(["k", "if", "a b", "%{"]), v]]}
    return {"r": [["top", v]]}


def spec_to_py(v):
    (k, x), = v.items()
    if k == "z":
        return None
    if k == "b":
        return x
    if k == "n":
        return Fraction(x)
    if k == "s":
        return x
    if k == "a":
        return [spec_to_py(e) for e in x]
    return {kk: spec_to_py(vv) for kk, vv in x}


# ----------------------------------------------------------------------------- YAML documents for scalar resolution

def yaml_scalar_doc(rng, v):
    """A YAML document whose first value-position scalar is (intended to be) v in some style/tag."""
    c = rng.below(100)
    tag = ""
    t = rng.below(100)
    if t < 6:
        tag = rng.choice(["!!str ", "!!int ", "!!float ", "!!bool ", "!!null ", "!!binary ", "!foo ", "!!map "])
    plain_ok = v and all(ch in "abcdefghijklmnopqrstuvwxyzABCDEFGHIJKLMNOPQRSTUVWXYZ0123456789+-._~" for ch in v) \
        and not v.startswith("-") or (v.startswith("-") and len(v) > 1 and v[1] not in " ")
    plain_ok = bool(plain_ok) and v != "" and "\n" not in v and v[0] not in "!&*?|>@`%#[]{},\"' " and ": " not in v \
        and " #" not in v and not v.endswith(":") and not v.endswith(" ") and "\t" not in v and "\r" not in v
    if c < 55 and plain_ok:
        body = v
    elif c < 75:
        body = "'" + v.replace("'", "''") + "'"
        if "\n" in v or "\r" in v:
            body = json.dumps(v)
    else:
        body = json.dumps(v, ensure_ascii=rng.chance(1, 2))
    shape = rng.below(4)
    if shape == 0:
        return "k: %s%s\n" % (tag, body)
    if shape == 1:
        return "- %s%s\n" % (tag, body)
    if shape == 2:
        return "%s%s\n" % (tag, body)
    return "a:\n  - b: %s%s\n" % (tag, body)


# ----------------------------------------------------------------------------- corpus

def corpus_lines():
    p = os.path.join(core.ROOT, "corpus", "C13")
    res = []
    if os.path.isdir(p):
        for f in sorted(os.listdir(p)):
            if f.endswith(".case"):
                res += [l.rstrip("\n") for l in open(os.path.join(p, f)) if l.strip() and not l.startswith("#")]
    return res


# ----------------------------------------------------------------------------- classification of round-trip failures

def sig_digits(n):
    s = str(abs(n)).rstrip("0")
    return len(s)


def to_sci_16(n):
    """what malachite's to_sci (16 significant digits, round half even) leaves of the integer n"""
    s = str(abs(n))
    if len(s) <= 16:
        return n
    head, rest = int(s[:16]), s[16:]
    half = "5" + "0" * (len(rest) - 1)
    if rest > half or (rest == half and head % 2 == 1):
        head += 1
    v = head * 10 ** len(rest)
    return -v if n < 0 else v


def tree_num(tok):
    return Fraction(tok[1:]) if tok.startswith("#") else None


def has_lsps(s):
    return "\u2028" in s or "\u2029" in s


def lsps_norm(s):
    """drop the indentation the YAML 1.1 emitter inserts after U+2028/U+2029 (which it treats as line breaks)"""
    import re
    return re.sub("([\u2028\u2029]) *", lambda m: m.group(1), s)


class Classifier:
    """Maps one failing oracle token to the stable key of a known finding, or None (= a violation)."""

    def __init__(self, model_ys):
        self.model_ys = model_ys   # function: string -> (resolution tuple, ns, ov)

    def classify(self, fmt, oracle, payload):
        # payload: `path|orig|got`
        parts = payload.split("|")
        if len(parts) != 3:
            return None
        path, orig, got = parts
        if fmt != "yaml" or oracle not in ("des", "imp", "ev", "conv", "docs"):
            return None
        if orig.startswith("keys(") and got.startswith("keys("):
            ko, kg = [uncps(k) for k in orig[5:-1].split(",")], [uncps(k) for k in got[5:-1].split(",")]
            if sorted(lsps_norm(k) for k in ko) == sorted(lsps_norm(k) for k in kg) and any(has_lsps(k) for k in ko):
                return "yaml-ls-ps-string"
            return None
        if orig.startswith("s") and got.startswith("s"):
            so, sg = uncps(orig[1:]), uncps(got[1:])
            if has_lsps(so) and so != sg and lsps_norm(so) == lsps_norm(sg):
                return "yaml-ls-ps-string"
        if orig.startswith("s") and got.startswith("#"):
            # exactly the class Codec.YamlScalar.float_overflow_spelling: a string spelled as a number at or
            # beyond the f64 rounding threshold, read back as that number
            res, ns, ov = self.model_ys(uncps(orig[1:]))
            if ov and res[0] == "N" and Fraction(got[1:]) == res[1]:
                return "yaml-float-overflow-string"
        return None


KNOWN_TEXT = {
    "yaml-float-overflow-string": "YAML only: a string spelled as a number whose magnitude reaches the f64 rounding threshold (\"1e400\") is written as a plain scalar by the emitter and read back as a Number (the loader reads big plain numbers on purpose)",
    "yaml-ls-ps-string": "YAML only: a string or key containing U+2028/U+2029 comes back with spaces inserted after them (the YAML 1.1 emitter breaks the line there and indents, the YAML 1.2 loader keeps both)",
    "yamldocs-newlines-string": "'YamlDocuments only: an array element that is a string made of newlines only and is followed by another element is exported as a top-level block scalar `|2+` directly followed by `---`, which the YAML loader rejects (wrongly indented line in block scalar)",
    "json-duplicate-keys": "a JSON object with a duplicate key is read differently by the two JSON loaders: std.deserialize 'Json (serde) keeps the last value, importing the file (event loader) keeps both definitions and merges them (error for different scalars)",
    "toml-datetime-deserialize": "std.deserialize 'Toml turns a TOML datetime into the record { \"$__toml_private_datetime\" = \"..\" } (the toml crate's private serde representation) while importing the same file gives the string",
}


# ----------------------------------------------------------------------------- the run

class Runner:
    def __init__(self, ck, exe_impl, exe_model):
        self.ck, self.impl, self.model = ck, exe_impl, exe_model

    def both(self, cases):
        rc1, a, e1 = core.run_sharded(self.impl, [], cases, timeout=3000)
        rc2, b, e2 = core.run_sharded(self.model, [], cases, timeout=3000)
        if rc1 or rc2:
            self.ck.obligation("correspondence-run", "internal", False, "rc=%s/%s %s %s" % (rc1, rc2, e1[-800:], e2[-800:]))
        return a, b

    def impl_only(self, cases):
        rc, a, e = core.run_sharded(self.impl, [], cases, timeout=3000)
        if rc:
            self.ck.obligation("harness-run", "internal", False, "rc=%s %s" % (rc, e[-800:]))
        return a

    def model_only(self, cases):
        rc, a, e = core.run_sharded(self.model, [], cases, timeout=3000)
        if rc:
            self.ck.obligation("model-run", "internal", False, "rc=%s %s" % (rc, e[-800:]))
        return a


def corr_fail(ck, name, case, a, b):
    """model and implementation disagree (and the direct oracle did not fail): the first few cases are
    reported in full, the rest only counted"""
    n = ck.stats.get("correspondence_failures:" + name, 0)
    ck.count("correspondence_failures:" + name)
    if n < 3:
        ck.obligation("correspondence:" + name, "correspondence", False, "case %s\nimpl  %s\nmodel %s" % (case[:300], a[:600], b[:600]))


def run(ck):
    # 1. translate the tables from the sources, then the proof obligations against them
    try:
        tables = c13_translate.write()
        ck.obligation("translator:keywords/escape/patterns from lexer.rs, pretty.rs, grammar.lalrpop", "translator", True,
                      "source hash " + tables["source_hash"])
    except Exception as ex:  # fail closed
        ck.obligation("translator:keywords/escape/patterns", "translator", False, repr(ex))
        tables = None
    proofs_ok = ck.coq("Props.C13", clean=(ck.tier == "thorough"))
    if not proofs_ok:
        # a proof no longer checks: the models (kept in files without proofs) are still built, so that
        # the correspondence and the direct oracles below search for a concrete failing input
        rc, out = core.coq_make(["Gen/Keywords.vo"] + ["Codec/%s.vo" % m for m in ("Escape", "Ident", "Num", "YamlScalar", "Loaders")])
        if rc != 0:
            ck.log("models do not build either:\n" + out[-1500:])
    ok = ck.harness(["c13"])
    exe_model = ck.model("C13.v")
    if not ok or not exe_model or tables is None:
        return
    R = Runner(ck, core.harness_bin("c13"), exe_model)
    tables["all_words"] = sorted(set(tables["lexer_reserved"]) | set(tables["printer_keywords"]) | set(tables["grammar_accepted"]))
    extra_kw = sorted(set(tables["printer_keywords"]) - set(tables["lexer_reserved"]))
    ck.coverage["keyword_tables"] = {
        "printer_keywords": tables["printer_keywords"], "lexer_reserved": tables["lexer_reserved"],
        "grammar_accepted": tables["grammar_accepted"],
        "printer_only (quoted although the lexer would read them as identifiers)": extra_kw}
    quick = ck.tier == "quick"
    rng = core.SplitMix64(ck.seed * 1000003 + 13)
    corpus = corpus_lines()

    # ---- 2. strings: printer vs lexer vs parser
    strs = [uncps(l.split("\t")[1]) for l in corpus if l.startswith("esc\t")]
    strs += YAML_SPELLINGS + SEQS + SPECIAL + CONTROL + UNI
    strs += [a + b for a in ["%", "\\", "\"", "\r", "\n", "%{", "{"] for b in ["%", "\\", "\"", "\r", "\n", "{", "%{", "x"]]
    g = rng.fork()
    for _ in range(1500 if quick else 60000):
        strs.append(gen_string(g, 24))
    check_strings(ck, R, strs)

    # ---- 3. raw (mostly malformed) string literals: the automaton itself
    raws = [uncps(l.split("\t")[1]) for l in corpus if l.startswith("lex\t")]
    g = rng.fork()
    alpha = ["\"", "\\", "%", "{", "}", "\r", "\n", "\r\n", "x", "n", "r", "t", "'", "4", "1", "F", "g", "a", " ", "\t", "é", "\U0001F600", "\\x", "\\x4", "\\x41", "\\x7f", "\\x80", "\\xff", "\\u{41}", "%{", "\\%{", "\\%", "\\\\", "\\\"", "\\\n", "\\\r"]
    for _ in range(2500 if quick else 80000):
        body = "".join(g.choice(alpha) for _ in range(g.below(7)))
        raws.append("\"" + body + (g.choice(["\"", "\"", "\"", "", "\"x", "\" = 1"])))
    if not quick:
        # exhaustive: all bodies of length <= 4 over a 9-letter alphabet
        small = ["\"", "\\", "%", "{", "\r", "\n", "x", "n", "4"]
        def rec(prefix, d):
            raws.append("\"" + prefix + "\"")
            if d:
                for a in small:
                    rec(prefix + a, d - 1)
        rec("", 4)
    check_raw(ck, R, raws)

    # ---- 4. record keys
    keys = [uncps(l.split("\t")[1]) for l in corpus if l.startswith("key\t")]
    keys += tables["all_words"] + KEYWORD_KEYS + [w + s for w in tables["all_words"] for s in ["'", "-", "_", "1"]] + ["_" + w for w in tables["all_words"]]
    g = rng.fork()
    for _ in range(1500 if quick else 40000):
        keys.append(gen_key(g, tables))
    check_keys(ck, R, keys, tables)

    # ---- 5. integers and the decimal grid
    ints = INT_BOUNDS + INT_OUTSIDE + [-x for x in INT_BOUNDS]
    g = rng.fork()
    for _ in range(1200 if quick else 40000):
        ints.append(gen_int(g))
    check_ints(ck, R, ints)
    check_decimal_grid(ck, R, quick, rng.fork())

    # ---- 6. YAML scalar resolution and the emitter contract
    clf = check_yaml_scalars(ck, R, rng.fork(), quick, strs)

    # ---- 7. whole values: the direct oracles
    check_values(ck, R, rng.fork(), quick, tables, clf, corpus)

    # ---- 8. foreign documents
    check_documents(ck, R, rng.fork(), quick, clf, corpus)

    ck.coverage["rule"] = ("strings: YAML-significant spellings, quote/escape/interpolation sequences, control, BMP and non-BMP characters, random mixtures "
                           "(SplitMix64 from VERIF_SEED); raw literals: random and (thorough) exhaustive bodies over the lexer's significant alphabet; keys: every "
                           "reserved word of the three tables, their variations, identifier-like and odd keys; integers: boundaries of i64/u64/2^53/10^16 and random; "
                           "decimals: the full grid <=4 significant digits x exponents -6..6 (thorough) or a sample of it (quick); values: nested records/arrays "
                           "(depth <= 5, separate deep-nesting stream) over those leaves, a TOML-compatible half; documents: documents rendered from trees in "
                           "varied concrete syntax plus a separate malformed/out-of-scope stream. non-trivial = contains a character or number class that some "
                           "codec treats specially; distinct by exact text")
    ck.coverage["partial"] = "decimals through f64 are validated on the stated grid only (no theorem); external emitters/parsers are assumptions validated by the correspondence"
    ck.trusted += ["extraction: ExtrOcamlBasic only", "harness bin c13", "generators in checks/c13.py (SplitMix64, VERIF_SEED)",
                   "translator checks/c13_translate.py (regexes over lexer.rs, pretty.rs, grammar.lalrpop; fails closed)"]
    ck.assumptions += ["serde_json/serde_yaml/toml write i64/u64 with itoa", "serde_json reads integer tokens as u64/i64 when they fit",
                       "malachite Rational::from_sci_string as read in Codec/YamlScalar.v", "logos longest-match semantics as read in Codec/Escape.v",
                       "the YAML emitter quotes every string whose plain form is a non-string spelling (violated for the known classes)"]


# ----------------------------------------------------------------------------- the individual checks

def special_string(s):
    return any(c in s for c in "\"\\%\n\r") or any(ord(c) < 32 or ord(c) > 126 for c in s)


def check_strings(ck, R, strs):
    strs = list(dict.fromkeys(strs))
    cases = ["esc\t" + cps(s) for s in strs]
    a, b = R.both(cases)
    for s, case, x, y in zip(strs, cases, a, b):
        ck.case(key=case, nontrivial=special_string(s))
        fx, fy = fields(x), model_fields(y)
        for c in set(s):
            if c in "\"\\%{\n\r\t" or ord(c) < 32:
                ck.hist("string_chars", repr(c))
            elif ord(c) > 0xFFFF:
                ck.hist("string_chars", "non-BMP")
            elif ord(c) > 126:
                ck.hist("string_chars", "non-ASCII")
        ck.hist("string_length", min(len(s) // 8 * 8, 64))
        want = "S:" + cps(s)
        if fx.get("A") != want:
            ck.violation("escape:" + first_bad_char(s), "a string printed by the pretty-printer does not parse back to itself",
                         {"case": case, "string": s, "impl": x, "model": y, "how_to_replay": "./verif check C13 --replay <this file>"})
        elif fx.get("P") != fy.get("P") or fx.get("L") != fy.get("L"):
            corr_fail(ck, "escape/lex_string", case, x, y)
    ck.count("esc_cases", len(cases))
    ck.sample({"kind": "esc", "case": cases[min(40, len(cases) - 1)], "impl": a[min(40, len(a) - 1)][:200]})


def first_bad_char(s):
    for c in s:
        if c in "\"\\%{\n\r" or ord(c) < 32 or ord(c) > 126:
            return "U+%04X" % ord(c)
    return "plain"


def check_raw(ck, R, raws):
    raws = list(dict.fromkeys(raws))
    cases = ["lex\t" + cps(s) for s in raws]
    a, b = R.both(cases)
    for case, x, y in zip(cases, a, b):
        ck.case(key=case, nontrivial=True)
        cls = fields(x).get("L", "?")
        ck.hist("raw_literal_outcome", cls.split(":")[0] + (":" + cls.split(":")[1] if cls.startswith("E:") else ""))
        if x != y:
            corr_fail(ck, "lex_string(raw)", case, x, y)
    ck.count("raw_literal_cases", len(cases))


def check_keys(ck, R, keys, tables):
    keys = list(dict.fromkeys(keys))
    cases = ["key\t" + cps(k) for k in keys]
    a, b = R.both(cases)
    for k, case, x, y in zip(keys, cases, a, b):
        fx, fy = fields(x), model_fields(y)
        ck.case(key=case, nontrivial=(k in tables["all_words"] or special_string(k) or not k.isalnum()))
        quoted = fx.get("P", "").startswith("34")
        ck.hist("key_printed", "quoted" if quoted else "bare")
        if k in tables["all_words"]:
            ck.hist("key_reserved_word", "quoted" if quoted else "bare")
        if fx.get("K") != cps(k):
            ck.violation("key:" + (k if k in tables["all_words"] else first_bad_char(k)),
                         "a record key printed by ident_quoted is not read back as the same key",
                         {"case": case, "key": k, "impl": x, "model": y})
        elif fx.get("PP") != "same":
            ck.obligation("printer-uses-ident_quoted", "correspondence", False, case + " " + x)
        elif fx.get("P") != fy.get("P") or fx.get("K") != fy.get("K"):
            corr_fail(ck, "print_key/lex_key", case, x, y)
    # normal-mode first token on key-like text followed by odd continuations
    toks = []
    for k in keys[:600]:
        for suf in ["", " ", "%\"", "%%\"", "=", "'", "-s%\"", ".a", "%{"]:
            toks.append(k + suf)
    toks = [t for t in dict.fromkeys(toks) if t and not t[0].isspace() and not t.startswith("#")]
    tcases = ["ktok\t" + cps(t) for t in toks]
    a, b = R.both(tcases)
    for case, x, y in zip(tcases, a, b):
        ck.case(key=case, nontrivial=True)
        ck.hist("first_token", x.split(":")[0])
        if x != y and not (y == "O" and x.startswith("E:")):
            corr_fail(ck, "lex_key(first token)", case, x, y)


def intlike(tok):
    t = tok[1:] if tok.startswith("-") else tok
    return t.isdigit()


def check_ints(ck, R, ints):
    ints = list(dict.fromkeys(ints))
    cases = ["int\t" + bits(n) for n in ints]
    a, b = R.both(cases)
    for n, case, x, y in zip(ints, cases, a, b):
        fx, fy = fields(x), model_fields(y)
        inrange = -2 ** 63 <= n < 2 ** 64
        ck.case(key=case, nontrivial=abs(n) >= 2 ** 53)
        ck.hist("int_class", "outside" if not inrange else ("u64-only" if n > 2 ** 63 - 1 else ("beyond-2^53" if abs(n) > 2 ** 53 else "small")))
        tok = uncps(fx.get("T", "-")) if not fx.get("T", "").startswith("!") else None
        # direct oracle: inside the exact range everything reads back n
        if inrange:
            bad = []
            if tok != str(n):
                bad.append("json token %r" % tok)
            for tag in ("J", "JL", "Y"):
                if fx.get(tag) != "N:%d" % n:
                    bad.append("%s=%s" % (tag, fx.get(tag)))
            if n <= 2 ** 63 - 1:
                for tag in ("M", "MI"):
                    if fx.get(tag) != "N:%d" % n:
                        bad.append("%s=%s" % (tag, fx.get(tag)))
                if uncps(fx.get("TT", "-")) != str(n):
                    bad.append("toml token")
            else:
                if not fx.get("TT", "").startswith("!emit"):
                    bad.append("toml accepted a u64 beyond i64: %s" % fx.get("TT"))
                else:
                    ck.count("toml_u64_beyond_i64_rejected_by_emitter")
            if bad:
                ck.violation("int:%s" % ("u64" if n > 2 ** 63 - 1 else "i64"), "an integer of the 64-bit range does not survive: " + "; ".join(bad),
                             {"case": case, "n": str(n), "impl": x, "model": y})
                continue
        # correspondence with the model
        if fy.get("P") == "f64":
            if inrange or (tok is not None and intlike(tok) and n != int(tok)):
                corr_fail(ck, "serialize_int(path)", case, x, y)
        else:
            if fy.get("T") != fx.get("T"):
                corr_fail(ck, "int_token", case, x, y)
            for tag_m, tags_i in (("Y", ["Y"]), ("JL", ["JL"]), ("J", ["J"]), ("M", ["M"])):
                pm = parse_model_sres(fy.get(tag_m, "?"))
                for ti in tags_i:
                    if ti == "M" and fy.get("M") == "E":
                        continue
                    if parse_impl_sres(fx.get(ti, "?")) != pm:
                        corr_fail(ck, "int read-back " + ti, case, x, y)
    ck.count("int_cases", len(cases))
    ck.sample({"kind": "int", "case": cases[3], "impl": a[3][:300], "model": b[3][:300]})


def check_decimal_grid(ck, R, quick, rng):
    grid = []
    if quick:
        for _ in range(1500):
            grid.append(gen_decimal(rng))
        grid += [Fraction(m, 10 ** k) for m in (1, 5, 9999, 1001, 1234) for k in range(0, 7)]
    else:
        for m in range(1, 10000):
            if m % 10 == 0:
                continue
            for e in range(-6, 7):
                grid.append(Fraction(m) * Fraction(10) ** e)
    grid += [Fraction(1, 2), Fraction(1, 4), Fraction(3, 8), Fraction(-1, 10), Fraction(15, 10), Fraction(9999, 10 ** 10), Fraction(1, 10 ** 6), Fraction(9999 * 10 ** 6)]
    grid = list(dict.fromkeys(grid + [-x for x in grid[:200]]))
    cases = ["num\t" + frac_str(q) for q in grid]
    a = R.impl_only(cases)
    for q, case, x in zip(grid, cases, a):
        fx = fields(x)
        ck.case(key=case, nontrivial=True)
        ck.hist("decimal_exponent", "int" if q.denominator == 1 else "frac")
        bad = [t for t in ("J", "JL", "Y", "M") if fx.get(t) != "N:%s" % (str(q.numerator) if q.denominator == 1 else "%d/%d" % (q.numerator, q.denominator))]
        if bad:
            ck.violation("decimal:" + ",".join(bad), "a short decimal does not read back as the same rational", {"case": case, "q": str(q), "impl": x})
            continue
        mi = fx.get("MI", "")
        want = "N:%s" % (str(q.numerator) if q.denominator == 1 else "%d/%d" % (q.numerator, q.denominator))
        if mi != want:
            ck.violation("decimal:MI", "a short decimal imported from a TOML file is not the same rational", {"case": case, "q": str(q), "impl": x})
    ck.count("decimal_grid_cases", len(cases))
    ck.coverage["decimal_grid"] = "%d decimals compared as exact rationals through JSON (serde + event loader), YAML, TOML (serde + import)" % len(cases)


def check_yaml_scalars(ck, R, rng, quick, strs):
    # (a) scalar events the loader receives, from documents in varied styles/tags
    vals = list(YAML_SPELLINGS)
    for _ in range(1500 if quick else 40000):
        vals.append(gen_string(rng, 10))
    docs = [yaml_scalar_doc(rng, v) for v in vals for _ in range(2)]
    docs = list(dict.fromkeys(docs))
    cases = ["ys\t" + cps(d) for d in docs]
    a = R.impl_only(cases)
    mcases, keep = [], []
    for case, x in zip(cases, a):
        fx = fields(x)
        ev = fx.get("EV", "none")
        if ev in ("none", "scanerr") or ev.count(":") != 2:
            ck.count("yaml_docs_without_value_scalar_or_rejected")
            continue
        st, tg, v = ev.split(":")
        mcases.append("ys\t%s\t%s\t%s" % (st, tg, v))
        keep.append((case, x, st, tg))
    b = R.model_only(mcases)
    for (case, x, st, tg), mc, y in zip(keep, mcases, b):
        ck.case(key=mc, nontrivial=True)
        ck.hist("yaml_scalar_style", st)
        ck.hist("yaml_scalar_tag", tg)
        ri = parse_impl_sres(fields(x).get("R", "?"))
        rm = parse_model_sres(y.split(" ")[0])
        ck.hist("yaml_resolution", rm[0])
        if ri != rm:
            corr_fail(ck, "resolve(push_scalar)", case + " / " + mc, x, y)
    # (b) the emitter contract: strings written by serde_yaml
    es = list(dict.fromkeys(YAML_SPELLINGS + strs[:4000 if quick else 60000]))
    ecases = ["emit\t" + cps(s) for s in es]
    a = R.impl_only(ecases)
    mcases, keep = [], []
    for s, case, x in zip(es, ecases, a):
        fx = fields(x)
        ev = fx.get("EV", "")
        if ev.count(":") != 2:
            # the exported document cannot even be scanned back
            if ev == "scanerr" and has_lsps(s):
                ck.hist("emitter_contract_breach", "yaml-ls-ps-string")
                ck.violation("yaml-ls-ps-string", KNOWN_TEXT["yaml-ls-ps-string"],
                             {"case": case, "string": s, "impl": x, "nickel": "std.deserialize 'Yaml (std.serialize 'Yaml %s)" % json.dumps(s)})
            else:
                ck.violation("yaml-emit-unreadable:" + first_bad_char(s), "the YAML text exported for a string cannot be read back", {"case": case, "string": s, "impl": x})
            continue
        st, tg, v = ev.split(":")
        mcases.append("ys\t%s\t%s\t%s" % (st, tg, v))
        keep.append((s, case, x, st, v))
    b = R.model_only(mcases)
    cache = {}
    lsps_retry = []
    for (s, case, x, st, v), y in zip(keep, b):
        ck.case(key=case, nontrivial=True)
        ck.hist("emitted_style", st)
        rm = parse_model_sres(y.split(" ")[0])
        mf = model_fields(y)
        ri = parse_impl_sres(fields(x).get("R", "?"))
        cache[uncps(v)] = (rm, mf.get("ns") == "1", mf.get("ov") == "1")
        if uncps(v) != s and st != "plain":
            # the scalar text must be the string (quoted styles carry it verbatim)
            if has_lsps(s) and lsps_norm(uncps(v)) == lsps_norm(s):
                ck.hist("emitter_contract_breach", "yaml-ls-ps-string")
                ck.violation("yaml-ls-ps-string", KNOWN_TEXT["yaml-ls-ps-string"],
                             {"case": case, "string": s, "impl": x, "nickel": "std.deserialize 'Yaml (std.serialize 'Yaml %s)" % json.dumps(s)})
            elif has_lsps(s):
                lsps_retry.append((s, case, x))
            else:
                ck.violation("yaml-emit-text:" + first_bad_char(s), "the YAML emitter wrote a scalar whose content is not the string",
                             {"case": case, "string": s, "impl": x})
            continue
        if ri != rm:
            corr_fail(ck, "resolve(emitted scalar)", case, x, y)
            continue
        if ri != ("S:" + cps(s),):
            # direct oracle: the string did not come back
            key = None
            if st == "plain" and mf.get("ov") == "1" and rm[0] == "N":
                key = "yaml-float-overflow-string"
            ck.hist("emitter_contract_breach", key or ("plain non-string spelling" if (st == "plain" and mf.get("ns") == "1") else "other"))
            ck.violation(key or ("yaml-string:" + s[:20]), KNOWN_TEXT.get(key, "a string does not survive YAML export/import" +
                         (": the emitter writes it as a plain scalar that the loader reads as a non-string" if st == "plain" else "")),
                         {"case": case, "string": s, "impl": x, "model": y,
                          "nickel": "std.deserialize 'Yaml (std.serialize 'Yaml %s)" % json.dumps(s)})

    if lsps_retry:
        # the same strings without U+2028/U+2029 must survive; then the failure is the known one
        c2 = ["emit\t" + cps(s.replace("\u2028", "x").replace("\u2029", "x")) for s, _, _ in lsps_retry]
        for (s, case, x), x2 in zip(lsps_retry, R.impl_only(c2)):
            s2 = s.replace("\u2028", "x").replace("\u2029", "x")
            if fields(x2).get("R") == "S:" + cps(s2):
                ck.hist("emitter_contract_breach", "yaml-ls-ps-string")
                ck.violation("yaml-ls-ps-string", KNOWN_TEXT["yaml-ls-ps-string"], {"case": case, "string": s, "impl": x})
            else:
                ck.violation("yaml-emit-text:" + first_bad_char(s), "the YAML emitter wrote a scalar whose content is not the string",
                             {"case": case, "string": s, "impl": x, "without_ls_ps": x2})

    def model_ys(s):
        if s not in cache:
            y = R.model_only(["ys\tplain\tnone\t" + cps(s)])[0]
            mf = model_fields(y)
            cache[s] = (parse_model_sres(y.split(" ")[0]), mf.get("ns") == "1", mf.get("ov") == "1")
        return cache[s]
    return Classifier(model_ys)


ORACLES = ["des", "fix", "imp", "ev", "evser", "conv", "docs"]


def check_values(ck, R, rng, quick, tables, clf, corpus):
    specs = [json.loads(l.split("\t")[1]) for l in corpus if l.startswith("val\t")]
    n = 3000 if quick else 100000
    for i in range(n):
        toml_ok = rng.chance(1, 2)
        specs.append(gen_value(rng, rng.range(1, 5), tables, toml_ok, top=True))
    cases = ["val\t" + json.dumps(s, ensure_ascii=True, separators=(",", ":")) for s in specs]
    recheck = []     # (case, fmt, oracle, result): YAML errors on values containing U+2028/U+2029
    deep = []
    for d in ([5, 20, 60, 100, 127, 128, 200] if quick else [5, 20, 40, 60, 70, 80, 90, 100, 120, 126, 127, 128, 129, 200, 400, 1000]):
        for leaf in ({"s": "%{x}\"\\"}, {"n": "1/10"}, {"a": []}):
            for pat in ("a" * d, "r" * d, "".join(rng.choice("ar") for _ in range(d))):
                deep.append((d, "deep\t%s\t%s" % (pat, json.dumps(leaf))))
    specs += [{"deep": d} for d, _ in deep]
    cases += [c for _, c in deep]
    a = R.impl_only(cases)
    nfail = 0
    for spec, case, x in zip(specs, cases, a):
        ck.case(key=case, nontrivial=len(case) > 60)
        ck.hist("value_top", list(spec.keys())[0])
        depth = spec.get("deep")
        if depth is not None:
            ck.hist("deep_nesting_depth", depth)
        ck.hist("value_size", min(len(case) // 100 * 100, 1000))
        if x.startswith("PANIC") or x.startswith("!") or x == "<missing>":
            ck.violation("val-panic", "the harness panicked on a data value", {"case": case, "impl": x})
            continue
        per = {}
        for f in x.split("\t"):
            k, v = f.split("=", 1)
            per[k] = v
        for fmt in ("json", "yaml", "toml"):
            ser = per.get(fmt + ".ser", "?")
            ck.hist("serialize_outcome", fmt + ":" + ser.split("(")[0] + ("(" + ser.split("(")[1] if ser.startswith("ERR(") or ser.startswith("skip") else ""))
            if ser.startswith("skip"):
                continue
            if ser.startswith("ERR("):
                cls = ser[4:-1]
                allowed = (fmt == "toml" and (cls == "null" or "out-of-range_value_for_u64" in cls))
                if not allowed:
                    ck.violation("serialize-error:%s:%s" % (fmt, cls[:30]), "a data value cannot be serialised", {"case": case, "impl": x})
                continue
            keys_here = set()
            fails = []
            for o in ORACLES:
                r = per.get("%s.%s" % (fmt, o))
                if r is None:
                    if o not in ("fix", "docs"):
                        fails.append((o, "missing", None))
                    continue
                if r == "ok":
                    ck.count("oracle_ok:%s.%s" % (fmt, o))
                    continue
                ck.count("oracle_fail:%s.%s" % (fmt, o))
                payload = r[r.index("(") + 1:-1] if "(" in r else r
                if depth is not None and depth >= 60 and r.startswith("ERR(") and fmt in ("json", "toml") and \
                        ("recursion_limit" in r or (fmt == "toml" and depth >= 80) or (fmt == "json" and depth >= 126 and "Deserialization" in r)):
                    # the external parsers' nesting limits (serde_json: 128, toml: about 80): an error, not a wrong value
                    ck.count("depth_limit_error:%s.%s" % (fmt, o))
                    ck.hist("depth_limit_first_seen:" + fmt, depth)
                    continue
                key = clf.classify(fmt, o, payload) if r.startswith("DIFF(") else None
                if key:
                    keys_here.add(key)
                fails.append((o, r, key))
            if fmt == "yaml" and any(key is None and o in ("des", "imp", "ev", "conv", "docs") for o, r, key in fails) and "deep" not in spec \
                    and (any(has_lsps(t) for t in spec_strings(spec)) or newline_only_docs(spec)):
                # a YAML failure that the payload alone does not explain, on a value with U+2028/U+2029 or a
                # newline-only document: decided by running the oracles again on the value without them
                recheck.append((spec, case, fails))
                continue
            for o, r, key in fails:
                if key is None and o in ("fix", "evser") and keys_here:
                    # the re-export of a value that was already read back wrong: same finding
                    key = sorted(keys_here)[0]
                if key is None and r.startswith("ERR(") and keys_here and o in ("fix",):
                    key = sorted(keys_here)[0]
                nfail += 1
                replay = {"case": case + "\tdetail", "format": fmt, "oracle": o, "result": r[:400]}
                if key:
                    ck.violation(key, KNOWN_TEXT[key], replay)
                else:
                    ck.violation("roundtrip:%s.%s:%s" % (fmt, o, r[:40]), "round trip through %s fails (%s)" % (fmt, o), replay)
    # second pass: are U+2028/U+2029 (and, for 'YamlDocuments, newline-only documents) the only reason?
    if recheck:
        def yaml_results(spec2s):
            c2 = ["val\t" + json.dumps(sp, ensure_ascii=True, separators=(",", ":")) for sp in spec2s]
            return [dict(f.split("=", 1) for f in x2.split("\t") if "=" in f) for x2 in R.impl_only(c2)]

        def good(per2, o):
            r2 = per2.get("yaml." + o, "ok")
            return r2 == "ok" or (r2.startswith("DIFF(") and clf.classify("yaml", o, r2[5:-1]) is not None)
        t1 = [replace_lsps(sp) for sp, _, _ in recheck]
        r1 = yaml_results(t1)
        t2 = [replace_newline_docs(sp) for sp in t1]
        r2 = yaml_results(t2)
        for (spec, case, fails), p1, p2, sp1 in zip(recheck, r1, r2, t1):
            lsps = any(has_lsps(t) for t in spec_strings(spec))
            for o, r, key in fails:
                nfail += 1
                replay = {"case": case + "\tdetail", "format": "yaml", "oracle": o, "result": r[:400]}
                if key is None and o in ("fix", "evser"):
                    o_eff = "des"
                else:
                    o_eff = o
                if key is None and lsps and good(p1, o_eff):
                    key = "yaml-ls-ps-string"
                    ck.count("yaml_failure_attributed_to_ls_ps")
                elif key is None and o == "docs" and newline_only_docs(sp1) and good(p2, "docs"):
                    key = "yamldocs-newlines-string"
                if key:
                    ck.violation(key, KNOWN_TEXT[key], replay)
                else:
                    ck.violation("roundtrip:yaml.%s:%s" % (o, r[:40]), "round trip through yaml fails (%s)" % o, replay)
    ck.count("value_cases", len(cases))
    ck.count("value_oracle_failures", nfail)
    ck.sample({"kind": "val", "case": cases[1][:300], "impl": a[1][:400]})


# ---- documents

def render_json(rng, v, indent=0):
    ws = lambda: rng.choice(["", "", " ", "\n", "\t", "  "])
    if v is None:
        return "null"
    if v is True:
        return "true"
    if v is False:
        return "false"
    if isinstance(v, Fraction):
        if v.denominator == 1:
            n = v.numerator
            c = rng.below(10)
            if c == 0 and abs(n) < 10 ** 15:
                return "%d.0" % n
            if c == 1 and n != 0 and abs(n) < 10 ** 15 and n % 10 == 0:
                z = len(str(abs(n))) - len(str(abs(n)).rstrip("0"))
                return "%de%d" % (n // 10 ** z, z)
            if c == 2 and abs(n) < 10 ** 15:
                return "%dE+0" % n
            return str(n)
        # short decimal
        s = "%.10f" % float(v)
        s = s.rstrip("0")
        if Fraction(s) != v:
            s = repr(float(v))
        return s
    if isinstance(v, str):
        return json.dumps(v, ensure_ascii=rng.chance(1, 2))
    if isinstance(v, list):
        return "[" + ws() + ("," + ws()).join(render_json(rng, e) for e in v) + ws() + "]"
    return "{" + ws() + ("," + ws()).join(json.dumps(k, ensure_ascii=rng.chance(1, 2)) + ws() + ":" + ws() + render_json(rng, e) for k, e in v.items()) + ws() + "}"


def toml_key(rng, k):
    if k and all(c.isalnum() and ord(c) < 128 or c in "_-" for c in k) and rng.chance(2, 3):
        return k
    if "'" not in k and "\n" not in k and "\r" not in k and all(ord(c) >= 32 or c == "\t" for c in k) and all(ord(c) != 127 for c in k) and rng.chance(1, 2):
        return "'" + k + "'"
    return toml_basic(k)


def toml_basic(s):
    out = []
    for c in s:
        o = ord(c)
        if c == "\"":
            out.append("\\\"")
        elif c == "\\":
            out.append("\\\\")
        elif c == "\n":
            out.append("\\n")
        elif c == "\r":
            out.append("\\r")
        elif c == "\t":
            out.append("\\t")
        elif o < 32 or o == 127:
            out.append("\\u%04X" % o)
        else:
            out.append(c)
    return "\"" + "".join(out) + "\""


def render_toml_value(rng, v):
    if v is True:
        return "true"
    if v is False:
        return "false"
    if isinstance(v, Fraction):
        if v.denominator == 1:
            n = v.numerator
            c = rng.below(8)
            if c == 0 and n >= 0:
                return "+%d" % n
            if c == 1 and abs(n) >= 1000:
                s = str(abs(n))
                return ("-" if n < 0 else "") + s[:-3] + "_" + s[-3:]
            if c == 2 and 0 <= n < 2 ** 62:
                return rng.choice([hex(n), oct(n).replace("0o", "0o"), bin(n)])
            return str(n)
        s = repr(float(v))
        return s if ("." in s or "e" in s) else s + ".0"
    if isinstance(v, str):
        return toml_basic(v)
    if isinstance(v, list):
        return "[" + ", ".join(render_toml_value(rng, e) for e in v) + "]"
    return "{ " + ", ".join(toml_key(rng, k) + " = " + render_toml_value(rng, e) for k, e in v.items()) + " }"


def render_toml(rng, v):
    """v: dict at top level, no None inside"""
    lines, tables_ = [], []
    for k, e in v.items():
        if isinstance(e, dict) and e and rng.chance(1, 2):
            tables_.append((k, e))
        else:
            lines.append(toml_key(rng, k) + " = " + render_toml_value(rng, e))
    for k, e in tables_:
        lines.append("[" + toml_key(rng, k) + "]")
        for kk, ee in e.items():
            lines.append(toml_key(rng, kk) + " = " + render_toml_value(rng, ee))
    return "\n".join(lines) + "\n"


def has_none(v):
    if v is None:
        return True
    if isinstance(v, list):
        return any(has_none(e) for e in v)
    if isinstance(v, dict):
        return any(has_none(e) for e in v.values())
    return False


def show_py(v):
    """the harness' show_tree for a python value"""
    if v is None:
        return "null"
    if v is True:
        return "true"
    if v is False:
        return "false"
    if isinstance(v, Fraction):
        return "#%d" % v.numerator if v.denominator == 1 else "#%d/%d" % (v.numerator, v.denominator)
    if isinstance(v, str):
        return "s" + cps(v)
    if isinstance(v, list):
        return "[" + ",".join(show_py(e) for e in v) + "]"
    return "{" + ",".join("%s:%s" % (cps(k), show_py(e)) for k, e in sorted(v.items())) + "}"


MALFORMED_JSON = ["", " ", "{", "}", "[", "]", "[1,]", "{\"a\":}", "{\"a\" 1}", "{a:1}", "'a'", "[1 2]", "nul", "tru", "+1", "01", "1.", ".5",
                  "1e", "1e+", "-", "--1", "0x10", "\"\\x41\"", "\"\\u12\"", "\"\\ud800\"", "\"\\udc00\\ud800\"", "\"\\ud83d\\ude00\"",
                  "\"a\nb\"", "\"\t\"", "[\"\\u0000\"]", "{\"a\":1,\"a\":2}", "{\"a\":1,\"a\":1}", "{\"a\":{\"b\":1},\"a\":{\"c\":2}}",
                  "1e400", "-1e400", "[1e309]", "123456789012345678901234567890", "0.1234567890123456789", "1.8446744073709552e19",
                  "18446744073709551616", "-9223372036854775809", "1E400", "[-0]", "[-0.0]", "[0e0]", "1 2", "[1]x", "\ufeff1", "NaN", "Infinity",
                  "[1e-400]", "4e-324", "2.2250738585072014e-308", "1.7976931348623157e308", "9007199254740993", "0.30000000000000004",
                  "[" * 200 + "]" * 200, "{\"\":1}", "{\"\\u0000\":1}", "\"\\/\"", "[1,2", "/* c */ 1", "// c\n1", "true false", "\"unterminated"]
MALFORMED_TOML = ["a = inf", "a = nan", "a = -inf", "a = +nan", "a = 1e400", "a = 0.1", "a = 1.5", "a = 1e3", "a = 1979-05-27", "a = 07:32:00",
                  "a = 1979-05-27T07:32:00Z", "a = 9223372036854775808", "a = -9223372036854775809", "a = 0x7FFFFFFFFFFFFFFF", "a = 1\na = 2",
                  "[a]\nb = 1\n[a]\nc = 2", "a.b = 1\na.c = 2", "a = {b = 1}\na.c = 2", "[[a]]\nb = 1\n[[a]]\nb = 2", "a = [1, 'x', {b = 1}]",
                  "\"\" = 1", "'' = 1", "a = '''x\ny'''", "a = \"\"\"\nx\\\n   y\"\"\"", "a = \"\\u00e9\\U0001F600\"", "a = \"\\ud800\"", "a =", "= 1",
                  "a = 1 b = 2", "a = 01", "a = 1_", "a = 1__0", "a = +0x10", "a = 0.1e", "a = .5", "a = 5.", "a = 1e1_0", "\ufeffa = 1", "a = 1 # c",
                  "a = -0", "a = -0.0", "a = 1e-400", "a = 3.14159", "a = 6.626e-34", "a = 0.30000000000000004", "a = 4.9e-324"]
MALFORMED_YAML = ["a: &x 1\nb: *x\n", "a: &x [1, 2]\nb: *x\n", "&a [*a]\n", "a: *nope\n", "? [1, 2]\n: 3\n", "1: 2\n", "null: 1\ntrue: 2\n~: 3\n",
                  "a: 1\na: 2\n", "---\n1\n---\n2\n", "--- 1\n...\n", "", "# only a comment\n", "a: !!int \"5\"\n", "a: !!int 5x\n", "a: !!float .inf\n", "a: .inf\n",
                  "a: .nan\n", "a: -.INF\n", "a: !!str 5\n", "a: !!null \"\"\n", "a: !!bool True\n", "a: !foo 5\n", "a: !!binary aGk=\n", "a: !!set {x}\n",
                  "a: 0x1F\nb: 0o17\nc: 0b11\nd: +5\ne: 1_000\n", "a: 1e400\n", "a: 1e99999999999999999999\n", "a: 0x-5\n", "a: ++5\n",
                  "a: |\n  x\n  y\n", "a: >\n  x\n  y\n", "a: |+\n  x\n\n", "a: \"x\\\n   y\"\n", "a: 'it''s'\n", "a: \"\\x41\\u00e9\\U0001F600\\N\\_\\L\\P\"\n",
                  "a:\tb\n", "a: [1, 2\n", "a: {b: 1, c}\n", "a: b: c\n", "- - - 1\n", "a: 12:30:00\n", "a: 2001-12-14\n", "a: yes\nb: No\nc: on\n", "a: ~\nb:\n",
                  "%YAML 1.1\n---\na: 1\n", "\ufeffa: 1\n", "a: \u00851\n", "a: \"\u2028\"\n", "<<: {a: 1}\nb: 2\n", "a: &x {b: *x}\n", "- &a\n  - *a\n",
                  "a: 0.1\nb: 1.5e3\nc: -0\nd: 007\ne: 0x\n", "a: 123456789012345678901234567890\n", "a: 18446744073709551615\n", "a: -9223372036854775809\n"]


def parse_show(s):
    """harness show_tree -> python value (Fractions for numbers, ("?", text) for anything else)"""
    pos = 0

    def val():
        nonlocal pos
        c = s[pos]
        if c == "[":
            pos += 1
            out = []
            while s[pos] != "]":
                out.append(val())
                if s[pos] == ",":
                    pos += 1
            pos += 1
            return out
        if c == "{":
            pos += 1
            out = {}
            while s[pos] != "}":
                j = s.index(":", pos)
                k = s[pos:j]
                pos = j + 1
                out[k] = val()
                if s[pos] == ",":
                    pos += 1
            pos += 1
            return out
        j = pos
        while j < len(s) and s[j] not in ",]}":
            j += 1
        tok = s[pos:j]
        pos = j
        if tok == "null":
            return None
        if tok in ("true", "false"):
            return tok == "true"
        if tok.startswith("#"):
            return Fraction(tok[1:])
        if tok.startswith("s"):
            return ("s", tok[1:])
        return ("?", tok)
    try:
        v = val()
        return v if pos == len(s) else ("?", s)
    except (ValueError, IndexError):
        return ("?", s)


def narrow_decimal(q):
    """is the rational one of the short decimals of the statement (<= 4 significant digits, exponent -6..6)
    or an integer of the 64-bit range?"""
    q = Fraction(q)
    if q.denominator == 1:
        return -2 ** 63 <= q.numerator < 2 ** 64
    try:
        d = Fraction(repr(float(q)))
    except (OverflowError, ValueError):
        return False
    if d != q:
        return False
    m, e = abs(d.numerator), 0
    den = d.denominator
    while den % 10 == 0:
        den //= 10
        e -= 1
    if den != 1:
        # scale to an integer mantissa
        k = 0
        while (d * 10 ** k).denominator != 1:
            k += 1
            if k > 400:
                return False
        m, e = abs((d * 10 ** k).numerator), -k
    while m % 10 == 0 and m:
        m //= 10
        e += 1
    return m < 10 ** 4 and -6 <= e <= 6


def differ_only_beyond_scope(a, b):
    """two values that are equal except at number leaves that are outside the statement's number scope
    (neither a <=4-digit decimal with exponent -6..6 nor a 64-bit integer)"""
    if isinstance(a, Fraction) and isinstance(b, Fraction):
        if a == b:
            return True
        return not (narrow_decimal(a) or narrow_decimal(b))
    if isinstance(a, list) and isinstance(b, list):
        return len(a) == len(b) and all(differ_only_beyond_scope(x, y) for x, y in zip(a, b))
    if isinstance(a, dict) and isinstance(b, dict):
        return a.keys() == b.keys() and all(differ_only_beyond_scope(a[k], b[k]) for k in a)
    return a == b


def same_f64(a, b):
    if isinstance(a, Fraction) and isinstance(b, Fraction):
        try:
            return float(a) == float(b)
        except OverflowError:
            return False
    if isinstance(a, list) and isinstance(b, list):
        return len(a) == len(b) and all(same_f64(x, y) for x, y in zip(a, b))
    if isinstance(a, dict) and isinstance(b, dict):
        return a.keys() == b.keys() and all(same_f64(a[k], b[k]) for k in a)
    return a == b


class _Tok(str):
    """a raw JSON number token"""


def json_strict(text):
    """Independent strict JSON reading: numbers kept as tokens, object members as ordered pairs
    (duplicates kept).  Raises ValueError on invalid JSON."""
    def bad(x):
        raise ValueError("constant " + x)
    try:
        t = json.loads(text, parse_int=_Tok, parse_float=_Tok, parse_constant=bad, object_pairs_hook=lambda ps: ("obj", ps))
    except RecursionError as ex:
        raise ValueError("too deep") from ex

    def no_surrogates(v):
        if isinstance(v, str) and any(0xD800 <= ord(c) <= 0xDFFF for c in v):
            raise ValueError("lone surrogate")
        if isinstance(v, list):
            for e in v:
                no_surrogates(e)
        if isinstance(v, tuple):
            for k, e in v[1]:
                no_surrogates(k)
                no_surrogates(e)
    no_surrogates(t)
    return t


def json_depth(t):
    if isinstance(t, list):
        return 1 + max([json_depth(e) for e in t] or [0])
    if isinstance(t, tuple):
        return 1 + max([json_depth(e) for _, e in t[1]] or [0])
    return 0


def json_events(t, out):
    if t is None:
        out.append("z")
    elif t is True:
        out.append("t")
    elif t is False:
        out.append("f")
    elif isinstance(t, _Tok):
        out.append("n:" + cps(t))
    elif isinstance(t, str):
        out.append("s:" + cps(t))
    elif isinstance(t, list):
        out.append("[")
        for e in t:
            json_events(e, out)
        out.append("]")
    else:
        out.append("{")
        for k, e in t[1]:
            out.append("s:" + cps(k))
            json_events(e, out)
        out.append("}")
    return out


def json_facts(t, facts):
    """dup keys / number tokens outside the statement's scope"""
    if isinstance(t, _Tok):
        tok = str(t)
        if tok.lstrip("-").isdigit():
            if not (-2 ** 63 <= int(tok) < 2 ** 64) or tok in ("-0",):
                facts.add("number-out-of-scope")
        else:
            mant = tok.lower().split("e")[0].replace("-", "").replace(".", "").strip("0")
            exp = int(tok.lower().split("e")[1]) if "e" in tok.lower() else 0
            if len(mant) > 15 or abs(exp) > 22:
                facts.add("number-out-of-scope")
    elif isinstance(t, list):
        for e in t:
            json_facts(e, facts)
    elif isinstance(t, tuple):
        ks = [k for k, _ in t[1]]
        if len(set(ks)) != len(ks):
            facts.add("duplicate-keys")
        for _, e in t[1]:
            json_facts(e, facts)
    return facts


def toml_facts(text):
    import tomllib
    import datetime
    try:
        d = tomllib.loads(text)
    except Exception:
        return None
    facts = set()

    def walk(v):
        if isinstance(v, (datetime.datetime, datetime.date, datetime.time)):
            facts.add("datetime")
        elif isinstance(v, float):
            facts.add("float")
        elif isinstance(v, int) and not isinstance(v, bool) and not (-2 ** 63 <= v < 2 ** 63):
            facts.add("int-beyond-i64")
        elif isinstance(v, list):
            for e in v:
                walk(e)
        elif isinstance(v, dict):
            for e in v.values():
                walk(e)
    walk(d)
    return facts


def norm_model_show(s):
    """model show -> harness show (numbers as #p or #p/q)"""
    import re

    def f(m):
        q = Fraction(int(m.group(1))) * Fraction(10) ** int(m.group(2) or 0)
        return "#%d" % q.numerator if q.denominator == 1 else "#%d/%d" % (q.numerator, q.denominator)
    return re.sub(r"#(-?\d+)(?:e(-?\d+))?", f, s)


def check_documents(ck, R, rng, quick, clf, corpus):
    tables = {"all_words": ["if", "null", "or", "a"]}
    docs = []
    n = 800 if quick else 30000
    for i in range(n):
        toml_ok = rng.chance(1, 3)
        spec = gen_value(rng, rng.range(1, 4), tables, toml_ok, top=True)
        v = spec_to_py(spec)
        if toml_ok and isinstance(v, dict) and not has_none(v):
            docs.append(("toml", render_toml(rng, v), v, True))
        else:
            docs.append(("json", render_json(rng, v), v, True))
    for l in corpus:
        if l.startswith("doc\t"):
            _, fmt, t = l.split("\t")
            docs.append((fmt, uncps(t), None, False))
    for t in MALFORMED_JSON:
        docs.append(("json", t, None, False))
    for t in MALFORMED_TOML:
        docs.append(("toml", t + "\n", None, False))
    for t in MALFORMED_YAML:
        docs.append(("yaml", t, None, False))
    for fmt, text, v, _ in list(docs[:200 if quick else 5000]):
        if not text:
            continue
        i = rng.below(len(text))
        m = rng.below(4)
        t2 = text[:i] + text[i + 1:] if m == 0 else (text[:i] + rng.choice(list("\"\\{}[],:=.-+e0\n'#")) + text[i:] if m == 1 else
                                                     (text[:i] + text[i:i + 3] + text[i:] if m == 2 else text[:i]))
        docs.append((fmt, t2, None, False))
    import re
    # a number token with a huge exponent makes the event loader compute 10^e exactly (unbounded memory):
    # outside this property, reported in the notes; never generated
    huge = re.compile(r"[0-9.][eE][+-]?[0-9]{5,}")
    ck.count("documents_dropped_for_huge_exponent", len([d for d in docs if huge.search(d[1])]))
    docs = [d for d in docs if not any(0xD800 <= ord(c) <= 0xDFFF for c in d[1]) and not huge.search(d[1])]
    cases = ["doc\t%s\t%s" % (fmt, cps(t)) for fmt, t, v, ins in docs]
    a = R.impl_only(cases)
    # the event-level models on every JSON document that is valid JSON
    ev_cases, ev_idx = [], []
    for i, (fmt, text, v, ins) in enumerate(docs):
        if fmt != "json":
            continue
        try:
            tree = json_strict(text)
        except ValueError:
            continue
        ev_cases.append("evs\t" + " ".join(json_events(tree, [])))
        ev_idx.append((i, tree))
    mres = R.model_only(ev_cases)
    model_of = {i: (mres[j], tree) for j, (i, tree) in enumerate(ev_idx)}
    obs = {}
    for i, ((fmt, text, v, inscope), case, x) in enumerate(zip(docs, cases, a)):
        ck.case(key=case, nontrivial=True)
        ck.hist("document_stream", ("in-scope:" if inscope else "foreign/malformed:") + fmt)
        if x.startswith("PANIC") or x == "<missing>":
            ck.violation("doc-panic:" + fmt, "a loader panics on a document", {"case": case, "text": text, "impl": x})
            continue
        per = dict(f.split("=", 1) for f in x.split("\t"))
        asyaml = per.pop("asyaml", None)
        if asyaml is not None and asyaml != per.get("imp"):
            obs.setdefault("json document read by the YAML loader differs (tabs, ...)", []).append((text, x))
        # ---- event-level model vs the two JSON loaders
        if i in model_of:
            my, tree = model_of[i]
            mf = model_fields(my)
            ml, ms = norm_model_show(mf.get("loader", "?")), norm_model_show(mf.get("serde", "?"))
            facts = json_facts(tree, set())
            if json_depth(tree) >= 128:
                facts.add("deeper-than-128")
            ck.hist("json_event_model", ",".join(sorted(facts)) or "plain")
            if "{dup}" not in ml and "Nbig" not in ml:
                want = "ERR" if ml == "ERR" else ml
                got = "ERR" if per["imp"].startswith("ERR(") else per["imp"]
                if want != got:
                    corr_fail(ck, "loader_run(events) vs load_json", case, x, my)
            if "~float" not in ms and "deeper-than-128" not in facts:
                want = "ERR" if ms == "ERR" else ms
                got = "ERR" if per["des"].startswith("ERR(") else per["des"]
                if want != got:
                    corr_fail(ck, "serde_run(events) vs serde_json", case, x, my)
        # ---- the property: every loader reads the same value
        vals = dict(per)
        distinct = set("ERR" if r.startswith("ERR(") else r for r in vals.values())
        if inscope:
            want = show_py(v)
            bad = {k: r for k, r in vals.items() if r != want}
            if bad:
                keyset = set(classify_doc_disagreement(fmt, k, want, r, v) for k, r in bad.items())
                for kk in keyset:
                    if kk:
                        ck.violation(kk, KNOWN_TEXT[kk], {"case": case, "text": text, "expected": want, "impl": x})
                    else:
                        ck.violation("doc:%s:%s" % (fmt, ",".join(sorted(bad))), "loaders do not read the generated document as the value it was rendered from",
                                     {"case": case, "text": text, "expected": want, "impl": x})
            continue
        if len(distinct) <= 1:
            ck.hist("foreign_document_outcome", fmt + (":all-reject" if distinct == {"ERR"} else ":all-agree"))
            continue
        # foreign document on which the loaders disagree: why?
        why = None
        trees = [parse_show(r) for r in vals.values() if not r.startswith("ERR(")]
        if len(trees) == len(vals) and all(differ_only_beyond_scope(trees[0], t) for t in trees[1:]):
            same = all(same_f64(trees[0], t) for t in trees[1:])
            why = "obs:numbers outside the stated scope (not a <=4-digit decimal with exponent -6..6, not a 64-bit integer): " + \
                  ("loaders agree up to f64 rounding" if same else "loaders differ even as f64 (convert prints non-decimal rationals with 16 significant digits)")
        elif fmt == "json":
            try:
                tree = json_strict(text)
                facts = json_facts(tree, set())
                if "duplicate-keys" in facts:
                    why = "json-duplicate-keys"
                elif json_depth(tree) >= 128:
                    why = "obs:nesting deeper than serde_json's recursion limit (128): std.deserialize reports an error, import works"
                elif "number-out-of-scope" in facts:
                    why = "obs:number outside the 64-bit / short-decimal scope (event loader exact, serde through f64)"
            except ValueError:
                why = "obs:invalid JSON accepted by some loader only"
        elif fmt == "toml":
            facts = toml_facts(text)
            if facts is None:
                why = "obs:invalid TOML accepted by some loader only"
            elif "int-beyond-i64" in facts:
                why = "obs:TOML integer beyond i64 accepted by the serde path (toml::from_str) only"
            elif "datetime" in facts:
                why = "toml-datetime-deserialize"
        elif fmt == "yaml":
            if all("Budget" in r or "InfiniteRec" in r for r in vals.values() if r.startswith("ERR(")) and len(set(r for r in vals.values() if not r.startswith("ERR("))) <= 1 and \
                    any("Budget" in r for r in vals.values()):
                why = "obs:recursive anchors (infinite value)"
        ck.hist("foreign_document_outcome", fmt + ":disagree:" + (why or "UNEXPLAINED"))
        if why is None:
            ck.violation("doc-disagree:%s:%s" % (fmt, ",".join("%s=%s" % (k, "ERR" if r.startswith("ERR(") else "v") for k, r in sorted(vals.items()))),
                         "the loaders of one format read the same document differently", {"case": case, "text": text, "impl": x})
        elif why.startswith("obs:"):
            obs.setdefault(why[4:], []).append((text, x))
        else:
            ck.violation(why, KNOWN_TEXT[why], {"case": case, "text": text, "impl": x})
    ck.coverage["foreign_document_observations"] = {k: {"count": len(v), "example": v[0][0][:120], "impl": v[0][1][:400]} for k, v in sorted(obs.items())}
    ck.count("document_cases", len(cases))
    ck.count("json_event_model_cases", len(ev_cases))


def classify_doc_disagreement(fmt, loader, want, got, v):
    """in-scope documents: the only tolerated (known) disagreements"""
    if got.startswith("ERR("):
        return None
    split = lambda t: t.replace("[", ",").replace("]", ",").replace("{", ",").replace("}", ",").split(",")
    wa, ga = split(want), split(got)
    if len(wa) != len(ga):
        return None
    keys = set()
    for w, g in zip(wa, ga):
        if w == g:
            continue
        wv, gv = w.split(":")[-1], g.split(":")[-1]
        if w.split(":")[:-1] != g.split(":")[:-1] or not wv.startswith("#") or not gv.startswith("#"):
            return None
        return None
    return None


def replay(ck, path):
    obj = json.load(open(path))
    try:
        c13_translate.write()
    except Exception as ex:
        ck.obligation("translator", "translator", False, repr(ex))
    ok = ck.harness(["c13"])
    exe_model = ck.model("C13.v")
    if not (ok and exe_model and "case" in obj):
        return
    case = obj["case"]
    rc, a, e = core.run_lines(core.harness_bin("c13"), [], [case])
    print("case :", case[:2000])
    print("impl :", (a[0] if a else e)[:4000])
    kind = case.split("\t")[0]
    if kind in ("esc", "lex", "key", "ktok", "int"):
        rc, b, e = core.run_lines(exe_model, [], [case])
        print("model:", (b[0] if b else e)[:2000])
    # a replay reports the recorded violation again if the oracle still fails
    line = a[0] if a else ""
    still = ("DIFF(" in line or "ERR(" in line or "PANIC" in line or
             (kind == "esc" and fields(line).get("A") != "S:" + case.split("\t")[1]) or
             (kind == "key" and fields(line).get("K") != case.split("\t")[1]) or
             (kind == "emit" and fields(line).get("R") != "S:" + case.split("\t")[1]) or
             kind in ("num", "int", "doc"))
    if still:
        ck.violation(obj.get("key", "replay"), obj.get("what", "replayed case still fails"), {"case": case, "impl": line[:2000]})
