"""C19 — the language server's answers depend only on current document contents
(lsp/nls/src/{world,files,analysis,server}.rs, core/src/cache.rs SourceCache)."""
import json
import os
import shutil
import tempfile
import time
from vlib import core

META = {
    "harness_bins": ["c19"],
    "extract": "C19.v",
    "technique": "Coq proof: invariant of a FileId-level model of nls' World bookkeeping (source cache, analysis registry, imports/rev_imports, failed_imports, invalidate/typecheck recursion) over every didOpen/didChange/didClose history; model tied to the real `nls` binary by differential replay of histories over JSON-RPC (per-step diagnostics publications), and a direct oracle comparing every answer with a freshly started server",
    "level_text": "Theorems (coq/Props/C19.v), for every didOpen/didChange/didClose history of a conforming client whose documents' imports respect one DAG order, every iteration order of the server's hash maps and every recursion budget above the DAG depth: the server model never crashes (C19_no_crash); every cached analysis of a current file was computed from the current text and its diagnostics equal those recomputed from the final documents (C19_analysis_fresh); two histories ending in the same documents leave the same analyses and every open document has one (C19_answers_history_independent, C19_open_analysed); rev_imports/failed_imports cover what cached analyses read (C19_rev_imports_complete, C19_failed_imports_complete); last published diagnostics of current files are, as duplicate-free lists, the fresh ones and every open document is published (C19_no_dup_no_stale). C19_no_dup_no_stale holds for the code as it is now on every such history, and only on histories without didClose for the code before fix 36b39fb. Refuted, with replayed witnesses: C19_closed_buffer_refuted and C19_self_import_diverges (code before fixes 36b39fb / 257606a; the check verifies on every run that the code under test follows the fixed configuration), C19_cycle_order_refuted (cyclic imports, still the case: known finding). The theorems are about a hand-written FileId-level model of SourceCache + World::{add_file,update_file,close_file,invalidate,parse,typecheck,typecheck_uncached} + the notification handlers; it is tied to lsp/nls by running the same histories on the extracted model and on the `nls` binary rebuilt from /repo (JSON-RPC, background evaluation off), comparing after every step the multiset of publishDiagnostics and (hook H8, `verif/state`) the whole bookkeeping state: files, name-id table, cached analyses, imports, rev_imports, failed_imports, file_uris; independently every history is followed by a fresh server shown the final documents, and pulled diagnostics, hover, definition, references, completion and documentSymbol at every identifier are compared (direct oracle).",
    "level_note": "Trusted: Coq kernel; extraction (ExtrOcamlBasic only); the reading of world.rs/files.rs/cache.rs in coq/Lsp/World.v (document contents abstracted to text id + import list + ok/type error/parse error; one directory, so failed_imports' base-name keying is not exercised; disk fixed during a history; Nickel files only); harness bin c19 (own JSON-RPC client, document template) and the classification of diagnostics messages into 5 classes; the nls binary cargo builds from /repo. Partial: the theorems assume one DAG order on imports for the whole history (histories whose import graph is acyclic at every moment but not compatible with a single order, cyclic imports and self imports are outside: cyclic imports are a refuted class = known finding; self imports are handled by the code since fix 257606a and covered by the tie and the oracle only) and a client that sends didChange only for open documents; contents of hover/definition/references/completion/symbol answers are not modelled (direct oracle only); not covered: background evaluation, non-Nickel imports, contract configs, file watcher, disk changes during a session. Exhaustive histories go to length 3 (11-symbol alphabet) and 4 (7 symbols) over 3 disk configurations, not length 5 as planned in DESIGN.md (one server process per history).",
}

N = 4
NLS_TARGET = os.environ.get("VERIF_NLS_TARGET") or os.path.join(core.BUILD, "target-nls")
KNOWN_KEYS = ("self-import-overflow", "closed-buffer-reanalysed", "cycle-entry-order", "references-in-formerly-imported-files")


# --------------------------------------------------------------------------- nls build

def nls_has_hooks():
    try:
        return "verif-hooks" in open(os.path.join(core.REPO, "lsp", "nls", "Cargo.toml")).read()
    except OSError:
        return False


def build_nls(ck, timeout=3000):
    """cargo build of the nls binary from /repo's working tree into /verif/.build/target-nls
    (--locked --offline: nothing is written into /repo)."""
    t = time.time()
    with core.Lock("cargo_nls"):
        cmd = ["cargo", "build", "--offline", "--locked", "--quiet", "-p", "nickel-lang-lsp", "--bin", "nls",
               "--manifest-path", os.path.join(core.REPO, "Cargo.toml")]
        if nls_has_hooks():
            cmd += ["--features", "verif-hooks"]
        rc, out = core.sh(cmd, cwd=core.ROOT, timeout=timeout,
                          env={"CARGO_TARGET_DIR": NLS_TARGET, "CARGO_NET_OFFLINE": "true"})
    ck.coverage["nls_build_s"] = round(time.time() - t, 1)
    exe = os.path.join(NLS_TARGET, "debug", "nls")
    if rc != 0 or not os.path.exists(exe):
        ck.obligation("nls-build", "build", False, out[-3000:])
        return None
    return exe


# --------------------------------------------------------------------------- cases

def fmt_content(c):
    return "%d/%s/%s" % (c[0], ".".join(str(q) for q in c[1]), c[2])


def fmt_case(disk, ops):
    d = ",".join("%d=%s" % (p, fmt_content(c)) for p, c in sorted(disk.items())) or "-"
    o = ",".join(("X%d" % op[1]) if op[0] == "X" else "%s%d=%s" % (op[0], op[1], fmt_content(op[2])) for op in ops)
    return "%d %s %s" % (N, d, o)


def parse_case(line):
    toks = line.split()
    disk, ops = {}, []

    def pc(s):
        v, i, st = s.split("/")
        return (int(v), [int(x) for x in i.split(".")] if i else [], st)
    if toks[1] != "-":
        for e in toks[1].split(","):
            p, c = e.split("=")
            disk[int(p)] = pc(c)
    for e in (toks[2].split(",") if len(toks) > 2 else []):
        if not e:
            continue
        if e[0] == "X":
            ops.append(("X", int(e[1:])))
        else:
            p, c = e[1:].split("=")
            ops.append((e[0], int(p), pc(c)))
    return disk, ops


class Gen:
    def __init__(self, rng):
        self.rng = rng
        self.vid = 0

    def content(self, p, mode):
        r = self.rng
        self.vid += 1
        if mode == "dag":
            cand = [q for q in range(N) if q > p]
        else:
            cand = [q for q in range(N) if q != p]
        imps = [q for q in r.shuffle(cand) if r.chance(2, 5)]
        if mode == "free" and r.chance(1, 150):
            imps.insert(r.below(len(imps) + 1), p)          # self import
        st = r.weighted([("o", 6), ("t", 2), ("p", 2)])
        return (self.vid, imps, st)

    def case(self, mode, maxlen):
        r = self.rng
        self.vid = 0
        disk = {}
        for p in range(N):
            if r.chance(1, 2):
                disk[p] = self.content(p, mode)
        self.vid = 100
        opened = {}
        ops = []
        for _ in range(r.range(2, maxlen)):
            p = r.below(N)
            if p not in opened:
                c = self.content(p, mode)
                ops.append(("O", p, c))
                opened[p] = c
            elif r.chance(2, 3):
                c = self.content(p, mode)
                ops.append(("C", p, c))
                opened[p] = c
            else:
                ops.append(("X", p))
                del opened[p]
        return fmt_case(disk, ops)


def exhaustive(maxlen, alphabet, disks):
    """All client-conforming histories up to maxlen over `alphabet` (list of (path, variant)) and
    closes, for each disk configuration."""
    out = []
    paths = sorted({p for p, _ in alphabet})

    def rec(prefix, opened, depth):
        if depth == 0:
            return
        for (p, var) in alphabet:
            c = (len(prefix) + 1 + 10 * (alphabet.index((p, var)) + 1), var[0], var[1])
            op = ("C" if p in opened else "O", p, c)
            h = prefix + [op]
            out.append(h)
            rec(h, opened | {p}, depth - 1)
        for p in paths:
            if p in opened:
                h = prefix + [("X", p)]
                out.append(h)
                rec(h, opened - {p}, depth - 1)
    rec([], frozenset(), maxlen)
    res = []
    for d in disks:
        for h in out:
            res.append(fmt_case(d, h))
    return res


ALPHA_FULL = [(0, ([1], "o")), (0, ([], "o")), (0, ([1], "t")), (0, ([1, 3], "o")),
              (1, ([2], "o")), (1, ([], "t")), (1, ([2], "p")),
              (2, ([], "o")), (2, ([], "t")), (2, ([0], "o")),
              (3, ([], "o"))]
ALPHA_SMALL = [(0, ([1], "o")), (0, ([1, 3], "t")), (1, ([2], "o")), (1, ([], "p")),
               (2, ([], "t")), (2, ([], "o")), (3, ([], "o"))]
DISKS = [{}, {0: (90, [], "o"), 1: (91, [2], "o"), 2: (92, [], "o")}, {0: (93, [1], "o"), 2: (94, [], "t")}]


def corpus():
    p = os.path.join(core.ROOT, "corpus", "C19")
    res = []
    if os.path.isdir(p):
        for f in sorted(os.listdir(p)):
            if f.endswith(".case"):
                res += [l.strip() for l in open(os.path.join(p, f)) if l.strip() and not l.startswith("#")]
    return res


# --------------------------------------------------------------------------- static facts about a case

def cycle_facts(line):
    """(ever_cyclic, ever_self_import): does the import graph of the current documents (buffers
    over disk) contain a cycle / a self import after some step of the history?"""
    disk, ops = parse_case(line)
    bufs = {}
    cyc = selfimp = False

    def check():
        nonlocal cyc, selfimp
        cur = dict(disk)
        cur.update(bufs)
        g = {p: [q for q in c[1] if q in cur] for p, c in cur.items()}
        for p, qs in g.items():
            if p in qs:
                selfimp = True
        color = {}

        def dfs(u):
            color[u] = 1
            for v in g.get(u, []):
                if color.get(v) == 1:
                    return True
                if v not in color and dfs(v):
                    return True
            color[u] = 2
            return False
        for p in g:
            if p not in color and dfs(p):
                cyc = True
    check()
    for op in ops:
        if op[0] == "X":
            bufs.pop(op[1], None)
        else:
            bufs[op[1]] = op[2]
        check()
    return cyc, selfimp


def in_theorem_class(line):
    """Do all document versions of the history (and the disk) respect one DAG order on paths,
    i.e. is the union of all their import edges acyclic (hypothesis `good` of the theorems)?"""
    disk, ops = parse_case(line)
    g = {}
    for p, c in list(disk.items()) + [(op[1], op[2]) for op in ops if op[0] != "X"]:
        g.setdefault(p, set()).update(c[1])
    color = {}

    def dfs(u):
        color[u] = 1
        for v in g.get(u, ()):
            if color.get(v) == 1 or (v not in color and dfs(v)):
                return True
        color[u] = 2
        return False
    return not any(p not in color and dfs(p) for p in list(g))


def only_formerly_imported(case, oracle):
    """Every disagreement is a `references` answer in which the history server additionally lists
    locations inside files that exist on disk and were never opened during the history (files it
    has loaded because an earlier document version imported them)."""
    disk, ops = parse_case(case)
    touched = {op[1] for op in ops}
    untouched = {"file://$D/%s.ncl" % chr(ord("a") + p) for p in disk if p not in touched}
    diffs = oracle.get("diffs", [])
    if not diffs or oracle.get("ndiffs", 0) != len(diffs):
        return False
    for d in diffs:
        if not d.get("what", "").startswith("references "):
            return False
        if d.get("only_fresh") != [] or not d.get("only_hist"):
            return False
        for e in d["only_hist"]:
            try:
                if json.loads(e).get("uri") not in untouched:
                    return False
            except (ValueError, AttributeError):
                return False
    return True


# --------------------------------------------------------------------------- running and comparing

_SCRATCH = []


def scratch_dir():
    """Documents of this run live under one fresh directory in /tmp, removed at the end."""
    if not _SCRATCH:
        _SCRATCH.append(tempfile.mkdtemp(prefix="verif-c19-run-"))
    return _SCRATCH[0]


def cleanup_scratch():
    while _SCRATCH:
        shutil.rmtree(_SCRATCH.pop(), ignore_errors=True)


PROBE_PURGE = "4 0=100//o O0=1/1/o,O1=2//o,X0,C1=3//t"
PROBE_SELF = "4 - O0=1/0/o"


def detect_cfg(ck, exe_nls, exe_model):
    """Which of the two proposed patches does the code under test contain?  Decided by replaying
    the two minimal witnesses on the real server and seeing which configuration of the model
    reproduces them (the model is proved for every configuration)."""
    rc, out, err = core.run_lines(core.harness_bin("c19"), [exe_nls, "--no-oracle", "--scratch", scratch_dir()], [PROBE_PURGE, PROBE_SELF], timeout=300)
    flags = ["0", "0"]
    try:
        real = [json.loads(x) for x in out]
        _, m0, _ = core.run_lines(exe_model, ["00"], [PROBE_PURGE, PROBE_SELF])
        _, m1, _ = core.run_lines(exe_model, ["11"], [PROBE_PURGE, PROBE_SELF])
        for i in (0, 1):
            t0, t1 = m0[i].partition(" # ")[0], m1[i].partition(" # ")[0]
            if real[i].get("trace") == t1 and real[i].get("trace") != t0:
                flags[i] = "1"
            elif real[i].get("trace") != t0:
                ck.obligation("correspondence:probe-%d" % i, "correspondence", False,
                              "impl %s\nmodel(code) %s\nmodel(patched) %s" % (real[i].get("trace"), t0, t1))
    except (ValueError, IndexError) as ex:
        ck.obligation("correspondence:probe", "internal", False, "rc=%s %s %s" % (rc, err[-400:], ex))
    cfg = "".join(flags)
    ck.coverage["model_configuration"] = {"purge_closed": flags[0] == "1", "self_guard": flags[1] == "1"}
    # the claims rest on the fixed code: C19_no_dup_no_stale needs purge_closed (fix 36b39fb),
    # C19_no_crash outside the DAG class needs the self-import guard (fix 257606a)
    ck.obligation("correspondence:close_file-forgets-the-closed-file-id", "correspondence", flags[0] == "1",
                  "" if flags[0] == "1" else "the code under test re-analyses closed buffers (model configuration purge_closed = false); witness: " + PROBE_PURGE)
    ck.obligation("correspondence:resolve-guards-self-import", "correspondence", flags[1] == "1",
                  "" if flags[1] == "1" else "the code under test overflows its stack on a self import (model configuration self_guard = false); witness: " + PROBE_SELF)
    return cfg


def run_cases(ck, cases, exe_nls, exe_model, cfg=None):
    cfg = cfg or os.environ.get("VERIF_C19_FORCE_CFG") or detect_cfg(ck, exe_nls, exe_model)
    hooks = nls_has_hooks()
    rc1, impl_out, e1 = core.run_sharded(core.harness_bin("c19"), [exe_nls, "--scratch", scratch_dir()] + (["--state"] if hooks else []), cases,
                                         timeout=3400 if len(cases) < 5000 else 20000)
    rc2, model_out, e2 = core.run_sharded(exe_model, [cfg, "state"], cases)
    rc3, patched_out, e3 = core.run_sharded(exe_model, ["11"], cases)
    if rc1 or rc2 or rc3:
        ck.obligation("correspondence-run", "internal", False, "rc=%s/%s/%s %s %s %s" % (rc1, rc2, rc3, e1[-800:], e2[-800:], e3[-800:]))
    compare(ck, cases, impl_out, model_out, patched_out, hooks)
    return impl_out, model_out


def compare(ck, cases, impl_out, model_out, patched_out, hooks=False):
    for case, a, m, mp in zip(cases, impl_out, model_out, patched_out):
        try:
            r = json.loads(a)
        except ValueError:
            ck.obligation("harness-output", "internal", False, "case %s: %s" % (case, a[:300]))
            continue
        if r.get("skip"):
            continue
        m, _, mstate = m.partition(" | ")
        mtrace, _, mflags = m.partition(" # ")
        ptrace = mp.partition(" # ")[0]
        mkind = (mflags.split() + ["-"])[0]
        mdead = "dead" in mflags.split()[1:2]
        cyc, selfimp = cycle_facts(case)
        nops = case.split()[2].count(",") + 1 if len(case.split()) > 2 else 0
        ck.case(key=case, nontrivial=(nops >= 3))
        ck.hist("history_length", nops)
        ck.hist("class", "self-import" if selfimp else "cyclic" if cyc else "dag")
        ck.count("histories_satisfying_the_theorems_hypothesis" if in_theorem_class(case) else "histories_outside_the_theorems_hypothesis")
        for tok in (case.split()[2].split(",") if len(case.split()) > 2 else []):
            ck.hist("ops", tok[:1])
        if mdead:
            ck.count("histories_where_model_reanalyses_a_closed_buffer")
        if mtrace != ptrace:
            ck.count("histories_where_patched_model_differs")
        crash = r.get("crash")
        oracle = r.get("oracle") or {}
        rtrace = r.get("trace", "")
        replay = {"case": case, "impl_trace": rtrace, "model_trace": mtrace, "model_patched_trace": ptrace,
                  "crash": crash, "oracle": oracle, "how_to_replay": "./verif check C19 --replay <this file>"}
        # ---- direct oracle 1: the server must not terminate abnormally
        if crash:
            ck.count("impl_crashes")
            key = "self-import-overflow" if (selfimp and crash.get("kind") == "overflow") else "crash:%s" % crash.get("kind")
            ck.violation(key, "nls terminated abnormally (%s) during the history" % crash.get("kind"), replay)
        # ---- direct oracle 2: every answer equals the fresh server's
        elif oracle.get("ndiffs", 0) > 0:
            ck.count("oracle_disagreements")
            kinds = sorted({d.get("what", "?").split(" ")[0] for d in oracle.get("diffs", [])})
            if cyc:
                key = "cycle-entry-order"
            elif mdead:
                key = "closed-buffer-reanalysed"
            elif only_formerly_imported(case, oracle):
                key = "references-in-formerly-imported-files"
            else:
                key = "stale:" + "+".join(kinds)
            ck.hist("oracle_disagreement_kind", key)
            ck.violation(key, "answers after the history differ from a fresh server shown the same documents (%s)" % ",".join(kinds), replay)
        if oracle:
            ck.count("answers_compared_with_fresh_server", oracle.get("checked", 0))
        # ---- correspondence: model of the code as it is vs the real server, step by step
        if rtrace != mtrace:
            if cyc:
                # iteration order of the server's hash maps is observable on cyclic imports
                ck.count("cyclic_histories_where_hash_order_shows")
            else:
                ck.obligation("correspondence:model-vs-nls", "correspondence", False,
                              "case %s\nimpl  %s\nmodel %s" % (case, rtrace[:600], mtrace[:600]))
        # ---- state-level correspondence (hook H8): files, cached analyses, imports, rev_imports, failed_imports
        if hooks and not crash and isinstance(r.get("state"), str):
            ck.count("states_compared")
            if r["state"] != mstate.strip():
                if cyc:
                    ck.count("cyclic_histories_where_hash_order_shows_in_state")
                else:
                    ra, ma = r["state"].split(" || "), mstate.strip().split(" || ")
                    k = next((i for i, (x, y) in enumerate(zip(ra, ma)) if x != y), min(len(ra), len(ma)))
                    ck.obligation("correspondence:state-model-vs-nls", "correspondence", False,
                                  "case %s\nfirst difference after step %d\nimpl  %s\nmodel %s" % (
                                      case, k + 1, (ra[k] if k < len(ra) else "-")[:900], (ma[k] if k < len(ma) else "-")[:900]))
        if crash and mkind == "-" or (not crash and mkind != "-"):
            ck.obligation("correspondence:model-vs-nls-crash", "correspondence", False,
                          "case %s\nimpl crash %s\nmodel %s" % (case, crash, mkind))


def run(ck):
    ck.coq("Props.C19", clean=(ck.tier == "thorough" and not os.environ.get("VERIF_NO_CLEAN")))
    exe_nls = build_nls(ck)
    ok = ck.harness(["c19"])
    exe_model = ck.model("C19.v")
    if not ok or not exe_model or not exe_nls:
        return
    rng = core.SplitMix64(ck.seed * 1000003 + 19)
    g = Gen(rng.fork())
    cases = corpus()
    ncorp = len(cases)
    n = 1200 if ck.tier == "quick" else 8000
    if os.environ.get("VERIF_C19_N"):            # only for sanity-testing the check itself (mutants)
        n = int(os.environ["VERIF_C19_N"])
    for i in range(n):
        mode = "dag" if rng.chance(7, 10) else "free"
        long_ = rng.chance(1, 8)
        cases.append(g.case(mode, 25 if long_ else 8))
    if ck.tier == "thorough":
        ex = exhaustive(3, ALPHA_FULL, DISKS) + exhaustive(4, ALPHA_SMALL, DISKS[:2])
        ck.coverage["exhaustive_small_histories"] = len(ex)
        cases += ex
    impl_out, model_out = run_cases(ck, cases, exe_nls, exe_model)
    for c, a in list(zip(cases, impl_out))[ncorp:ncorp + 3]:
        try:
            ck.sample({"history": c[:300], "impl_trace": json.loads(a).get("trace", "")[:300]})
        except ValueError:
            pass
    cleanup_scratch()
    ck.coverage["traces_validated_against_impl"] = len(cases)
    ck.coverage["corpus_cases"] = ncorp
    ck.coverage["rule"] = ("history = seeded random client-conforming didOpen/didChange/didClose sequence over %d documents "
                           "(a..d in one scratch directory, each on disk with probability 1/2, disk fixed); a document version = "
                           "(fresh id, import list, ok | type error | parse error); 70%% of histories draw imports from a fixed DAG order, "
                           "30%% are unrestricted (cycles, rare self imports); non-trivial = at least 3 operations; distinct by exact text" % N)
    ck.coverage["partial"] = ("theorems assume one DAG order on imports for the whole history; cyclic imports are a refuted class (known finding); answer contents are compared by the direct oracle only")
    ck.trusted += ["extraction: ExtrOcamlBasic only", "harness bin c19 (JSON-RPC client, document template)",
                   "nls binary built by cargo from /repo into .build/target-nls",
                   "generator checks/c19.py (SplitMix64, VERIF_SEED)"]
    ck.assumptions += ["disk contents do not change during a session", "client sends didChange/didClose only for open documents",
                       "imports only between Nickel files of one directory"]


def replay(ck, path):
    obj = json.load(open(path))
    exe_nls = build_nls(ck)
    ok = ck.harness(["c19"])
    exe_model = ck.model("C19.v")
    if ok and exe_model and exe_nls and "case" in obj:
        run_cases(ck, [obj["case"]], exe_nls, exe_model)
    cleanup_scratch()
