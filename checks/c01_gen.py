"""C01 -- seeded, type-directed generator of Nickel programs with statically typed blocks, a mutated
stream, and the direct oracle ("a typed block never raises a dynamic type error").

Everything random comes from one `core.SplitMix64`.  A program is generated as: a type T, then a
term of type T, printed as `(<term> : T)`.  While printing, the byte spans of typed regions
(`(e : T)`, the bound expression of `let x : T = e`) and of untyped regions (`(u | T)`: a *hole*
filled with untyped code behind a contract) are recorded (innermost wins), as well as the spans of
the annotation types themselves (own annotations of typed blocks vs. annotations of holes).

AST (python tuples; every sequence is a tuple so that terms are hashable)
------------------------------------------------------------------------
terms
  ("num", int)  ("str", s)  ("bool", b)  ("null",)            literals (null only in untyped code)
  ("var", x)
  ("lam", x, body)                                            fun x => body
  ("app", f, a)                                               f a          (curried, one argument)
  ("let", x, type_or_None, e, body)                           let x [: T] = e in body
  ("letrec", x, type_or_None, e, body)                        let rec x [: T] = e in body   (extension)
  ("if", c, t, e)
  ("arr", (e, ...))
  ("rec", ((f, e), ...))                                      f is a str, or ("dyn", e) for `"%{e}" = ..`
  ("proj", e, f)                                              e.f
  ("tag", t)                                                  't
  ("variant", t, e)                                           't e
  ("match", scrutinee_or_None, ((pattern, body), ...))        s |> match {..} ; None: the bare match function
       patterns: ("ptag", t) ("pvariant", t, x_or_None) ("pwild",) ("pvar", x) ("plit", literal-term)
                 ("prec", ((f, x), ...))                      {f = x, ..}
                 ("pguard", pattern, cond)                    pattern if cond
  ("op", name, (args, ...))                                   name in + - * / % < <= > >= == != && || ! ++ @
                                                              "|>" (a |> f), "interp" ("..%{e}.." parts),
                                                              "dynget" (r."%{k}"), "&" (untyped code only)
  ("stdref", "std.array.map")
  ("annt", e, T)                                              (e : T)   typed block
  ("annc", u, T)                                              (u | T)   hole: u is untyped code
types
  ("num",) ("str",) ("bool",) ("dyn",) ("arr", t) ("fun", a, b) ("dict", t)
  ("rec", ((f, t), ...), tail)          tail: None (closed) | "dyn" ( ; Dyn) | ("tvar", r)
  ("enum", ((tag, t_or_None), ...), tail)   tail: None | ("tvar", r)
  ("tvar", a)                           a rigid type variable; names starting with "?" are
                                        instantiation metavariables (never printed)
  ("forall", a, kind, t)                kind in "ty" "rrows" "erows"
Fields of record types / tags of enum types are kept sorted by name (type equality is structural).

Entry points: std_signatures(exe), gen_valid(rng, sigs, size), gen_mutant(rng, sigs, size),
classify(prog, answer_line), run_stream(ck, exe, n_valid, n_mutants, max_size), self_test(exe),
`python3 -m checks.c01_gen <n> <seed> [max_size]` and `python3 -m checks.c01_gen --selftest`.

Oracle (classify): an accepted program violates C01 when the interpreter answers TypeErr / NotAFunc /
FieldMissing / NonExhaustive / UnboundId with a primary position inside a typed region of the program
or inside the (typed) stdlib, TailAccess or positive blame whose label is one of the program's own
typed annotations, or negative blame on a hole's contract with the offending value in typed code.
FieldMissing of record/get and record/remove (absent dictionary key) is a value-dependent
precondition, like out-of-bounds indices and division by zero.  The generator never lets untyped hole
code call a typed closure of the enclosing block (holes only see first-order data variables): that
is a separate, known way of reaching typed code with ill-typed values.
"""
import glob
import os
import re
import sys
import time

from vlib import core
from checks import c01_sig as S

GENERATOR_RULE = (
    "type-directed generation: a random type T (Number/String/Bool/Dyn, Array, closed and `; Dyn` records, "
    "dictionaries, enums with and without payload, arrows), then a term of type T built from literals, variables, "
    "let (annotated or not, polymorphic with forall over types / record rows / enum rows, let rec), if, lambdas, "
    "applications (local functions and every statically typed stdlib function whose result type matches, "
    "signatures read from the running typechecker), operators, arrays, records, projections, dictionary access, "
    "record-to-dictionary subsumption (also under Array), tags, variants, exhaustive matches (enum, literal with "
    "default, guarded with default, record patterns), nested typed blocks, and holes `(u | T)` filled with untyped "
    "code (1 in 7 deliberately violating T); printed as `(term : T)` / `let x : T = term in x` / a typed function "
    "applied by untyped code, with the byte spans of typed and untyped regions; mutants: one of 13 local "
    "mutations of a valid program")

NUM, STR, BOOL, DYN = ("num",), ("str",), ("bool",), ("dyn",)
FIELDS = ["a", "b", "c", "d", "foo", "bar", "x", "y"]
TAGS = ["A", "B", "C", "Ok", "Err", "Some", "None", "Foo"]
BAD_CLASSES = {"TypeErr", "NotAFunc", "FieldMissing", "NonExhaustive", "UnboundId", "TailAccess"}
# value-dependent preconditions of dictionary operations (not type errors)
DICT_PRECOND_OPS = ("record/get", "record/remove")


# ------------------------------------------------------------------------------------------ types

def mk_rec(fields, tail=None):
    return ("rec", tuple(sorted(fields, key=lambda p: p[0])), tail)


def mk_enum(rows, tail=None):
    return ("enum", tuple(sorted(rows, key=lambda p: p[0])), tail)


def mk_fun(*ts):
    t = ts[-1]
    for a in reversed(ts[:-1]):
        t = ("fun", a, t)
    return t


def is_meta(t):
    return t[0] == "tvar" and t[1].startswith("?")


def ty_children(t):
    k = t[0]
    if k in ("arr", "dict"):
        return [t[1]]
    if k == "fun":
        return [t[1], t[2]]
    if k == "rec":
        return [ft for _, ft in t[1]]
    if k == "enum":
        return [ft for _, ft in t[1] if ft is not None]
    if k == "forall":
        return [t[3]]
    return []


def ty_any(t, pred):
    if pred(t):
        return True
    return any(ty_any(c, pred) for c in ty_children(t))


def has_tvars(t):
    """Any type variable (rigid or meta), in type or tail position."""
    return ty_any(t, lambda x: x[0] == "tvar" or (x[0] in ("rec", "enum") and isinstance(x[2], tuple)))


def has_metas(t):
    return ty_any(t, lambda x: is_meta(x) or (x[0] in ("rec", "enum") and isinstance(x[2], tuple) and x[2][1].startswith("?")))


def needs_known(t):
    """Types whose literals are only typed at T in checking mode (dictionaries, `; Dyn` records)."""
    return ty_any(t, lambda x: x[0] == "dict" or (x[0] == "rec" and x[2] == "dyn"))


def is_data(t):
    """First-order data: safe to show to untyped hole code and to compare with ==."""
    k = t[0]
    if k in ("num", "str", "bool"):
        return True
    if k in ("arr", "dict"):
        return is_data(t[1])
    if k == "rec":
        return t[2] is None and all(is_data(ft) for _, ft in t[1])
    if k == "enum":
        return t[2] is None and all(ft is None or is_data(ft) for _, ft in t[1])
    return False


def subst(t, s):
    """Substitute type variables (s: name -> type, or name -> ("row", fields, tail) for row variables)."""
    k = t[0]
    if k == "tvar":
        return s.get(t[1], t)
    if k in ("num", "str", "bool", "dyn"):
        return t
    if k in ("arr", "dict"):
        return (k, subst(t[1], s))
    if k == "fun":
        return ("fun", subst(t[1], s), subst(t[2], s))
    if k in ("rec", "enum"):
        rows = [(f, subst(ft, s) if ft is not None else None) for f, ft in t[1]]
        tail = t[2]
        if isinstance(tail, tuple) and tail[1] in s:
            row = s[tail[1]]
            if row[0] == "row":
                rows += list(row[1])
                tail = row[2]
            else:                      # renaming: tvar -> tvar
                tail = row
        return mk_rec(rows, tail) if k == "rec" else mk_enum(rows, tail)
    if k == "forall":
        s2 = {a: b for a, b in s.items() if a != t[1]}
        return ("forall", t[1], t[2], subst(t[3], s2))
    raise ValueError(t)


def match_ty(p, t, s):
    """One-way matching: bind the metavariables of p so that p == t.  t contains no metas."""
    k = p[0]
    if k == "tvar":
        if p[1].startswith("?"):
            if p[1] in s:
                return s[p[1]] == t
            if t[0] == "forall":
                return False
            s[p[1]] = t
            return True
        return p == t
    if k != t[0]:
        return False
    if k in ("num", "str", "bool", "dyn"):
        return True
    if k in ("arr", "dict"):
        return match_ty(p[1], t[1], s)
    if k == "fun":
        return match_ty(p[1], t[1], s) and match_ty(p[2], t[2], s)
    if k in ("rec", "enum"):
        trows = dict(t[1])
        for f, ft in p[1]:
            if f not in trows:
                return False
            u = trows.pop(f)
            if (ft is None) != (u is None):
                return False
            if ft is not None and not match_ty(ft, u, s):
                return False
        rest = tuple(sorted(trows.items()))
        ptail = p[2]
        if isinstance(ptail, tuple) and ptail[1].startswith("?"):
            row = ("row", rest, t[2])
            if ptail[1] in s:
                return s[ptail[1]] == row
            s[ptail[1]] = row
            return True
        return not rest and ptail == t[2]
    return False


def peel(t, k):
    args = []
    for _ in range(k):
        if t[0] != "fun":
            return None
        args.append(t[1])
        t = t[2]
    return args, t


def arity(t):
    n = 0
    while t[0] == "fun":
        n += 1
        t = t[2]
    return n


def strip_foralls(t):
    vs = []
    while t[0] == "forall":
        vs.append((t[1], t[2]))
        t = t[3]
    return vs, t


def ty_src(t, lvl=2):
    """Concrete syntax.  lvl 2: anything, 1: no bare arrow/forall, 0: atom."""
    k = t[0]
    if k == "num":
        return "Number"
    if k == "str":
        return "String"
    if k == "bool":
        return "Bool"
    if k == "dyn":
        return "Dyn"
    if k == "tvar":
        return t[1]
    if k == "arr":
        s = "Array " + ty_src(t[1], 0)
        return "(%s)" % s if lvl < 1 else s
    if k == "dict":
        return "{_ : %s}" % ty_src(t[1], 2)
    if k == "fun":
        s = "%s -> %s" % (ty_src(t[1], 1), ty_src(t[2], 2 if t[2][0] != "forall" else 0))
        return "(%s)" % s if lvl < 2 else s
    if k == "rec":
        body = ", ".join("%s : %s" % (f, ty_src(ft, 2)) for f, ft in t[1])
        if t[2] == "dyn":
            body += "; Dyn" if body else "; Dyn"
        elif isinstance(t[2], tuple):
            body += "; " + t[2][1]
        return "{%s}" % body
    if k == "enum":
        body = ", ".join(("'%s" % f) + ((" " + ty_src(ft, 0)) if ft is not None else "") for f, ft in t[1])
        if isinstance(t[2], tuple):
            body += "; " + t[2][1]
        return "[| %s |]" % body
    if k == "forall":
        vs, b = strip_foralls(t)
        s = "forall %s. %s" % (" ".join(v for v, _ in vs), ty_src(b, 2))
        return "(%s)" % s if lvl < 2 else s
    raise ValueError(t)


# ------------------------------------------------------------------------------- std signatures

_SIG_CACHE = {}
# functions with value-dependent preconditions (allowed failures that cut the evaluation short)
PARTIAL_STD = re.compile(r"^std\.(array\.(first|last|at|reduce_left|reduce_right|drop_first|drop_last|slice|range|range_step|"
                         r"replicate|generate|split_at)|record\.(get|remove|remove_with_opts|apply_on)|"
                         r"string\.(to_number|to_bool|substring|find|find_all|is_match|replace_regex|base64_decode)|"
                         r"number\.(log|arccos|arcsin|sqrt|pow))$")
STD_SKIP = re.compile(r"^std\.(contract|test|package)\.|^std\.(trace|deserialize|serialize|hash|cast|fail_with|FailWith)$"
                      r"|^std\.(number\.(pi|e))$")


def std_typed_names():
    """Names of the fields of std.ncl that carry a static type annotation (`name\\n  : T`)."""
    src = open(os.path.join(core.REPO, "core/stdlib/std.ncl")).read().split("\n")
    mod, out = None, set()
    for i, l in enumerate(src):
        m = re.match(r"^  ([a-z_A-Z]+) = \{$", l)
        if m:
            mod = m.group(1)
            continue
        if l == "  },":
            mod = None
        m = re.match(r"^(    |  )([a-zA-Z_][a-zA-Z_0-9]*)\s*$", l)
        if m and ((len(m.group(1)) == 4 and mod) or (len(m.group(1)) == 2 and not mod)):
            name = ("std.%s." % mod if mod else "std.") + m.group(2)
            j = i + 1
            while j < len(src) and not src[j].strip():
                j += 1
            if j < len(src) and src[j].strip().startswith(":"):
                out.add(name)
    return out


class Unrepresentable(Exception):
    pass


def sexp_ty(x):
    if isinstance(x, str):
        if x in ("num", "str", "bool", "dyn"):
            return (x,)
        raise Unrepresentable(x)
    h = x[0]
    if h == "arr":
        return ("arr", sexp_ty(x[1]))
    if h == "fun":
        return ("fun", sexp_ty(x[1]), sexp_ty(x[2]))
    if h == "var":
        return ("tvar", x[1][1])
    if h == "dict":
        if x[1] != "type":
            raise Unrepresentable("contract dict")
        return ("dict", sexp_ty(x[2]))
    if h == "forall":
        kind = x[2] if isinstance(x[2], str) else {"erows": "erows", "rrows": "rrows"}[x[2][0]]
        return ("forall", x[1][1], kind, sexp_ty(x[3]))
    if h == "rec":
        tail = None if x[2] == "closed" else ("dyn" if x[2] == "dyn" else ("tvar", x[2][1][1]))
        return mk_rec([(r[0][1], sexp_ty(r[1])) for r in x[1]], tail)
    if h == "enum":
        tail = None if x[2] == "closed" else ("tvar", x[2][1][1])
        return mk_enum([(r[0][1], sexp_ty(r[1]) if len(r) > 1 else None) for r in x[1]], tail)
    raise Unrepresentable(h)


def std_signatures(exe):
    """{"std.array.map": type_ast} for the statically typed (`:`) functions of the stdlib, with the
    types the running typechecker assigns to `std`."""
    if exe in _SIG_CACHE:
        return _SIG_CACHE[exe]
    rc, out, err = core.run_lines(exe, [], ["tc,enforce\tstd"], timeout=300)
    if rc != 0 or not out or not out[0].startswith("OK "):
        raise RuntimeError("c01 harness: cannot read the type of std: %s %s" % (out[:1], err[-300:]))
    ok, terms, _ = S.parse_tc(out[0])
    top = [t for t in terms if t[2] == "Var"][0][3]
    typed = std_typed_names()
    sigs = {}

    def walk(prefix, ty):
        for row in ty[1]:
            name = prefix + "." + row[0][1]
            rt = row[1]
            if not isinstance(rt, str) and rt[0] == "rec" and name.count(".") == 1:
                walk(name, rt)
                continue
            if name not in typed or STD_SKIP.search(name):
                continue
            try:
                sigs[name] = sexp_ty(rt)
            except Unrepresentable:
                pass
    walk("std", top)
    _SIG_CACHE[exe] = sigs
    return sigs


_STD_OFFSETS = None


def std_function_at(offset):
    """Name of the std.ncl field whose definition contains the byte offset (for violation keys)."""
    global _STD_OFFSETS
    if _STD_OFFSETS is None:
        src = open(os.path.join(core.REPO, "core/stdlib/std.ncl"), "rb").read().decode("utf8", "replace")
        offs, mod, pos = [], None, 0
        for l in src.split("\n"):
            m = re.match(r"^  ([a-z_A-Z]+) = \{$", l)
            if m:
                mod = m.group(1)
            elif l == "  },":
                mod = None
            m = re.match(r"^(    |  )([a-zA-Z_][a-zA-Z_0-9]*)\s*$", l)
            if m and ((len(m.group(1)) == 4 and mod) or (len(m.group(1)) == 2 and not mod)):
                offs.append((pos, ("std.%s." % mod if mod else "std.") + m.group(2)))
            pos += len(l.encode("utf8")) + 1
        _STD_OFFSETS = offs
    name = "std"
    for p, n in _STD_OFFSETS:
        if p <= offset:
            name = n
        else:
            break
    return name


# ---------------------------------------------------------------------------------------- printer

class Prog:
    __slots__ = ("src", "ast", "ty", "kind", "typed_regions", "untyped_regions", "own_annots", "hole_annots",
                 "features", "size", "nodes", "std_used", "seed_note", "expect", "key_override")

    def __init__(self):
        self.src = ""
        self.ast = None
        self.ty = None
        self.kind = "valid"
        self.typed_regions = []
        self.untyped_regions = []
        self.own_annots = []
        self.hole_annots = []
        self.features = set()
        self.size = 0
        self.nodes = []       # (start, end, label) of operations, for violation keys
        self.std_used = []
        self.seed_note = ""
        self.expect = None    # corpus only: the verdict the author expected

    def regions(self):
        return {"typed": self.typed_regions, "untyped": self.untyped_regions, "own_annots": self.own_annots,
                "hole_annots": self.hole_annots}


BINOPS = {  # name -> precedence level (lower binds tighter); all left associative
    "++": 2, "@": 2, "*": 3, "/": 3, "%": 3, "+": 4, "-": 4, "&": 6, "|>": 6,
    "<": 7, "<=": 7, ">": 7, ">=": 7, "==": 8, "!=": 8, "&&": 9, "||": 10,
}
ATOM, APPL, TOP = -1, 0, 100


def str_lit(s):
    return '"' + s.replace("\\", "\\\\").replace('"', '\\"').replace("%", "\\%") + '"'


class Printer:
    def __init__(self):
        self.buf = []
        self.off = 0
        self.typed = []
        self.untyped = []
        self.own = []
        self.holes = []
        self.nodes = []

    def w(self, s):
        self.buf.append(s)
        self.off += len(s)

    def level(self, t):
        k = t[0]
        if k in ("str", "bool", "null", "var", "arr", "rec", "tag", "stdref", "proj", "annt", "annc"):
            return ATOM
        if k == "num":
            return ATOM
        if k in ("app", "variant"):
            return APPL
        if k == "match":
            return APPL if t[1] is None else 6
        if k == "op":
            n = t[1]
            if n in ("interp", "dynget"):
                return ATOM
            if n == "!":
                return 5
            return BINOPS[n]
        return TOP

    def term(self, t, maxlvl=TOP):
        if self.level(t) > maxlvl:
            self.w("(")
            self.term0(t)
            self.w(")")
        else:
            self.term0(t)

    def pattern(self, p):
        k = p[0]
        if k == "ptag":
            self.w("'" + p[1])
        elif k == "pvariant":
            self.w("'%s %s" % (p[1], p[2] if p[2] else "_"))
        elif k == "pwild":
            self.w("_")
        elif k == "pvar":
            self.w(p[1])
        elif k == "plit":
            self.term(p[1], ATOM)
        elif k == "prec":
            self.w("{" + ", ".join("%s = %s" % (f, x) for f, x in p[1]) + "}")
        elif k == "pguard":
            self.pattern(p[1])
            self.w(" if ")
            self.term(p[2], 10)
        elif k == "por":
            # (p1) or (p2) ..: the alternatives bind the same variables
            for i, q in enumerate(p[1]):
                if i:
                    self.w(" or ")
                if q[0] == "pvariant":
                    self.w("(")
                    self.pattern(q)
                    self.w(")")
                else:
                    self.pattern(q)
        else:
            raise ValueError(p)

    def match_block(self, arms):
        self.w("match {")
        for i, (p, b) in enumerate(arms):
            self.w(" " if i == 0 else ", ")
            self.pattern(p)
            self.w(" => ")
            self.term(b, TOP)
        self.w(" }")

    def term0(self, t):
        k = t[0]
        start = self.off
        if k == "num":
            v = t[1]
            if isinstance(v, float):
                s = repr(v)
            else:
                s = str(v)
            self.w("(%s)" % s if s.startswith("-") else s)
        elif k == "str":
            self.w(str_lit(t[1]))
        elif k == "bool":
            self.w("true" if t[1] else "false")
        elif k == "null":
            self.w("null")
        elif k == "var":
            self.w(t[1])
        elif k == "stdref":
            self.w(t[1])
        elif k == "tag":
            self.w("'" + t[1])
        elif k == "variant":
            self.w("'%s " % t[1])
            self.term(t[2], ATOM)
        elif k == "lam":
            self.w("fun")
            b = t
            while b[0] == "lam":
                self.w(" " + b[1])
                b = b[2]
            self.w(" => ")
            self.term(b, TOP)
        elif k == "app":
            spine = []
            h = t
            while h[0] == "app":
                spine.append(h[2])
                h = h[1]
            spine.reverse()
            if h[0] in ("tag", "variant"):
                self.w("(")
                self.term0(h)
                self.w(")")
            else:
                self.term(h, APPL)
            for a in spine:
                self.w(" ")
                self.term(a, ATOM)
            lab = h[1] if h[0] in ("var", "stdref") else h[0]
            self.nodes.append((start, self.off, "app:" + str(lab)))
        elif k in ("let", "letrec"):
            self.w("let rec " if k == "letrec" else "let ")
            self.w(t[1])
            if t[2] is not None:
                self.w(" : ")
                a = self.off
                self.w(ty_src(t[2]))
                self.own.append((a, self.off))
            self.w(" = ")
            a = self.off
            self.term(t[3], TOP)
            if t[2] is not None:
                self.typed.append((a, self.off))
            self.w(" in ")
            self.term(t[4], TOP)
        elif k == "if":
            self.w("if ")
            self.term(t[1], TOP)
            self.w(" then ")
            self.term(t[2], TOP)
            self.w(" else ")
            self.term(t[3], TOP)
            self.nodes.append((start, self.off, "if"))
        elif k == "arr":
            self.w("[")
            for i, e in enumerate(t[1]):
                if i:
                    self.w(", ")
                self.term(e, TOP)
            self.w("]")
        elif k == "rec":
            self.w("{")
            for i, (f, e) in enumerate(t[1]):
                if i:
                    self.w(", ")
                if isinstance(f, tuple):
                    self.w('"%{')
                    self.term(f[1], TOP)
                    self.w('}"')
                else:
                    self.w(f)
                self.w(" = ")
                self.term(e, TOP)
            self.w("}")
        elif k == "proj":
            self.term(t[1], ATOM)
            self.w("." + t[2])
            self.nodes.append((start, self.off, "proj"))
        elif k == "match":
            if t[1] is not None:
                self.term(t[1], 6)
                self.w(" |> ")
            a = self.off
            self.match_block(t[2])
            self.nodes.append((a, self.off, "match" + self.match_kind(t[2])))
        elif k == "op":
            n = t[1]
            if n == "interp":
                self.w('"')
                for part in t[2]:
                    if part[0] == "str":
                        self.w(part[1])
                    else:
                        self.w("%{")
                        self.term(part, TOP)
                        self.w("}")
                self.w('"')
            elif n == "dynget":
                self.term(t[2][0], ATOM)
                self.w('."%{')
                self.term(t[2][1], TOP)
                self.w('}"')
            elif n == "!":
                self.w("!")
                self.term(t[2][0], ATOM)
            else:
                lv = BINOPS[n]
                self.term(t[2][0], lv)
                self.w(" %s " % n)
                self.term(t[2][1], lv - 1)
            self.nodes.append((start, self.off, "op:" + n))
        elif k == "annt":
            self.w("(")
            self.term(t[1], 10)
            self.w(" : ")
            a = self.off
            self.w(ty_src(t[2]))
            self.own.append((a, self.off))
            self.w(")")
            self.typed.append((start, self.off))
        elif k == "annc":
            self.w("(")
            self.term(t[1], 10)
            self.w(" | ")
            a = self.off
            self.w(ty_src(t[2]))
            self.holes.append((a, self.off))
            self.w(")")
            self.untyped.append((start, self.off))
        else:
            raise ValueError("unknown term %r" % (t,))

    @staticmethod
    def match_kind(arms):
        pk = {p[0] for p, _ in arms}
        last = arms[-1][0][0] if arms else ""
        if "pguard" in pk:
            if pk == {"pguard"}:
                return "-all-arms-guarded"          # partial whatever the argument: a class of its own
            return "-guard" + ("" if last in ("pwild", "pvar") else "-no-default")
        if "plit" in pk:
            return "-literal" + ("" if pk & {"pwild", "pvar"} else "-no-default")
        if "prec" in pk:
            return "-record"
        if pk & {"pwild", "pvar"}:
            return "-default"
        return "-enum"


def term_size(t):
    if not isinstance(t, tuple) or not t or not isinstance(t[0], str):
        return 0
    n = 1
    for c in t[1:]:
        n += sub_size(c)
    return n


def sub_size(c):
    if isinstance(c, tuple):
        if c and isinstance(c[0], str) and c[0] in TERM_KINDS:
            return term_size(c)
        return sum(sub_size(x) for x in c)
    return 0


TERM_KINDS = {"num", "str", "bool", "null", "var", "lam", "app", "let", "letrec", "if", "arr", "rec", "proj", "tag",
              "variant", "match", "op", "stdref", "annt", "annc"}


def walk_terms(t, f, under_hole=False):
    """Call f(node, under_hole) on every term node."""
    if not isinstance(t, tuple) or not t:
        return
    if isinstance(t[0], str) and t[0] in TERM_KINDS:
        f(t, under_hole)
        k = t[0]
        if k in ("annt", "annc"):
            walk_terms(t[1], f, k == "annc")
            return
        if k in ("let", "letrec"):
            walk_terms(t[3], f, under_hole and t[2] is None)
            walk_terms(t[4], f, under_hole)
            return
        if k in ("num", "str", "bool", "var", "tag", "stdref", "null"):
            return
        if k == "variant":
            walk_terms(t[2], f, under_hole)
            return
        if k == "proj":
            walk_terms(t[1], f, under_hole)
            return
        if k == "lam":
            walk_terms(t[2], f, under_hole)
            return
        for c in t[1:]:
            walk_terms(c, f, under_hole)
        return
    for c in t:
        if isinstance(c, tuple):
            if c and c[0] in ("ptag", "pvariant", "pwild", "pvar", "plit", "prec", "pguard", "por", "dyn") and not (c[0] == "dyn" and len(c) == 1):
                if c[0] == "dyn" and len(c) == 2:
                    walk_terms(c[1], f, under_hole)
                if c[0] == "pguard":
                    walk_terms(c[2], f, under_hole)
                continue
            walk_terms(c, f, under_hole)


def make_prog(ast, ty, kind, extra_features=(), wrap="block"):
    """Print `ast` (whose root is an ("annt", e, T) typed block, or any term) and collect the regions."""
    p = Printer()
    p.term(ast, TOP)
    pr = Prog()
    pr.src = "".join(p.buf)
    pr.ast = ast
    pr.ty = ty
    pr.kind = kind
    pr.typed_regions = p.typed
    pr.untyped_regions = p.untyped
    pr.own_annots = p.own
    pr.hole_annots = p.holes
    pr.nodes = p.nodes
    pr.size = term_size(ast)
    feats = set(extra_features)
    std = []

    def visit(n, under_hole):
        k = n[0]
        pre = "u:" if under_hole else ""
        if k == "op":
            feats.add(pre + "op:" + n[1])
        elif k == "stdref":
            feats.add(pre + "stdref")
            std.append(n[1])
        elif k == "match":
            feats.add(pre + "match" + Printer.match_kind(n[2]))
            for pt, _ in n[2]:
                feats.add(pre + "pat:" + pt[0])
        elif k in ("let", "letrec"):
            feats.add(pre + k + (":annot" if n[2] is not None else ""))
            if n[2] is not None and n[2][0] == "forall":
                feats.add(pre + "let:forall-" + "+".join(sorted({kd for _, kd in strip_foralls(n[2])[0]})))
        elif k == "rec" and any(isinstance(f, tuple) for f, _ in n[1]):
            feats.add(pre + "rec:dynamic-field")
        else:
            feats.add(pre + k)
        if k in ("annt", "annc") or (k in ("let", "letrec") and n[2] is not None):
            def tv(t):
                feats.add("ty:" + (t[0] if not (t[0] == "rec" and t[2] is not None) else
                                   ("rec;Dyn" if t[2] == "dyn" else "rec;row")) + (";row" if t[0] == "enum" and t[2] else ""))
                return False
            ty_any(n[2], tv)
    walk_terms(ast, visit)
    pr.features = feats
    pr.std_used = std
    return pr


# ------------------------------------------------------------------------------------- generator

class Gen:
    """Type-directed term generator.  env: list of (name, type, exact) where `exact` says that the
    typechecker knows exactly this type for the variable (annotated binding / parameter of an
    annotated function); subsumption (record -> dictionary) is only attempted on such variables."""

    def __init__(self, rng, sigs, size):
        self.rng = rng
        self.sigs = sigs
        self.size = size
        self.counter = 0
        self.features = set()
        self.std_index = []           # (name, vars, body, arity)
        for name in sorted(sigs):
            vs, body = strip_foralls(sigs[name])
            self.std_index.append((name, vs, body, arity(body)))

    # -------------------------------------------------------------------------------- names
    def fresh(self, p="v"):
        self.counter += 1
        return "%s%d" % (p, self.counter)

    # -------------------------------------------------------------------------------- types
    def gen_type(self, d, fun_ok=True, dyn_ok=True, data=False):
        r = self.rng
        if d <= 0:
            return r.weighted([(NUM, 5), (STR, 4), (BOOL, 3)])
        k = r.weighted([("num", 7), ("str", 5), ("bool", 4), ("arr", 4), ("rec", 4), ("dict", 0 if data else 2), ("enum", 3),
                        ("fun", 3 if fun_ok and not data else 0), ("dyn", 1 if dyn_ok and not data else 0),
                        ("orec", 1 if dyn_ok and not data else 0)])
        if k in ("num", "str", "bool", "dyn"):
            return (k,)
        if k == "arr":
            return ("arr", self.gen_type(d - 1, fun_ok, dyn_ok, data))
        if k == "dict":
            return ("dict", self.gen_type(d - 1, fun_ok, False, data))
        if k == "fun":
            return ("fun", self.gen_type(d - 1, False, dyn_ok, data), self.gen_type(d - 1, fun_ok, dyn_ok, data))
        if k in ("rec", "orec"):
            fs = r.shuffle(FIELDS)[:r.range(1, 3)]
            return mk_rec([(f, self.gen_type(d - 1, fun_ok, dyn_ok and k == "rec", data)) for f in fs], "dyn" if k == "orec" else None)
        tags = r.shuffle(TAGS)[:r.range(1, 3)]
        return mk_enum([(t, self.gen_type(d - 1, False, False, data) if r.chance(1, 2) else None) for t in tags])

    def pick_type(self, env, d=1, data=False):
        """A type for an unconstrained position: prefer the types of variables in scope."""
        cands = [t for (_, t, _) in env if t[0] != "forall" and not has_tvars(t) and (not data or is_data(t))]
        if cands and self.rng.chance(1, 2):
            return self.rng.choice(cands)
        return self.gen_type(d, data=data)

    # ------------------------------------------------------------------------ untyped code
    def uleaf(self, T, uenv):
        """Untyped code evaluating to a value that satisfies the contract T (None if impossible)."""
        r = self.rng
        k = T[0]
        vs = [x for (x, t) in uenv if t == T]
        if vs and r.chance(1, 2):
            return ("var", r.choice(vs))
        if k == "num":
            return ("num", r.range(-3, 9))
        if k == "str":
            return ("str", r.choice(["", "a", "b", "foo", "x y", "a,b"]))
        if k == "bool":
            return ("bool", r.chance(1, 2))
        if k == "dyn":
            return r.choice([("num", 1), ("str", "d"), ("bool", True), ("null",), ("arr", ()), ("rec", (("a", ("num", 1)),)),
                             ("tag", "Foo")])
        if k == "arr":
            return ("arr", ())
        if k == "dict":
            return ("rec", ())
        if k == "fun":
            x = self.fresh("u")
            b = self.uleaf(T[2], uenv + [(x, T[1])])
            return None if b is None else ("lam", x, b)
        if k == "rec":
            if isinstance(T[2], tuple):
                return ("var", vs[0]) if vs else None
            fs = []
            for f, ft in T[1]:
                e = self.uleaf(ft, uenv)
                if e is None:
                    return None
                fs.append((f, e))
            if T[2] == "dyn" and r.chance(1, 2):
                fs.append(("zz", ("str", "extra")))
            return ("rec", tuple(fs))
        if k == "enum":
            if not T[1]:
                return ("var", vs[0]) if vs else None
            tag, pt = r.choice(T[1])
            if pt is None:
                return ("tag", tag)
            e = self.uleaf(pt, uenv)
            return None if e is None else ("variant", tag, e)
        if k == "tvar":
            return ("var", vs[0]) if vs else None
        if k == "forall":
            return self.uleaf(T[3], uenv)
        return None

    def other_kind(self, T):
        """An untyped value that does NOT satisfy the (first-order part of) contract T."""
        r = self.rng
        alts = [("num", ("num", 7)), ("str", ("str", "oops")), ("bool", ("bool", False)), ("arr", ("arr", (("num", 1),))),
                ("rec", ("rec", (("zz", ("num", 1)),))), ("fun", ("lam", "u0", ("var", "u0"))), ("enum", ("tag", "Zz")), ("null", ("null",))]
        kind = {"dict": "rec"}.get(T[0], T[0])
        alts = [e for (k, e) in alts if k != kind]
        return r.choice(alts)

    def ugen(self, T, uenv, n, good=True):
        """Untyped (dynamically typed) code for a hole `(u | T)`.  good=False: one deliberate fault."""
        r = self.rng
        k = T[0]
        if not good:
            self.features.add("hole:bad")
            if k == "dyn":
                good = True
            else:
                how = r.below(3)
                if how == 0 or k in ("num", "str", "bool", "tvar"):
                    if r.chance(1, 4):       # an error raised inside the untyped code itself
                        self.features.add("hole:bad-internal-error")
                        return ("op", "+", (("num", 1), ("str", "a")))
                    return self.other_kind(T)
                if k == "arr":
                    good_e = self.ugen(T[1], uenv, n // 2, True)
                    bad_e = self.ugen(T[1], uenv, n // 2, False)
                    return ("arr", tuple(x for x in (good_e, bad_e) if x is not None))
                if k == "dict":
                    bad_e = self.ugen(T[1], uenv, n // 2, False)
                    return ("rec", (("k", bad_e),)) if bad_e is not None else self.other_kind(T)
                if k == "rec" and T[1]:
                    fs = list(T[1])
                    which = r.below(3)
                    out = []
                    victim = r.below(len(fs))
                    for i, (f, ft) in enumerate(fs):
                        if i == victim and which == 0:
                            continue           # missing field
                        e = self.ugen(ft, uenv, n // len(fs), not (i == victim and which == 1))
                        if e is None:
                            return self.other_kind(T)
                        out.append((f, e))
                    if which == 2:
                        if T[2] is None:
                            out.append(("zz", ("num", 0)))   # extra field of a closed record
                        else:
                            return self.other_kind(T)
                    return ("rec", tuple(out))
                if k == "enum":
                    if r.chance(1, 2) or not any(pt is not None for _, pt in T[1]):
                        return r.choice([("tag", "Zz"), ("variant", "Zz", ("num", 1))])
                    tag, pt = r.choice([(t, pt) for t, pt in T[1] if pt is not None])
                    e = self.ugen(pt, uenv, n - 1, False)
                    return ("variant", tag, e) if e is not None else ("tag", "Zz")
                if k == "fun":
                    x = self.fresh("u")
                    if T[1][0] == "str" and r.chance(1, 3):
                        self.features.add("hole:bad-internal-error")
                        return ("lam", x, ("op", "+", (("var", x), ("num", 1))))
                    b = self.ugen(T[2], uenv + [(x, T[1])], n - 1, False)
                    return ("lam", x, b) if b is not None else self.other_kind(T)
                return self.other_kind(T)
        self.features.add("hole:good")
        if n <= 1:
            return self.uleaf(T, uenv)
        choice = r.below(10)
        if k == "fun":
            x = self.fresh("u")
            b = self.ugen(T[2], uenv + [(x, T[1])], n - 1, True)
            return None if b is None else ("lam", x, b)
        if k == "forall":
            return self.ugen(T[3], uenv, n, True)
        if k == "tvar":
            return self.uleaf(T, uenv)
        # dynamic idioms that no static type system would accept
        if choice == 0:
            v = self.ugen(T, uenv, n - 2, True)
            return None if v is None else ("if", ("bool", True), v, self.other_kind(T))
        if choice == 1:
            v = self.ugen(T, uenv, n - 3, True)
            return None if v is None else ("app", ("app", ("stdref", "std.array.at"), ("num", 0)), ("arr", (v, self.other_kind(T))))
        if choice == 2:
            v = self.ugen(T, uenv, n - 3, True)
            return None if v is None else ("proj", ("rec", (("k", v), ("z", self.other_kind(T)))), "k")
        if choice == 3:
            v = self.ugen(T, uenv, n - 2, True)
            x = self.fresh("u")
            return None if v is None else ("let", x, None, v, ("var", x))
        if choice == 4 and is_data(T) and not has_tvars(T):
            # a statically typed block inside the untyped code
            self.features.add("hole:contains-typed-block")
            # variables bound by the untyped code itself (u..) are Dyn for the typechecker
            sub = self.gen(T, [(x, t, True) for (x, t) in uenv if is_data(t) and not x.startswith("u")], max(1, n - 1), True)
            if sub is not None:
                return ("annt", sub, T)
        if k == "num":
            a = self.ugen(NUM, uenv, n // 2, True)
            b = self.ugen(NUM, uenv, n // 2, True)
            if choice == 5:
                return ("app", ("stdref", "std.array.length"), ("arr", (a, ("str", "s"), b)))
            return ("op", r.choice(["+", "-", "*"]), (a, b))
        if k == "str":
            a = self.ugen(STR, uenv, n // 2, True)
            if choice == 5:
                return ("app", ("stdref", "std.to_string"), self.ugen(NUM, uenv, n // 2, True))
            return ("op", "++", (a, self.ugen(STR, uenv, n // 2, True)))
        if k == "bool":
            if choice == 5:
                return ("app", ("stdref", "std.is_number"), self.uleaf(DYN, uenv))
            t = r.choice([NUM, STR])
            return ("op", r.choice(["==", "!="]), (self.ugen(t, uenv, n // 2, True), self.ugen(t, uenv, n // 2, True)))
        if k == "arr":
            m = r.range(0, 3)
            es = [self.ugen(T[1], uenv, max(1, (n - 1) // max(1, m)), True) for _ in range(m)]
            if any(e is None for e in es):
                return self.uleaf(T, uenv)
            if choice == 5 and m:
                return ("op", "@", (("arr", tuple(es[:1])), ("arr", tuple(es[1:]))))
            return ("arr", tuple(es))
        if k == "dict":
            fs = r.shuffle(FIELDS)[:r.range(0, 3)]
            es = [(f, self.ugen(T[1], uenv, max(1, (n - 1) // max(1, len(fs))), True)) for f in fs]
            if any(e is None for _, e in es):
                return self.uleaf(T, uenv)
            return ("rec", tuple(es))
        if k == "rec":
            if isinstance(T[2], tuple):
                return self.uleaf(T, uenv)
            es = [(f, self.ugen(ft, uenv, max(1, (n - 1) // max(1, len(T[1]))), True)) for f, ft in T[1]]
            if any(e is None for _, e in es):
                return None
            if T[2] == "dyn":
                es.append(("zz", self.uleaf(DYN, uenv)))
            if choice == 5 and len(es) >= 2:
                return ("op", "&", (("rec", tuple(es[:1])), ("rec", tuple(es[1:]))))
            return ("rec", tuple(es))
        if k == "enum":
            if not T[1]:
                return self.uleaf(T, uenv)
            tag, pt = r.choice(T[1])
            if pt is None:
                return ("tag", tag)
            e = self.ugen(pt, uenv, n - 1, True)
            return None if e is None else ("variant", tag, e)
        if k == "dyn":
            return self.ugen(self.gen_type(1, dyn_ok=False), uenv, n, True)
        return self.uleaf(T, uenv)

    def hole(self, T, env, n, bad_ok=True):
        if has_tvars(T):
            return None
        uenv = [(x, t) for (x, t, _) in env if t[0] != "forall" and is_data(t)]
        good = not (bad_ok and self.rng.chance(1, 7))
        u = self.ugen(T, uenv, max(1, n - 1), good)
        if u is None:
            return None
        self.features.add("hole")
        return ("annc", u, T)

    # ------------------------------------------------------------------------- typed code
    def vars_of(self, T, env, known):
        """Variables usable at type T: exact type, or (in a checking position) a record variable
        where a dictionary is expected / arrays thereof (the subsumption rule of subtyping.rs)."""
        out = []
        for (x, t, exact) in env:
            if t == T:
                out.append(("var", x))
            elif known and exact and t[0] != "forall" and self.subsumes(t, T):
                out.append(("subvar", x))
        return out

    def subsumes(self, t, T):
        if t == T:
            return True
        if t[0] == "rec" and T[0] == "dict":
            return t[2] is None and len(t[1]) > 0 and all(self.subsumes(ft, T[1]) for _, ft in t[1])
        if t[0] == T[0] and t[0] in ("arr", "dict"):
            return self.subsumes(t[1], T[1])
        if t[0] == "rec" and T[0] == "rec" and t[2] is None and T[2] is None and [f for f, _ in t[1]] == [f for f, _ in T[1]]:
            return all(self.subsumes(a, b) for (_, a), (_, b) in zip(t[1], T[1]))
        return False

    def use_var(self, v):
        if v[0] == "subvar":
            self.features.add("subsumption:record-to-dict")
            return ("var", v[1])
        return v

    def leaf(self, T, env, known=True):
        r = self.rng
        k = T[0]
        vs = self.vars_of(T, env, known)
        if vs and (r.chance(2, 3) or k == "tvar"):
            return self.use_var(r.choice(vs))
        if k == "num":
            return ("num", r.choice([0, 1, 2, 3, 5, 10, -1, 1.5]))
        if k == "str":
            return ("str", r.choice(["", "a", "b", "foo", "bar", "a b", "x,y"]))
        if k == "bool":
            return ("bool", r.chance(1, 2))
        if k == "dyn":
            return self.hole(DYN, env, 1)
        if k == "arr":
            if r.chance(3, 5) and T[1][0] in ("num", "str", "bool", "tvar", "enum"):
                e = self.leaf(T[1], env, known)
                if e is not None:
                    return ("arr", (e,))
            return ("arr", ())
        if k == "dict":
            lit = ("rec", ())
            if r.chance(3, 5) and T[1][0] in ("num", "str", "bool", "tvar", "enum"):
                e = self.leaf(T[1], env, True)
                if e is not None:
                    lit = ("rec", ((r.choice(FIELDS[:3]), e),))
            if known or has_tvars(T):
                return lit
            return ("annt", lit, T)
        if k == "fun":
            x = self.fresh("p")
            b = self.leaf(T[2], env + [(x, T[1], known)], known)
            return None if b is None else ("lam", x, b)
        if k == "rec":
            if T[2] == "dyn":
                return self.hole(T, env, 2, bad_ok=False)
            if isinstance(T[2], tuple):
                return self.use_var(vs[0]) if vs else None
            fs = []
            for f, ft in T[1]:
                e = self.leaf(ft, env, known)
                if e is None:
                    return None
                fs.append((f, e))
            return ("rec", tuple(fs))
        if k == "enum":
            if not T[1]:
                return self.use_var(vs[0]) if vs else None
            bare = [t for t, pt in T[1] if pt is None]
            if bare:
                return ("tag", r.choice(bare))
            tag, pt = r.choice(T[1])
            e = self.leaf(pt, env, known)
            return None if e is None else ("variant", tag, e)
        if k == "tvar":
            return self.use_var(vs[0]) if vs else None
        return None

    def split(self, n, k):
        """Split a budget of n nodes among k children."""
        if k <= 0:
            return []
        n = max(k, n)
        cuts = sorted(self.rng.below(n - k + 1) for _ in range(k - 1))
        parts, prev = [], 0
        for c in cuts:
            parts.append(c - prev + 1)
            prev = c
        parts.append(n - k - prev + 1)
        return parts

    def gen(self, T, env, n, known=True):
        """A term of type T using at most ~n nodes, or None (only for types with rigid variables)."""
        if T[0] == "forall":
            return None
        if not known and needs_known(T) and not has_tvars(T):
            vs = self.vars_of(T, env, False)
            if vs and self.rng.chance(1, 3):
                return self.use_var(self.rng.choice(vs))
            e = self.gen(T, env, n - 1, True)
            return None if e is None else ("annt", e, T)
        if n <= 1:
            return self.leaf(T, env, known)
        r = self.rng
        k = T[0]
        if k in ("dict", "arr") and n >= 4 and not has_tvars(T) and needs_known(T) and r.chance(1, 3):
            t = self.s_subsume(T, env, n, known)
            if t is not None:
                return t
        strategies = [("intro", 10), ("app", 9), ("if", 2), ("let", 5), ("proj", 3), ("match", 3), ("annt", 1), ("hole", 2),
                      ("dynget", 1), ("beta", 1), ("var", 2), ("letpoly", 3 if n >= 6 else 0), ("letrec", 1 if n >= 8 else 0)]
        if k == "tvar" or (k in ("rec", "enum") and isinstance(T[2], tuple)):
            strategies = [(s, w) for s, w in strategies if s not in ("intro", "annt", "hole")]
        if has_tvars(T):
            strategies = [(s, w) for s, w in strategies if s not in ("annt", "hole")]
        for _ in range(4):
            s = r.weighted(strategies)
            t = getattr(self, "s_" + s)(T, env, n, known)
            if t is not None:
                return t
        return self.leaf(T, env, known)

    # ---- strategies: each returns a term of type T or None
    def s_var(self, T, env, n, known):
        vs = self.vars_of(T, env, known)
        return self.use_var(self.rng.choice(vs)) if vs else None

    def s_annt(self, T, env, n, known):
        e = self.gen(T, env, n - 1, True)
        return None if e is None else ("annt", e, T)

    def s_hole(self, T, env, n, known):
        return self.hole(T, env, min(n, 12))

    def s_if(self, T, env, n, known):
        a, b, c = self.split(n - 1, 3)
        cond = self.gen(BOOL, env, a, True)
        t = self.gen(T, env, b, known)
        e = self.gen(T, env, c, known)
        if None in (cond, t, e):
            return None
        return ("if", cond, t, e)

    def s_beta(self, T, env, n, known):
        A = self.pick_type(env, 1)
        x = self.fresh("p")
        a, b = self.split(n - 2, 2)
        body = self.gen(T, env + [(x, A, False)], a, False)
        arg = self.gen(A, env, b, False)
        if body is None or arg is None:
            return None
        return ("app", ("lam", x, body), arg)

    def s_intro(self, T, env, n, known):
        r = self.rng
        k = T[0]
        if k == "num":
            op = r.weighted([("+", 4), ("-", 3), ("*", 3), ("/", 1), ("%", 1)])
            a, b = self.split(n - 1, 2)
            x = self.gen(NUM, env, a, True)
            y = ("num", r.choice([1, 2, 3, 7])) if op in ("/", "%") and r.chance(4, 5) else self.gen(NUM, env, b, True)
            return None if None in (x, y) else ("op", op, (x, y))
        if k == "str":
            a, b = self.split(n - 1, 2)
            x, y = self.gen(STR, env, a, True), self.gen(STR, env, b, True)
            if None in (x, y):
                return None
            if r.chance(1, 3):
                return ("op", "interp", (("str", r.choice(["", "a", "<"])), x, ("str", r.choice(["", "-", ">"])), y))
            return ("op", "++", (x, y))
        if k == "bool":
            c = r.below(10)
            a, b = self.split(n - 1, 2)
            if c < 3:
                x, y = self.gen(NUM, env, a, True), self.gen(NUM, env, b, True)
                return None if None in (x, y) else ("op", r.choice(["<", "<=", ">", ">="]), (x, y))
            if c < 6:
                t = self.pick_type(env, 1, data=True)
                x, y = self.gen(t, env, a, False), self.gen(t, env, b, False)
                return None if None in (x, y) else ("op", r.choice(["==", "!="]), (x, y))
            if c < 9:
                x, y = self.gen(BOOL, env, a, True), self.gen(BOOL, env, b, True)
                return None if None in (x, y) else ("op", r.choice(["&&", "||"]), (x, y))
            x = self.gen(BOOL, env, n - 1, True)
            return None if x is None else ("op", "!", (x,))
        if k == "arr":
            if r.chance(1, 5):
                a, b = self.split(n - 1, 2)
                x, y = self.gen(T, env, a, known), self.gen(T, env, b, known)
                return None if None in (x, y) else ("op", "@", (x, y))
            m = r.range(1, min(4, max(1, n - 1)))
            es = [self.gen(T[1], env, p, known) for p in self.split(n - 1, m)]
            return None if None in es else ("arr", tuple(es))
        if k == "dict":
            m = r.range(1, min(3, max(1, n - 1)))
            fs = r.shuffle(FIELDS)[:m]
            es = [self.gen(T[1], env, p, known) for p in self.split(n - 1, m)]
            if None in es:
                return None
            fields = list(zip(fs, es))
            if r.chance(1, 5):
                key = self.gen(STR, env, 1, True)
                if key is not None and key[0] != "str":
                    fields[0] = (("dyn", key), fields[0][1])
                    self.features.add("dict:dynamic-field-literal")
            self.features.add("dict:literal")
            return ("rec", tuple(fields))
        if k == "rec":
            if T[2] is not None:
                return self.hole(T, env, n, bad_ok=False) if T[2] == "dyn" else None
            es = [self.gen(ft, env, p, known) for (_, ft), p in zip(T[1], self.split(n - 1, len(T[1])))]
            return None if None in es else ("rec", tuple((f, e) for (f, _), e in zip(T[1], es)))
        if k == "enum":
            if not T[1]:
                return None
            tag, pt = r.choice(T[1])
            if pt is None:
                return ("tag", tag)
            e = self.gen(pt, env, n - 1, known)
            return None if e is None else ("variant", tag, e)
        if k == "fun":
            x = self.fresh("p")
            if T[1][0] == "enum" and T[1][2] is None and r.chance(1, 3):
                arms = self.arms_for(T[1], T[2], env, n - 1, known, exact=known)
                return None if arms is None else ("match", None, arms)
            b = self.gen(T[2], env + [(x, T[1], known)], n - 1, known)
            return None if b is None else ("lam", x, b)
        if k == "dyn":
            return self.hole(DYN, env, min(n, 8))
        return None

    def s_subsume(self, T, env, n, known):
        """let x : <record type> = .. in <x used where the dictionary type T (or Array of it) is expected>:
        the implicit record-to-dictionary coercion, alone or under Array (covariance)."""
        r = self.rng

        def narrow(t):
            if t[0] == "dict":
                return mk_rec([(f, t[1]) for f in r.shuffle(FIELDS)[:r.range(1, 3)]])
            if t[0] == "arr":
                inner = narrow(t[1])
                return None if inner is None else ("arr", inner)
            return None
        R = narrow(T)
        if R is None:
            return None
        a, b = self.split(n - 2, 2)
        e = self.gen(R, env, a, True)
        if e is None:
            return None
        x = self.fresh("v")
        self.features.add("subsumption:record-to-dict" + (":under-array" if T[0] == "arr" else ""))
        env2 = env + [(x, R, True)]
        if known and r.chance(1, 2):
            use = ("var", x)
        elif T[0] == "dict" and r.chance(1, 2):
            k2 = self.gen(STR, env2, 1, True)
            v2 = self.gen(T[1], env2, max(1, b - 3), True)
            if k2 is None or v2 is None:
                return None
            use = _apps(("stdref", "std.record.insert"), [k2, v2, ("var", x)])
        else:
            use = ("annt", ("var", x), T)
        return ("let", x, R, e, use)

    def arms_for(self, E, T, env, n, known, exact=True):
        """Exhaustive arms for a scrutinee of enum type E, bodies of type T."""
        r = self.rng
        rows = list(E[1])
        open_tail = E[2] is not None
        covered = rows if not open_tail and r.chance(3, 5) else r.shuffle(rows)[:r.range(0, max(0, len(rows) - (0 if open_tail else 1)))]
        need_default = open_tail or len(covered) < len(rows)
        parts = self.split(n, len(covered) + (1 if need_default else 0))
        arms = []
        guarded = False
        # neighbouring rows with the same payload type are sometimes matched by one or-pattern arm
        grouped, skip = [], set()
        for i, (tag, pt) in enumerate(covered):
            if i in skip:
                continue
            if i + 1 < len(covered) and covered[i + 1][1] == pt and r.chance(1, 2):
                skip.add(i + 1)
                grouped.append(((tag, covered[i + 1][0]), pt))
            else:
                grouped.append((tag, pt))
        if len(grouped) < len(covered):
            parts = self.split(n, len(grouped) + (1 if need_default else 0))
            covered = grouped
        for (tag, pt), p in zip(covered, parts):
            if isinstance(tag, tuple):
                self.features.add("pat:or")
                if pt is None:
                    pat, env2 = ("por", tuple(("ptag", t1) for t1 in tag)), env
                else:
                    x = self.fresh("m")
                    pat, env2 = ("por", tuple(("pvariant", t1, x) for t1 in tag)), env + [(x, pt, exact)]
            elif pt is None:
                pat, env2 = ("ptag", tag), env
            elif r.chance(1, 6):
                pat, env2 = ("pvariant", tag, None), env
            else:
                x = self.fresh("m")
                pat, env2 = ("pvariant", tag, x), env + [(x, pt, exact)]
            b = self.gen(T, env2, p, known)
            if b is None:
                return None
            if r.chance(1, 10):
                cond = self.gen(BOOL, env2, 3, True)
                if cond is not None:
                    pat = ("pguard", pat, cond)      # a guarded arm does not count for exhaustiveness
                    guarded = True
            arms.append((pat, b))
        if guarded and not need_default:
            need_default = True
            parts = parts + [2]
        if need_default:
            b = self.gen(T, env, parts[-1], known)
            if b is None:
                return None
            arms.append((("pwild",), b))
        return tuple(arms)

    def s_match(self, T, env, n, known):
        r = self.rng
        c = r.below(10)
        a, b = self.split(n - 1, 2)
        a = min(a, 6)
        if c < 7:
            # enum scrutinee: a variable of enum type in scope, or a fresh enum type
            evars = [(x, t) for (x, t, _) in env if t[0] == "enum" and t[1]]
            if evars and r.chance(2, 3):
                x, E = r.choice(evars)
                scrut = ("var", x)
            else:
                E = self.gen_type(2, fun_ok=False, dyn_ok=False)
                while E[0] != "enum":
                    E = mk_enum([(t, self.gen_type(1, False, False) if r.chance(1, 2) else None)
                                 for t in r.shuffle(TAGS)[:r.range(1, 3)]])
                scrut = self.gen(E, env, a, False)
            arms = self.arms_for(E, T, env, b, False)
            if scrut is None or arms is None:
                return None
            if r.chance(1, 4):
                return ("app", ("match", None, arms), scrut)
            return ("match", scrut, arms)
        if c < 9:
            # literal patterns, always with a default arm
            st = r.choice([NUM, STR, BOOL])
            scrut = self.gen(st, env, a, True)
            lits = {"num": [("num", 0), ("num", 1), ("num", 2)], "str": [("str", "a"), ("str", "foo"), ("str", "")],
                    "bool": [("bool", True), ("bool", False)]}[st[0]]
            lits = r.shuffle(lits)[:r.range(1, 2)]
            parts = self.split(b, len(lits) + 1)
            bodies = [self.gen(T, env, p, False) for p in parts]
            if scrut is None or None in bodies:
                return None
            arms = [(("plit", l), bd) for l, bd in zip(lits, bodies)]
            if r.chance(1, 2):
                arms.append((("pwild",), bodies[-1]))
            else:
                x = self.fresh("m")
                arms.append((("pvar", x), bodies[-1]))
            return ("match", scrut, tuple(arms))
        # record pattern
        R = mk_rec([(f, self.gen_type(1, False, False)) for f in r.shuffle(FIELDS)[:r.range(1, 2)]])
        scrut = self.gen(R, env, a, False)
        binds = [(f, self.fresh("m")) for f, _ in R[1]]
        body = self.gen(T, env + [(x, ft, False) for (f, x), (_, ft) in zip(binds, R[1])], b, False)
        if scrut is None or body is None:
            return None
        return ("match", scrut, ((("prec", tuple(binds)), body),))

    def s_proj(self, T, env, n, known):
        r = self.rng
        cands = [(x, f) for (x, t, _) in env if t[0] == "rec" for f, ft in t[1] if ft == T]
        if cands and r.chance(3, 4):
            x, f = r.choice(cands)
            return ("proj", ("var", x), f)
        if has_tvars(T):
            return None
        f = r.choice(FIELDS)
        others = [(g, self.gen_type(1, False, False)) for g in r.shuffle([g for g in FIELDS if g != f])[:r.range(0, 2)]]
        R = mk_rec([(f, T)] + others)
        e = self.gen(R, env, n - 1, False)
        return None if e is None else ("proj", e, f)

    def s_dynget(self, T, env, n, known):
        if has_tvars(T):
            return None
        r = self.rng
        key = r.choice(FIELDS)
        if r.chance(3, 4):
            m = r.range(1, 3)
            fs = [key] + r.shuffle([f for f in FIELDS if f != key])[:m - 1]
            es = [self.gen(T, env, p, True) for p in self.split(n - 2, m)]
            if None in es:
                return None
            self.features.add("dict:literal")
            d = ("annt", ("rec", tuple(zip(r.shuffle(fs), es))), ("dict", T))
            k = ("str", key)
            if r.chance(1, 3):
                x = self.fresh("v")
                return ("let", x, None, k, ("op", "dynget", (d, ("var", x))))
            return ("op", "dynget", (d, k))
        a, b = self.split(n - 1, 2)
        d = self.gen(("dict", T), env, a, False)
        k = self.gen(STR, env, 1, True) if r.chance(1, 3) else ("str", key)
        if d is None or k is None:
            return None
        return ("op", "dynget", (d, k))

    def s_let(self, T, env, n, known):
        r = self.rng
        c = r.below(10)
        if c < 3:
            B = T if not has_tvars(T) else self.pick_type(env, 2)
        elif c < 5:
            B = ("fun", self.pick_type(env, 1), T)
        elif c < 6 and not has_tvars(T):
            B = mk_rec([(r.choice(FIELDS[:4]), T), (r.choice(FIELDS[4:]), self.gen_type(1))])
        else:
            B = self.pick_type(env, 2)
        if has_tvars(B):
            # rigid variables cannot be mentioned in an annotation (no scoped type variables)
            annotate = False
            if B[0] == "forall":
                return None
        else:
            annotate = r.chance(1, 2)
        a, b = self.split(n - 1, 2)
        e = self.gen(B, env, a, annotate)
        if e is None:
            return None
        x = self.fresh("v")
        exact = annotate or not ty_any(B, lambda t: t[0] in ("dict", "enum", "fun") or (t[0] == "rec" and t[2] is not None))
        body = self.gen_using(x, B, T, env + [(x, B, exact)], b, known)
        if body is None:
            return None
        return ("let", x, B if annotate else None, e, body)

    def gen_using(self, x, B, T, env, n, known):
        """A term of type T that preferably mentions the variable x : B."""
        r = self.rng
        if r.chance(2, 3):
            if B == T and r.chance(1, 2) and n <= 2:
                return ("var", x)
            if B[0] != "forall" and B[0] == "rec":
                fs = [f for f, ft in B[1] if ft == T]
                if fs and r.chance(1, 2):
                    return ("proj", ("var", x), r.choice(fs))
            t = self.app_of([(("var", x), B)], T, env, n, known)
            if t is not None:
                return t
        return self.gen(T, env, n, known)

    # ---- applications
    def instantiate(self, ty):
        """Replace the quantified variables of ty by fresh metavariables."""
        vs, body = strip_foralls(ty)
        ren, metas = {}, []
        for (a, kind) in vs:
            m = "?" + self.fresh("m")
            ren[a] = ("tvar", m)
            metas.append((m, kind))
        return (subst(body, ren) if ren else body), metas

    def fill_metas(self, metas, s, fty, env):
        """Choose instantiations for the metavariables not determined by the expected type."""
        r = self.rng
        for (m, kind) in metas:
            if m in s:
                continue
            if kind == "ty":
                s[m] = self.pick_type(env, 1) if r.chance(3, 4) else self.gen_type(2)
                while has_tvars(s[m]):
                    s[m] = self.gen_type(1)
            else:
                used = set()

                def coll(t):
                    if t[0] in ("rec", "enum") and isinstance(t[2], tuple) and t[2][1] == m:
                        used.update(f for f, _ in t[1])
                    return False
                ty_any(fty, coll)
                if kind == "rrows":
                    extra = [(f, self.gen_type(1)) for f in r.shuffle([f for f in FIELDS if f not in used])[:r.range(0, 2)]]
                else:
                    extra = [(t, self.gen_type(1, False, False) if r.chance(1, 2) else None)
                             for t in r.shuffle([t for t in TAGS if t not in used])[:r.range(0, 2)]]
                s[m] = ("row", tuple(sorted(extra)), None)

    def app_of(self, heads, T, env, n, known):
        """Apply one of `heads` [(term, type)] to arguments so that the result has type T."""
        r = self.rng
        cands = []
        for (h, hty) in heads:
            fty, metas = self.instantiate(hty)
            for k in range(0, arity(fty) + 1):
                args, res = peel(fty, k)
                s = {}
                if match_ty(res, T, s):
                    cands.append((h, fty, metas, k, args, s))
        if not cands:
            return None
        full = [c for c in cands if c[3] > 0]
        pool = full if full and r.chance(9, 10) else cands

        def weight(c):
            w = 1 if is_meta(peel(c[1], c[3])[1]) else 6     # a bare variable as result fits everything
            if c[0][0] == "stdref" and PARTIAL_STD.search(c[0][1]):
                w = max(1, w // 3)
            return w
        h, fty, metas, k, args, s = r.weighted([(c, weight(c)) for c in pool])
        self.fill_metas(metas, s, fty, env)
        term = h
        parts = self.split(n - 1, k) if k else []
        for a, p in zip(args, parts):
            at = subst(a, s)
            # `{_ : ?a}`: the typechecker knows it wants a dictionary even if not of what
            e = self.gen(at, env, p, not has_metas(a) or (a[0] == "dict" and not needs_known(at[1])))
            if e is None:
                return None
            term = ("app", term, e)
        if h[0] == "stdref":
            self.features.add("std-call")
        if k == 1 and r.chance(1, 6):
            return ("op", "|>", (term[2], term[1]))
        return term

    def s_app(self, T, env, n, known):
        r = self.rng
        locals_ = [(("var", x), t) for (x, t, _) in env if strip_foralls(t)[1][0] == "fun"]
        if locals_ and r.chance(1, 2):
            t = self.app_of(locals_, T, env, n, known)
            if t is not None:
                return t
        heads = [(("stdref", name), self.sigs[name]) for (name, _, _, _) in self.std_index]
        return self.app_of(heads, T, env, n, known)

    # ---- polymorphic and recursive let
    def poly_templates(self):
        f = self.fresh
        a, b, c, rr = ("tvar", f("t")), ("tvar", f("t")), ("tvar", f("t")), ("tvar", f("r"))
        x, y, g, h = f("p"), f("p"), f("p"), f("p")
        V = lambda n: ("var", n)
        A = lambda fn, *args: _apps(fn, args)
        L = lambda ps, body: _lams(ps, body)
        fa = lambda vs, t: _foralls(vs, t)
        std = lambda n: ("stdref", n)
        opt = mk_enum([("Some", a), ("None", None)])
        return [
            ("id", fa([(a, "ty")], mk_fun(a, a)), L([x], V(x))),
            ("const", fa([(a, "ty"), (b, "ty")], mk_fun(a, b, a)), L([x, y], V(x))),
            ("apply", fa([(a, "ty"), (b, "ty")], mk_fun(mk_fun(a, b), a, b)), L([g, x], A(V(g), V(x)))),
            ("map", fa([(a, "ty"), (b, "ty")], mk_fun(mk_fun(a, b), ("arr", a), ("arr", b))), L([g, x], A(std("std.array.map"), V(g), V(x)))),
            ("filter", fa([(a, "ty")], mk_fun(mk_fun(a, BOOL), ("arr", a), ("arr", a))), L([g, x], A(std("std.array.filter"), V(g), V(x)))),
            ("len", fa([(a, "ty")], mk_fun(("arr", a), NUM)), L([x], A(std("std.array.length"), V(x)))),
            ("single", fa([(a, "ty")], mk_fun(a, ("arr", a))), L([x], ("arr", (V(x),)))),
            ("twice", fa([(a, "ty")], mk_fun(mk_fun(a, a), a, a)), L([g, x], A(V(g), A(V(g), V(x))))),
            ("compose", fa([(a, "ty"), (b, "ty"), (c, "ty")], mk_fun(mk_fun(b, c), mk_fun(a, b), a, c)), L([g, h, x], A(V(g), A(V(h), V(x))))),
            ("choose", fa([(a, "ty")], mk_fun(BOOL, a, a, a)), L([g, x, y], ("if", V(g), V(x), V(y)))),
            ("pair", fa([(a, "ty"), (b, "ty")], mk_fun(a, b, mk_rec([("fst", a), ("snd", b)]))), L([x, y], ("rec", (("fst", V(x)), ("snd", V(y)))))),
            ("fst", fa([(a, "ty"), (b, "ty")], mk_fun(mk_rec([("fst", a), ("snd", b)]), a)), L([x], ("proj", V(x), "fst"))),
            ("dictvals", fa([(a, "ty")], mk_fun(("dict", a), ("arr", a))), L([x], A(std("std.record.values"), V(x)))),
            ("mkdict", fa([(a, "ty")], mk_fun(STR, a, ("dict", a))), L([x, y], A(std("std.record.insert"), V(x), V(y), ("rec", ())))),
            ("wrap", fa([(a, "ty")], mk_fun(a, opt)), L([x], ("variant", "Some", V(x)))),
            ("unwrap", fa([(a, "ty")], mk_fun(a, opt, a)), L([x], ("match", None, ((("pvariant", "Some", y), V(y)), (("ptag", "None"), V(x)))))),
            ("getx", fa([(rr, "rrows")], mk_fun(mk_rec([("x", NUM)], rr), NUM)), L([x], ("proj", V(x), "x"))),
            ("getxa", fa([(a, "ty"), (rr, "rrows")], mk_fun(mk_rec([("x", a)], rr), a)), L([x], ("proj", V(x), "x"))),
            ("idrow", fa([(rr, "rrows")], mk_fun(mk_rec([("x", NUM)], rr), mk_rec([("x", NUM)], rr))), L([x], V(x))),
            ("tagnum", fa([(rr, "erows")], mk_fun(mk_enum([("A", None)], rr), NUM)),
             ("match", None, ((("ptag", "A"), ("num", 1)), (("pwild",), ("num", 0))))),
            ("bump", fa([(rr, "erows")], mk_fun(mk_enum([("A", NUM)], rr), mk_enum([("A", NUM)], rr))),
             ("match", None, ((("pvariant", "A", x), ("variant", "A", ("op", "+", (V(x), ("num", 1))))), (("pvar", y), V(y))))),
            ("isA", fa([(a, "ty"), (rr, "erows")], mk_fun(mk_enum([("A", a)], rr), BOOL)),
             ("match", None, ((("pvariant", "A", None), ("bool", True)), (("pwild",), ("bool", False))))),
        ]

    def s_letpoly(self, T, env, n, known):
        r = self.rng
        temps = self.poly_templates()
        usable = []
        for (name, pty, body) in temps:
            fty, metas = self.instantiate(pty)
            for k in range(1, arity(fty) + 1):
                if match_ty(peel(fty, k)[1], T, {}):
                    usable.append((name, pty, body))
                    break
        direct = bool(usable) and r.chance(2, 3)
        if not direct:
            usable = temps
        name, pty, fallback = r.choice(usable)
        vs, bty = strip_foralls(pty)
        a, b = self.split(n - 1, 2)
        body = None
        if r.chance(1, 2):
            body = self.gen(bty, env, min(a, 8), True)
            if body is not None:
                self.features.add("poly-body:generated")
        if body is None:
            body = fallback
            self.features.add("poly-body:template")
        fvar = self.fresh("f")
        self.features.add("poly:" + name)
        env2 = env + [(fvar, pty, True)]
        if direct:
            use = self.gen_using(fvar, pty, T, env2, b, known)
        else:
            # call it at some instance, bind the result, go on with T
            fty, metas = self.instantiate(pty)
            s = {}
            self.fill_metas(metas, s, fty, env)
            RT = subst(peel(fty, arity(fty))[1], s)
            b1, b2 = self.split(b, 2)
            call = self.app_of([(("var", fvar), pty)], RT, env2, b1, False)
            if call is None:
                return None
            x = self.fresh("v")
            rest = self.gen(T, env2 + [(x, RT, False)], b2, known)
            use = None if rest is None else ("let", x, None, call, rest)
        if use is None:
            return None
        return ("let", fvar, pty, body, use)

    def s_letrec(self, T, env, n, known):
        """Structurally recursive numeric functions (terminating on the small literals used)."""
        r = self.rng
        f, p = self.fresh("f"), self.fresh("p")
        V = lambda x: ("var", x)
        which = r.below(3)
        if which == 0:      # sum / factorial over a counter
            op = r.choice(["+", "*"])
            fty = mk_fun(NUM, NUM)
            body = ("lam", p, ("if", ("op", "<=", (V(p), ("num", 0))), ("num", 1 if op == "*" else 0),
                               ("op", op, (V(p), ("app", V(f), ("op", "-", (V(p), ("num", 1))))))))
        elif which == 1:    # polymorphic length by recursion on drop_first
            a = ("tvar", self.fresh("t"))
            fty = ("forall", a[1], "ty", mk_fun(("arr", a), NUM))
            body = ("lam", p, ("if", ("op", "==", (("app", ("stdref", "std.array.length"), V(p)), ("num", 0))), ("num", 0),
                               ("op", "+", (("num", 1), ("app", V(f), ("app", ("stdref", "std.array.drop_first"), V(p)))))))
        else:               # replicate a string
            q = self.fresh("p")
            fty = mk_fun(NUM, STR, STR)
            body = ("lam", p, ("lam", q, ("if", ("op", "<=", (V(p), ("num", 0))), ("str", ""),
                                          ("op", "++", (V(q), ("app", ("app", V(f), ("op", "-", (V(p), ("num", 1)))), V(q)))))))
        annotate = fty[0] == "forall" or r.chance(2, 3)
        env2 = env + [(f, fty, annotate)]
        res = peel(strip_foralls(fty)[1], arity(strip_foralls(fty)[1]))[1]
        if res == T:
            if which == 0:
                use = ("app", V(f), ("num", r.range(0, 5)))
            elif which == 1:
                arg = self.gen(("arr", self.pick_type(env, 1)), env2, n - 10, False)
                if arg is None:
                    return None
                use = ("app", V(f), arg)
            else:
                sarg = self.gen(STR, env2, max(1, n - 12), True)
                if sarg is None:
                    return None
                use = ("app", ("app", V(f), ("num", r.range(0, 4))), sarg)
        else:
            if which != 0:
                return None
            # use the function somewhere below with a small literal argument: bind its result
            x = self.fresh("v")
            inner = self.gen(T, env2 + [(x, NUM, True)], max(1, n - 12), known)
            if inner is None:
                return None
            use = ("let", x, None, ("app", V(f), ("num", r.range(0, 5))), inner)
        return ("letrec", f, fty if annotate else None, body, use)


def _apps(f, args):
    for a in args:
        f = ("app", f, a)
    return f


def _lams(ps, body):
    for p in reversed(ps):
        body = ("lam", p, body)
    return body


def _foralls(vs, t):
    for (v, kind) in reversed(vs):
        t = ("forall", v[1], kind, t)
    return t


# ------------------------------------------------------------------------------------ entry points

def gen_valid(rng, sigs, size):
    """A program the generator believes to be well typed: `(<term> : T)`."""
    budget = max(2, size * 4 // 5)
    best = None
    for _ in range(12):
        g = Gen(rng, sigs, size)
        # results that are data are evaluated deeply: prefer them at the top
        T = g.gen_type(2, fun_ok=rng.chance(1, 5))
        e = g.gen(T, [], max(1, budget - 1), True)
        if e is None:
            continue
        root = ("annt", e, T)
        shape = rng.below(8)
        if shape == 0:
            # the other way of writing a typed block: an annotated let binding used by untyped code
            x = g.fresh("v")
            root = ("let", x, T, e, ("var", x))
            g.features.add("toplevel:let-annotation")
        RT = T
        while RT[0] == "fun" and shape != 0 and not has_tvars(RT[1]):
            # a typed function is only exercised when called: the (untyped) top level applies it to
            # an argument that respects the domain
            arg = g.ugen(RT[1], [], 4, True)
            if arg is None:
                break
            root = ("app", root, arg)
            RT = RT[2]
            g.features.add("toplevel:typed-function-applied-by-untyped-code")
        p = make_prog(root, T, "valid", g.features)
        if p.size <= size and (best is None or p.size > best.size):
            best = p
        if size // 2 <= p.size <= size:
            return p
        if p.size > size:
            budget = max(2, budget * 3 // 4)
    if best is not None:
        return best
    return make_prog(("annt", ("num", 1), NUM), NUM, "valid", ())


# ---- mutations

def _children(t):
    """[(path_step, child_term)] of a term node (does not descend into patterns / types)."""
    k = t[0]
    if k == "lam":
        return [((2,), t[2])]
    if k == "app":
        return [((1,), t[1]), ((2,), t[2])]
    if k in ("let", "letrec"):
        return [((3,), t[3]), ((4,), t[4])]
    if k == "if":
        return [((1,), t[1]), ((2,), t[2]), ((3,), t[3])]
    if k == "arr":
        return [((1, i), e) for i, e in enumerate(t[1])]
    if k == "rec":
        out = [((1, i, 1), e) for i, (f, e) in enumerate(t[1])]
        out += [((1, i, 0, 1), f[1]) for i, (f, e) in enumerate(t[1]) if isinstance(f, tuple)]
        return out
    if k in ("proj", "annt", "annc"):
        return [((1,), t[1])]
    if k == "variant":
        return [((2,), t[2])]
    if k == "match":
        out = [((1,), t[1])] if t[1] is not None else []
        return out + [((2, i, 1), b) for i, (p, b) in enumerate(t[2])]
    if k == "op":
        return [((2, i), e) for i, e in enumerate(t[2])]
    return []


def _set(t, step, new):
    if not step:
        return new
    i = step[0]
    return t[:i] + (_set(t[i], step[1:], new),) + t[i + 1:]


def all_nodes(t, path=(), under_hole=False, out=None):
    """[(path, node, under_hole)] with path a tuple of steps."""
    if out is None:
        out = []
    out.append((path, t, under_hole))
    for step, c in _children(t):
        all_nodes(c, path + (step,), under_hole or t[0] == "annc", out)
    return out


def replace_at(t, path, new):
    if not path:
        return new
    step = path[0]
    sub = t
    for i in step:
        sub = sub[i]
    return _set(t, step, replace_at(sub, path[1:], new))


OP_CLASSES = [["+", "-", "*", "/", "%"], ["<", "<=", ">", ">="], ["&&", "||"], ["++"], ["@"], ["==", "!="]]


def mutate_type(rng, T):
    """One local change of a type (or None)."""
    sites = []

    def coll(t, path):
        sites.append((path, t))
        k = t[0]
        if k in ("arr", "dict"):
            coll(t[1], path + ((1,),))
        elif k == "fun":
            coll(t[1], path + ((1,),))
            coll(t[2], path + ((2,),))
        elif k in ("rec", "enum"):
            for i, (f, ft) in enumerate(t[1]):
                if ft is not None:
                    coll(ft, path + ((1, i, 1),))
        elif k == "forall":
            coll(t[3], path + ((3,),))
    coll(T, ())
    for _ in range(8):
        path, t = rng.choice(sites)
        k = t[0]
        new = None
        if k in ("num", "str", "bool"):
            new = rng.choice([x for x in (NUM, STR, BOOL) if x != t])
        elif k == "arr":
            new = rng.choice([t[1], ("dict", t[1])])
        elif k == "dict":
            new = rng.choice([("arr", t[1]), mk_rec([("a", t[1])])])
        elif k == "rec":
            if t[1] and rng.chance(1, 2):
                i = rng.below(len(t[1]))
                new = mk_rec(t[1][:i] + t[1][i + 1:], t[2])
                if not new[1] and new[2] is None:
                    new = None
            else:
                f = rng.choice([f for f in FIELDS + ["zz"] if f not in dict(t[1])])
                new = mk_rec(list(t[1]) + [(f, NUM)], t[2])
        elif k == "enum":
            if len(t[1]) > 1 and rng.chance(1, 2):
                i = rng.below(len(t[1]))
                new = mk_enum(t[1][:i] + t[1][i + 1:], t[2])
            else:
                tg = rng.choice([x for x in TAGS + ["Zz"] if x not in dict(t[1])])
                new = mk_enum(list(t[1]) + [(tg, rng.choice([None, NUM]))], t[2])
        elif k == "fun":
            new = rng.choice([t[2], ("fun", t[2], t[1])]) if t[1] != t[2] else t[2]
        elif k == "dyn":
            new = NUM
        if new is not None and new != t:
            return replace_at(T, path, new)
    return None


MUTATIONS = ["op-swap", "drop-arm", "rename-proj", "rename-field", "annot-change", "swap-args", "lit-kind", "stdref-swap",
             "unwrap-hole", "drop-field", "var-swap", "tag-swap", "scrutinee-type-add-tag", "or-merge"]


def mutate(rng, ast, sigs, what):
    """Apply mutation `what` somewhere in the typed part of ast; returns the new ast or None."""
    nodes = all_nodes(ast)
    typed = [(p, n) for (p, n, u) in nodes if not u]

    def pick(pred):
        c = [(p, n) for (p, n) in typed if pred(n)]
        return rng.choice(c) if c else (None, None)

    if what == "op-swap":
        p, n = pick(lambda n: n[0] == "op" and any(n[1] in c for c in OP_CLASSES))
        if n is None:
            return None
        cls = [c for c in OP_CLASSES if n[1] in c][0]
        new = rng.choice([o for c in OP_CLASSES if c is not cls for o in c])
        return replace_at(ast, p, ("op", new, n[2]))
    if what == "or-merge":
        # two variant arms with binders become one or-pattern arm running the first arm's body: the typechecker
        # must give the binder ONE type (accepted only when the two payload types agree)
        def two(n):
            return n[0] == "match" and len([a for a in n[2] if a[0][0] == "pvariant" and a[0][2]]) >= 2
        p, n = pick(two)
        if n is None:
            return None
        idx = [i for i, a in enumerate(n[2]) if a[0][0] == "pvariant" and a[0][2]]
        i, j = rng.shuffle(idx)[:2]
        x = n[2][i][0][2]
        merged = (("por", (n[2][i][0], ("pvariant", n[2][j][0][1], x))), n[2][i][1])
        arms = tuple(merged if k == min(i, j) else a for k, a in enumerate(n[2]) if k != max(i, j))
        return replace_at(ast, p, ("match", n[1], arms))
    if what == "drop-arm":
        p, n = pick(lambda n: n[0] == "match" and len(n[2]) >= 2)
        if n is None:
            return None
        i = rng.below(len(n[2]))
        return replace_at(ast, p, ("match", n[1], n[2][:i] + n[2][i + 1:]))
    if what == "rename-proj":
        p, n = pick(lambda n: n[0] == "proj")
        if n is None:
            return None
        return replace_at(ast, p, ("proj", n[1], rng.choice([f for f in FIELDS + ["zz"] if f != n[2]])))
    if what in ("rename-field", "drop-field"):
        p, n = pick(lambda n: n[0] == "rec" and len(n[1]) >= 1)
        if n is None:
            return None
        i = rng.below(len(n[1]))
        if what == "drop-field":
            return replace_at(ast, p, ("rec", n[1][:i] + n[1][i + 1:]))
        names = {f for f, _ in n[1] if isinstance(f, str)}
        f = rng.choice([f for f in FIELDS + ["zz"] if f not in names])
        return replace_at(ast, p, ("rec", n[1][:i] + ((f, n[1][i][1]),) + n[1][i + 1:]))
    if what == "annot-change":
        c = [(p, n) for (p, n, u) in nodes if (n[0] in ("annt", "annc") or (n[0] in ("let", "letrec") and n[2] is not None))]
        if not c:
            return None
        p, n = rng.choice(c)
        nt = mutate_type(rng, n[2])
        if nt is None:
            return None
        return replace_at(ast, p, n[:2] + (nt,) + n[3:])
    if what == "scrutinee-type-add-tag":
        # let x : [| ... |] = e in ... x |> match {...}: add a tag to the type but not to the match
        c = [(p, n) for (p, n) in typed if n[0] == "let" and n[2] is not None and
             ty_any(n[2], lambda t: t[0] == "enum" and t[2] is None)]
        if not c:
            return None
        p, n = rng.choice(c)

        def add(t):
            if t[0] == "enum" and t[2] is None:
                tg = rng.choice([x for x in TAGS + ["Zz"] if x not in dict(t[1])])
                return mk_enum(list(t[1]) + [(tg, None)], None)
            k = t[0]
            if k in ("arr", "dict"):
                return (k, add(t[1]))
            if k == "fun":
                return ("fun", add(t[1]), add(t[2]))
            if k == "rec":
                return mk_rec([(f, add(ft)) for f, ft in t[1]], t[2])
            if k == "forall":
                return ("forall", t[1], t[2], add(t[3]))
            return t
        return replace_at(ast, p, n[:2] + (add(n[2]),) + n[3:])
    if what == "swap-args":
        p, n = pick(lambda n: n[0] == "app" and n[1][0] == "app" and n[2] != n[1][2])
        if n is None:
            return None
        return replace_at(ast, p, ("app", ("app", n[1][1], n[2]), n[1][2]))
    if what == "lit-kind":
        p, n = pick(lambda n: n[0] in ("num", "str", "bool"))
        if n is None:
            return None
        new = rng.choice([x for x in (("num", 4), ("str", "m"), ("bool", True), ("arr", ()), ("tag", "Zz")) if x[0] != n[0]])
        return replace_at(ast, p, new)
    if what == "stdref-swap":
        p, n = pick(lambda n: n[0] == "stdref")
        if n is None:
            return None
        names = sorted(sigs)
        return replace_at(ast, p, ("stdref", rng.choice([x for x in names if x != n[1]])))
    if what == "unwrap-hole":
        p, n = pick(lambda n: n[0] == "annc")
        if n is None:
            return None
        return replace_at(ast, p, n[1])
    if what == "var-swap":
        names = sorted({n[1] for (_, n) in typed if n[0] == "var"} |
                       {n[1] for (_, n) in typed if n[0] in ("let", "letrec", "lam")})
        p, n = pick(lambda n: n[0] == "var")
        if n is None or len(names) < 2:
            return None
        return replace_at(ast, p, ("var", rng.choice([x for x in names if x != n[1]])))
    if what == "tag-swap":
        p, n = pick(lambda n: n[0] in ("tag", "variant"))
        if n is None:
            return None
        tg = rng.choice([x for x in TAGS + ["Zz"] if x != n[1]])
        return replace_at(ast, p, (n[0], tg) + n[2:])
    return None


def gen_mutant(rng, sigs, size):
    """A valid program with one mutation.  It must be rejected by the typechecker or stay safe."""
    for _ in range(30):
        base = gen_valid(rng, sigs, size)
        for what in rng.shuffle(MUTATIONS):
            ast = mutate(rng, base.ast, sigs, what)
            if ast is None or ast == base.ast:
                continue
            try:
                m = make_prog(ast, base.ty, "mutant:" + what, {f for f in base.features if ":" in f and not f.startswith(("op:", "u:", "ty:", "pat:"))})
            except (ValueError, KeyError):
                continue
            if m.src != base.src:
                return m
    return base


# ------------------------------------------------------------------------------------------ oracle

POS_RE = re.compile(r"pos=(\S+)")
LABEL_RE = re.compile(r"label=(\S+) pol=([+-])")
SPAN_RE = re.compile(r"^(\w+):(\d+)-(\d+)$")


def parse_span(s):
    m = SPAN_RE.match(s)
    return (m.group(1), int(m.group(2)), int(m.group(3))) if m else None


def region_of(prog, s, e):
    """'typed' / 'untyped' / 'outside' for a span of the program text (innermost region wins)."""
    best = None
    # on equal spans the hole wins: `let x : T = (u | T)` prints the bound expression and the hole
    # with the same extent, and the hole is the inner one
    for kind, regs in (("untyped", prog.untyped_regions), ("typed", prog.typed_regions)):
        for (a, b) in regs:
            if a <= s and e <= b:
                if best is None or (b - a) < best[0]:
                    best = (b - a, kind)
    if best is None:
        for kind, regs in (("untyped", prog.untyped_regions), ("typed", prog.typed_regions)):
            for (a, b) in regs:
                if a <= s < b:
                    if best is None or (b - a) < best[0]:
                        best = (b - a, kind)
    return best[1] if best else "outside"


def annot_kind(prog, s, e):
    def hit(spans):
        return any((a <= s and e <= b) or (s <= a and b <= e) for (a, b) in spans)
    if hit(prog.own_annots):
        return "own"
    if hit(prog.hole_annots):
        return "hole"
    return "unknown"


def text_label(src, s, e):
    """Operation label for hand-written programs (no AST): only match expressions are told apart."""
    t = src[s:e]
    if not t.startswith("match"):
        return "?"
    arms = re.split(r",\s*(?=[^,]*=>)", t[t.find("{") + 1:t.rfind("}")])
    pats = [a.split("=>")[0].strip() for a in arms if "=>" in a]
    default = bool(pats) and bool(re.match(r"^(_|[a-z][A-Za-z0-9_]*)$", pats[-1]))
    if any(re.search(r"\sif\s", p) for p in pats):
        if all(re.search(r"\sif\s", p) for p in pats):
            return "match-all-arms-guarded"
        return "match-guard" + ("" if default else "-no-default")
    if any(re.search(r"(^|\s)(-?\d|\"|true$|false$)", p) for p in pats):
        return "match-literal" + ("" if default else "-no-default")
    return "match-default" if default else "match-enum"


def node_at(prog, s, e):
    if not prog.nodes and prog.ast is None:
        return text_label(prog.src, s, e)
    best = None
    for (a, b, lab) in prog.nodes:
        if a <= s and e <= b and (best is None or b - a < best[0]):
            best = (b - a, lab)
    return best[1] if best else "?"


VALUE_DEPENDENT_MATCH = {"match-literal-no-default"}      # (a guarded arm that the typechecker counts as covering its enum case is a finding)


def classify(prog, line):
    """-> (verdict, detail); verdict in ok | rejected | allowed-error | untyped-origin | violation | crash.
    For a violation, detail is the stable key of the failure class."""
    if line.startswith("OK"):
        return "ok", ""
    m = re.match(r"ERR (\S+)", line)
    if not m:
        return "crash", "unreadable:" + line[:40]
    cls = m.group(1)
    if cls in ("Typecheck", "Parse"):
        return "rejected", cls
    if cls in ("Panic", "Crash"):
        return "crash", cls
    pm = POS_RE.search(line)
    spans = [parse_span(x) for x in pm.group(1).split(",")] if pm and pm.group(1) != "none" else []
    spans = [x for x in spans if x]
    lm = LABEL_RE.search(line)
    if cls.startswith("Blame") or cls == "TailAccess":
        lab = parse_span(lm.group(1)) if lm else None
        pol = lm.group(2) if lm else "?"
        if lab is None:
            where = "nolabel"
        elif lab[0] == "main":
            where = annot_kind(prog, lab[1], lab[2])
        else:
            where = lab[0]
        tag = "%s:label-%s%s" % (cls.rstrip("+-") if cls != "TailAccess" else cls, where, pol)
        if cls == "TailAccess":
            # a sealed polymorphic tail was accessed: legitimate only if the contract is a hole's
            if where == "hole":
                return "allowed-error", tag
            return "violation", tag
        if where == "own" and pol == "+":
            return "violation", tag
        if where == "hole" and pol == "-" and spans and spans[0][0] == "main" and region_of(prog, spans[0][1], spans[0][2]) == "typed":
            # the context of a hole broke the hole's contract and the offending value sits in typed code
            return "violation", "Blame-:hole-contract-broken-by-typed-code"
        if where == "unknown" and pol == "+":
            # an annotation that is neither a typed block's own nor a hole's.  Inside a typed region it is an
            # inner annotation that the typechecker verified (its failure is the typed code's); outside every
            # typed region it is untyped code's own contract failing on untyped code's value: not C01's matter
            if lab is not None and lab[0] == "main" and region_of(prog, lab[1], lab[2]) != "typed":
                return "allowed-error", tag + ":outside-typed-code"
            return "violation", tag
        return "allowed-error", tag
    if cls in BAD_CLASSES:
        if cls == "FieldMissing":
            om = re.search(r"\(([^()]*)\)\s*$", line)
            op = om.group(1) if om else ""
            if op in DICT_PRECOND_OPS:
                return "allowed-error", "FieldMissing:dict-precondition:" + op
        if not spans:
            return "violation", cls + ":no-position"
        f, s, e = spans[0]
        if f == "main":
            reg = region_of(prog, s, e)
            if reg == "typed":
                if cls == "UnboundId":
                    return "violation", "UnboundId:typed-code"
                where = node_at(prog, s, e)
                if cls == "NonExhaustive" and where in VALUE_DEPENDENT_MATCH:
                    # no arm matched although every enum case of the scrutinee's type has an arm: the
                    # failure depends on the *value* (a constant pattern or a guard), which types do not
                    # rule out (like an index out of bounds); counted, looked at, not a C01 violation
                    return "allowed-error", "NonExhaustive:value-dependent:" + where
                return "violation", "%s:%s" % (cls, where)
            return "untyped-origin", "%s:%s" % (cls, reg)
        if f == "std":
            return "violation", "%s:%s" % (cls, std_function_at(s))
        return "violation", "%s:%s" % (cls, f)
    return "allowed-error", cls


# ---- regions of hand-written corpus programs (no AST): `( e : T )` and `( u | T )` groups

def scan_regions(src):
    """Typed / untyped regions of a program text, from its parenthesised annotations `(e : T)` and
    `(u | T)` (written with spaces around the separator).  Outside of every such group the program
    is untyped.  `let x : T = e` annotations are recognised as such (not as group annotations) but
    give no region of their own: write hand-picked cases with parenthesised blocks."""
    typed, untyped, own, holes = [], [], [], []
    stack = []        # [open_token, offset, [(offset, char) of ' : ', ' | ', bare '=' directly inside the group]]
    braces = []
    instr_stack = []
    i, n = 0, len(src)
    instr = False
    while i < n:
        c = src[i]
        if instr:
            if c == "\\":
                i += 2
                continue
            if src.startswith("%{", i):
                stack.append(["%{", i, []])
                instr_stack.append(True)
                instr = False
                i += 2
                continue
            if c == '"':
                instr = False
            i += 1
            continue
        if c == '"':
            instr = True
        elif src.startswith("[|", i):
            stack.append(["[|", i, []])
            i += 2
            continue
        elif src.startswith("|]", i):
            if stack and stack[-1][0] == "[|":
                stack.pop()
            i += 2
            continue
        elif c in "([{":
            stack.append([c, i, []])
        elif c in ")]}":
            if stack:
                o, a, seps = stack.pop()
                if o == "{" and c == "}":
                    braces.append((a, i + 1, seps))
                if o == "%{":
                    instr = instr_stack.pop()
                elif o == "(" and c == ")" and seps and seps[-1][1] != "=":
                    sep, ch = seps[-1]
                    ts = sep + 1
                    while ts < i and src[ts] == " ":
                        ts += 1
                    if ch == ":":
                        typed.append((a, i + 1))
                        own.append((ts, i))
                    else:
                        untyped.append((a, i + 1))
                        holes.append((ts, i))
        elif stack and stack[-1][0] == "{":
            if c in ":|" and src[i - 1:i] == " " and src[i + 1:i + 2] == " ":
                stack[-1][2].append((i, c))
        elif stack and stack[-1][0] == "(":
            if c in ":|" and src[i - 1:i] == " " and src[i + 1:i + 2] == " ":
                stack[-1][2].append((i, c))
            elif c == "=" and src[i - 1:i] not in ("=", "<", ">", "!") and src[i + 1:i + 2] not in ("=", ">"):
                stack[-1][2].append((i, "="))
        i += 1
    # destructuring patterns: a brace group followed by `=>` or `=` (and the groups nested in one).  The
    # annotations of their fields are enforced as contracts on the matched value: blame for one of them is
    # blame of whoever supplied the value, like for the contract of a hole
    pats = [(a, b) for (a, b, _) in braces if re.match(r"\s*(=>|=(?![=>]))", src[b:])]
    for (a, b, seps) in braces:
        if any(pa <= a and b <= pb for (pa, pb) in pats):
            for (k, _) in seps:
                m = re.match(r"\s*[^,}?=]*", src[k + 1:b])
                holes.append((k + 1, k + 1 + (m.end() if m else 0)))
    return typed, untyped, own, holes


def corpus_prog(src):
    p = Prog()
    p.src = src
    p.kind = "corpus"
    p.typed_regions, p.untyped_regions, p.own_annots, p.hole_annots = scan_regions(src)
    p.size = len(src.split())
    p.features = {"corpus"}
    return p


def load_corpus():
    out = []
    for path in sorted(glob.glob(os.path.join(core.ROOT, "corpus", "C01", "*.case"))):
        expect = None
        key = None
        for line in open(path):
            line = line.rstrip("\n")
            m = re.match(r"^#!\s*expect\s+(\S+)", line)
            if m:               # `#! expect <verdict>` applies to the following lines (informational)
                expect = None if m.group(1) == "any" else m.group(1)
                key = None
            m = re.match(r"^#!\s*key\s+(\S+)", line)
            if m:               # `#! key <k>`: a violation on the following lines is reported under this stable key
                key = m.group(1)
            if not line.strip() or line.lstrip().startswith("#"):
                continue
            p = corpus_prog(line)
            p.expect = expect
            p.key_override = key
            out.append(p)
    return out


# ----------------------------------------------------------------------------------------- stream

def run_programs(exe, progs, timeout=1800):
    """One answer line per program.  A harness process that dies answers `ERR Crash` for the program
    it was working on (c01_sig.run_robust); a shard that hangs is re-run program by program."""
    import subprocess
    lines = ["ev,full\t" + S.esc(p.src) for p in progs]
    try:
        return S.run_robust(exe, lines, timeout=timeout)
    except subprocess.TimeoutExpired:
        out = []
        for l in lines:
            try:
                out += S.run_robust(exe, [l], timeout=120, shards=1)
            except subprocess.TimeoutExpired:
                out.append("ERR Crash -- harness did not answer within 120 s")
        return out


def shrink_candidates(ast):
    """Single-step simplifications: replace a node by one of its term children, drop an array
    element / record field / let.  Ill-typed candidates are harmless: the typechecker rejects them."""
    out = []
    for (path, n, _) in all_nodes(ast):
        if not path:
            continue
        for (_, c) in _children(n):
            out.append(replace_at(ast, path, c))
        k = n[0]
        if k == "arr" and n[1]:
            for i in range(len(n[1])):
                out.append(replace_at(ast, path, ("arr", n[1][:i] + n[1][i + 1:])))
        if k in ("num", "str", "bool"):
            continue
        for lit in (("num", 1), ("str", "a"), ("bool", True), ("arr", ())):
            out.append(replace_at(ast, path, lit))
    return out


def shrink(exe, prog, key, rounds=6, width=48):
    """Greedy: keep a smaller program as long as it is still a violation with the same key."""
    if prog.ast is None:
        return prog, None
    best, best_line = prog, None
    for _ in range(rounds):
        cands, seen = [], set()
        for a in shrink_candidates(best.ast):
            try:
                p = make_prog(a, best.ty, best.kind, best.features)
            except (ValueError, KeyError, TypeError):
                continue
            if p.size < best.size and p.src not in seen:
                seen.add(p.src)
                cands.append(p)
        cands.sort(key=lambda p: p.size)
        cands = cands[:width]
        if not cands:
            break
        outs = run_programs(exe, cands)
        nxt = None
        for p, line in zip(cands, outs):
            v, d = classify(p, line)
            if v == "violation" and d == key:
                nxt, best_line = p, line
                break
        if nxt is None:
            break
        best = nxt
    return best, best_line


def pick_size(rng, max_size):
    lo = min(5, max_size)
    if rng.chance(1, 5):
        return rng.range(lo, max(lo, max_size // 3))
    return rng.range(max(lo, max_size // 3), max_size)


def run_stream(ck, exe, n_valid, n_mutants, max_size, batch=2000, do_shrink=True):
    """Corpus first, then `n_valid` generated programs and `n_mutants` mutants; every answer of the
    real typechecker + interpreter is judged by `classify`.  Returns a summary dict."""
    sigs = std_signatures(exe)
    rng = core.SplitMix64(ck.seed * 1000003 + 1)
    t0 = time.time()
    summary = {"valid": 0, "valid_accepted": 0, "mutants": 0, "mutants_rejected": 0, "violations": 0, "parse_errors_valid": 0,
               "harness_s": 0.0, "programs": 0}
    todo = list(load_corpus())
    kinds_left = ["valid"] * n_valid + ["mutant"] * n_mutants
    pos = 0
    sampled = {"ok": 0, "rejected": 0, "allowed-error": 0, "untyped-origin": 0, "mutant-accepted": 0}
    while todo or pos < len(kinds_left):
        while len(todo) < batch and pos < len(kinds_left):
            size = pick_size(rng, max_size)
            if kinds_left[pos] == "valid":
                p = gen_valid(rng, sigs, size)
            else:
                p = gen_mutant(rng, sigs, size)
            todo.append(p)
            pos += 1
        progs, todo = todo[:batch], todo[batch:]
        th = time.time()
        outs = run_programs(exe, progs)
        summary["harness_s"] += time.time() - th
        for p, line in zip(progs, outs):
            verdict, detail = classify(p, line)
            stream = "mutant" if p.kind.startswith("mutant") else p.kind
            summary["programs"] += 1
            ck.case(key=p.src, nontrivial=(verdict != "rejected" and p.size >= 3))
            ck.hist("c01gen_verdict:" + stream, verdict)
            cls = "OK" if line.startswith("OK") else (re.match(r"ERR (\S+)", line) or [None, "?"])[1]
            ck.hist("c01gen_outcome_class:" + stream, cls)
            if verdict in ("allowed-error", "untyped-origin", "violation"):
                ck.hist("c01gen_detail:" + verdict, detail)
            ck.hist("c01gen_size", "%d-%d" % (p.size // 10 * 10, p.size // 10 * 10 + 9))
            if stream == "corpus" and p.expect is not None:
                good = verdict == p.expect
                ck.hist("c01gen_corpus_expectation", "as expected" if good else "differs: expected %s, got %s" % (p.expect, verdict))
                if not good:
                    ck.sample("corpus program no longer %s but %s %s: %s => %s" % (p.expect, verdict, detail, p.src[:400], line[:160]), limit=40)
            if stream != "corpus":
                for f in p.features:
                    ck.hist("c01gen_constructs:" + stream, f)
                for f in p.std_used:
                    ck.hist("c01gen_stdlib", f)
            if stream == "valid":
                summary["valid"] += 1
                if verdict != "rejected":
                    summary["valid_accepted"] += 1
                else:
                    ck.hist("c01gen_valid_rejected", detail)
                    if detail == "Parse":
                        summary["parse_errors_valid"] += 1
                        ck.sample("GENERATOR BUG (parse error in the valid stream): %s => %s" % (p.src, line[:200]), limit=40)
                    elif sampled["rejected"] < 3:
                        sampled["rejected"] += 1
                        ck.sample("valid stream, rejected by the typechecker: %s => %s" % (p.src[:600], line[:160]), limit=40)
            elif stream == "mutant":
                summary["mutants"] += 1
                what = p.kind.split(":", 1)[1]
                ck.hist("c01gen_mutation_kinds", what)
                if verdict == "rejected":
                    summary["mutants_rejected"] += 1
                    ck.hist("c01gen_mutants_rejected_by_kind", what)
                    if detail == "Parse":
                        ck.sample("GENERATOR BUG (parse error in a mutant): %s => %s" % (p.src, line[:200]), limit=40)
                else:
                    ck.hist("c01gen_mutants_accepted_by_kind", what + ":" + verdict)
                    if sampled["mutant-accepted"] < 2:
                        sampled["mutant-accepted"] += 1
                        ck.sample("mutant (%s) accepted, %s: %s => %s" % (what, verdict, p.src[:600], line[:160]), limit=40)
            if verdict in sampled and sampled[verdict] < 2 and stream == "valid" and verdict != "rejected":
                sampled[verdict] += 1
                ck.sample("valid stream, %s %s: %s => %s" % (verdict, detail, p.src[:600], line[:160]), limit=40)
            if verdict == "crash":
                ck.hist("crash_or_panic", detail + ":" + stream)
                ck.sample("crash/panic (%s): %s => %s" % (stream, p.src[:800], line[:200]), limit=40)
            if verdict == "violation":
                summary["violations"] += 1
                key = getattr(p, "key_override", None) or detail
                ck.hist("c01gen_violation_keys", key)
                small, small_line = (p, None)
                if do_shrink and key not in summary.setdefault("reported_keys", set()):
                    try:
                        small, small_line = shrink(exe, p, key)
                    except Exception as ex:     # shrinking is best effort
                        ck.log("shrink failed:", repr(ex))
                summary.setdefault("reported_keys", set()).add(key)
                src = small.src if small_line else p.src
                text = "a program accepted by the typechecker raises %s in statically typed code (%s stream): %s => %s" % (
                    key, p.kind, src[:300], (small_line or line)[:200])
                ck.violation(key, text, {
                    "program": src, "impl_outcome": small_line or line,
                    "original_program": p.src, "original_outcome": line, "stream": p.kind,
                    "expected": "rejected by the typechecker, or no TypeErr/NotAFunc/FieldMissing/NonExhaustive/UnboundId/"
                                "TailAccess with a position inside a typed region and no positive blame on the block's own annotation",
                    "regions": (small if small_line else p).regions(),
                    "how_to_replay": "printf 'ev,full\\t%s\\n' '<program>' | .build/target/debug/c01"})
    summary["wall_s"] = round(time.time() - t0, 1)
    summary["harness_s"] = round(summary["harness_s"], 1)
    if summary["valid"]:
        rate = 100.0 * summary["valid_accepted"] / summary["valid"]
        ck.hist("c01gen_rates", "valid accepted %%: %.1f" % rate)
        summary["valid_accept_rate"] = round(rate, 1)
    if summary["mutants"]:
        rate = 100.0 * summary["mutants_rejected"] / summary["mutants"]
        ck.hist("c01gen_rates", "mutants rejected %%: %.1f" % rate)
        summary["mutant_reject_rate"] = round(rate, 1)
    if summary["programs"]:
        summary["ms_per_program_harness_wall"] = round(1000.0 * summary["harness_s"] / summary["programs"], 1)
    summary["reported_keys"] = sorted(summary.get("reported_keys", ()))
    ck.coverage["c01gen"] = dict(summary)
    ck.log("c01 generator: %s" % summary)
    return summary


# ------------------------------------------------------------------------------ standalone driver

class FakeCk:
    """The few methods of core.Check that run_stream uses, printing instead of writing evidence."""

    def __init__(self, seed):
        self.seed = seed
        self.stats = {}
        self.samples = []
        self.violations = []
        self.coverage = {}
        self.evaluations = 0
        self.distinct = set()
        self.t0 = time.time()

    def log(self, *a):
        print("[c01gen %6.1fs]" % (time.time() - self.t0), *a, flush=True)

    def case(self, key=None, nontrivial=True):
        self.evaluations += 1
        if nontrivial and key is not None:
            self.distinct.add(hash(key))

    def hist(self, name, key, n=1):
        h = self.stats.setdefault(name, {})
        h[str(key)] = h.get(str(key), 0) + n

    def sample(self, s, limit=8):
        if len(self.samples) < limit:
            self.samples.append(s)

    def violation(self, key, text, replay_obj, no_input=False):
        if key not in [v[0] for v in self.violations]:
            self.violations.append((key, text, replay_obj))

    def obligation(self, name, kind, ok, detail=""):
        print("OBLIGATION", name, kind, ok, detail[:300])
        return ok


def self_test(exe=None):
    """Does the oracle have teeth?  Fabricated answer lines and (if exe is given) programs known to
    misbehave must be classified as violations, legitimate ones must not.  Returns failures."""
    fails = []
    p = corpus_prog('((let f = fun x => x + 1 in ((f "a") | Number)) : Number)')
    own = "main:%d-%d" % p.own_annots[0]
    hole = "main:%d-%d" % p.hole_annots[0]
    fab = [
        ("ERR TypeErr pos=main:19-24,main:19-20,main:32-35 -- (+) expects Number as argument 1", "violation"),
        ("ERR TypeErr pos=main:30-35,main:32-35 -- string/length expects String", "untyped-origin"),
        ("ERR NotAFunc pos=std:3373-3388 -- not a function", "violation"),
        ("ERR TypeErr pos=internals:10-20 -- x", "violation"),
        ("ERR Blame+ pos=main:2-5 label=%s pol=+ path=0 argpos=main:2-5 -- type=Number diag=[]" % own, "violation"),
        ("ERR Blame- pos=main:2-5 label=%s pol=- path=0 argpos=main:2-5 -- type=Number diag=[]" % own, "allowed-error"),
        ("ERR Blame+ pos=main:30-35 label=%s pol=+ path=0 argpos=main:30-35 -- type=Number diag=[]" % hole, "allowed-error"),
        ("ERR Blame- pos=main:10-12 label=%s pol=- path=1 argpos=main:10-12 -- type=Number -> Number diag=[]" % hole, "violation"),
        ("ERR Blame- pos=internals:2510-2511 label=std:3373-3388 pol=- path=1 argpos=internals:2510-2511 -- type=NonEmpty -> Dyn diag=[]", "allowed-error"),
        ("ERR TailAccess pos=main:10-12 label=%s pol=+ path=1 argpos=main:10-12 -- polymorphic tail access" % own, "violation"),
        ("ERR TailAccess pos=main:30-32 label=%s pol=+ path=1 argpos=main:30-32 -- polymorphic tail access" % hole, "allowed-error"),
        ("ERR FieldMissing pos=main:2-20,main:3-10 -- field b ((.))", "violation"),
        ("ERR FieldMissing pos=main:2-20,main:3-10 -- field b (record/get)", "allowed-error"),
        ("ERR NonExhaustive pos=main:5-20 -- non exhaustive", "violation"),
        ("ERR UnboundId pos=main:5-8 -- unbound x", "violation"),
        ("ERR DivByZero pos=main:1-6 -- division by zero", "allowed-error"),
        ("ERR Budget pos=internals:2377-2523 -- verif: step budget exhausted", "allowed-error"),
        ("ERR Typecheck -- TypecheckErrorData", "rejected"),
        ("ERR Panic -- boom", "crash"),
        ("OK #1", "ok"),
    ]
    for line, want in fab:
        got = classify(p, line)
        if got[0] != want:
            fails.append("fabricated %r: expected %s, got %s" % (line[:70], want, got))
    if exe:
        real = [
            # the untyped context calls a typed closure with a wrong argument (known separate issue):
            # must be *seen* by the oracle, which is why the generator never produces it
            ('((let f = fun x => x + 1 in ((f "a") | Number)) : Number)', "violation"),
            ('([10 |> match { 1 => 0 }] : Array Number)', "violation"),
            ("((let v : [| 'A Number, 'B |] = 'A 0 in v |> match { 'A x if x > 0 => x, 'B => 0 }) : Number)", "violation"),
            ('(("a" | Number) + 1 : Number)', "allowed-error"),
            ('((1 + "a" | Number) : Number)', "untyped-origin"),
            ('(%string/length% (1 | Dyn) : Number)', "rejected"),
            ('(std.array.first [] : Number)', "allowed-error"),
            ('((let d : {_ : Number} = {a = 1} in d."%{"b"}") : Number)', "allowed-error"),
            ('((1 + 1) : Number)', "ok"),
        ]
        progs = [corpus_prog(s) for s, _ in real]
        for pr, (src, want), line in zip(progs, real, run_programs(exe, progs)):
            got = classify(pr, line)
            if got[0] != want:
                fails.append("program %r => %r: expected %s, got %s" % (src, line[:100], want, got))
    return fails


def main(argv):
    if len(argv) > 1 and argv[1] == "--selftest":
        fails = self_test(core.harness_bin("c01"))
        print("\n".join(fails) if fails else "oracle self test: ok")
        return 1 if fails else 0
    n = int(argv[1]) if len(argv) > 1 else 300
    seed = int(argv[2]) if len(argv) > 2 else 1
    max_size = int(argv[3]) if len(argv) > 3 else 40
    exe = core.harness_bin("c01")
    ck = FakeCk(seed)
    summary = run_stream(ck, exe, n, n // 2, max_size)
    for name in sorted(ck.stats):
        h = ck.stats[name]
        print("== %s" % name)
        for k, v in sorted(h.items(), key=lambda kv: (-kv[1], kv[0]))[:250]:
            print("   %6d  %s" % (v, k))
    print("== samples")
    for s in ck.samples:
        print("   " + s)
    print("== violations (%d distinct keys)" % len(ck.violations))
    for key, text, obj in ck.violations:
        print("   KEY %s\n      program: %s\n      outcome: %s\n      original: %s\n      regions: %s" % (
            key, obj["program"], obj["impl_outcome"][:300], obj["original_program"][:1500], obj["regions"]))
    print("== summary", summary)
    return 0


if __name__ == "__main__":
    sys.exit(main(sys.argv))
