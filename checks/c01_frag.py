"""C01 — generator of programs *inside the fragment of the Coq theorem* (coq/Types/Syntax.v).

Every program is generated type-directed as an AST whose nodes carry their intended type; it is
printed (1) as Nickel source, recording the byte span of every node, (2) as the s-expression of the
model term read by the extracted evaluator (ocaml/c01/driver.ml), (3) as a *certificate*: the
annotated term of coq/Types/Checker.v, validated by the extracted `check_deriv`.  The types the
real typechecker resolves for the nodes (harness `tc` mode) are compared with the certificate's.

Fragment: Number/String/Bool, arrays, functions, let (plain, annotated, polymorphic annotated),
if, closed records + projection, enum tags + match (exhaustive or with a wildcard arm), the
primitives of Types/Syntax.v (+ - * / < <= > >= ! ++ @ == std.string.length std.array.length
std.array.at std.array.map, && || as if), inner annotations (e : T), and *closed* holes of untyped
code behind a first-order contract ((u | T)), some of them deliberately ill-kinded or failing.

Types are tuples: ("num",) ("str",) ("bool",) ("dyn",) ("arr", T) ("fun", A, B)
("rec", ((f, T), ...)) with fields sorted, ("enum", (tag, ...)) sorted, ("tvar", i) de Bruijn.
"""
from vlib import core

NUM, STR, BOOL, DYN = ("num",), ("str",), ("bool",), ("dyn",)
FIELDS = ["fa", "fb", "fc", "fd"]
TAGS = ["A", "B", "C", "D"]
WORDS = ["", "a", "bc", "nickel", "x y"]


def ty_src(t):
    k = t[0]
    if k == "num":
        return "Number"
    if k == "str":
        return "String"
    if k == "bool":
        return "Bool"
    if k == "dyn":
        return "Dyn"
    if k == "arr":
        return "Array (%s)" % ty_src(t[1])
    if k == "fun":
        return "(%s) -> (%s)" % (ty_src(t[1]), ty_src(t[2]))
    if k == "rec":
        return "{%s}" % ", ".join("%s : %s" % (f, ty_src(u)) for f, u in t[1])
    if k == "enum":
        return "[| %s |]" % ", ".join(("'" + x) if u is None else "'%s (%s)" % (x, ty_src(u)) for x, u in t[1])
    if k == "dict":
        return "{_ : %s}" % ty_src(t[1])
    raise ValueError(t)


def ty_sexp(t):
    k = t[0]
    if k in ("num", "str", "bool", "dyn"):
        return k
    if k == "arr":
        return "(arr %s)" % ty_sexp(t[1])
    if k == "fun":
        return "(fun %s %s)" % (ty_sexp(t[1]), ty_sexp(t[2]))
    if k == "rec":
        tail = [" (rvar %d)" % t[2][1]] if len(t) > 2 else []
        return "(rec %s)" % (" ".join('("%s" %s)' % (f, ty_sexp(u)) for f, u in t[1]) + "".join(tail)).strip()
    if k == "enum":
        return "(enum %s)" % erows_sexp(t[1])
    if k == "dict":
        return "(dict %s)" % ty_sexp(t[1])
    if k == "tvar":
        return "(tvar %d)" % t[1]
    if k == "forall":
        return "(forall %s)" % ty_sexp(t[1])
    if k == "forallr":
        return "(forallr %s)" % ty_sexp(t[1])
    raise ValueError(t)


def erows_sexp(rows):
    return " ".join(('"%s"' % x) if u is None else '("%s" %s)' % (x, ty_sexp(u)) for x, u in rows)


def bare(*tags):
    return ("enum", tuple((t, None) for t in sorted(tags)))


def first_order(t):
    k = t[0]
    if k in ("num", "str", "bool", "dyn"):
        return True
    if k == "enum":
        return all(u is None or first_order(u) for _, u in t[1])
    if k in ("arr", "dict"):
        return first_order(t[1])
    if k == "rec":
        return all(first_order(u) for _, u in t[1])
    return False


def sstr(s):
    return '"' + s.replace("\\", "\\\\").replace('"', '\\"') + '"'


class N:
    """AST node: kind k, children/attributes a, intended type ty (None in untyped code)."""
    __slots__ = ("k", "a", "ty", "span", "x")

    def __init__(self, k, a, ty=None, x=None):
        self.k, self.a, self.ty, self.x, self.span = k, a, ty, x, None


# infix primitives: source operator, model primitive name
INFIX = {"add": "+", "sub": "-", "mul": "*", "div": "/", "lt": "<", "le": "<=", "gt": ">", "ge": ">=",
         "concat": "++", "arrcat": "@", "eq": "=="}
STDFN = {"strlen": "std.string.length", "arrlen": "std.array.length", "arrat": "std.array.at", "arrmap": "std.array.map",
         "recfields": "std.record.fields", "recvalues": "std.record.values", "rechas": "std.record.has_field",
         "recget": "std.record.get"}

TV0, TV1 = ("tvar", 0), ("tvar", 1)
RV0 = ("rvar", 0)
AA = "aa"          # the field the row-polymorphic helpers look at: sorts before every generated field name
# polymorphic helpers bound at the top of (some) programs:
#   name -> (number of quantifiers, annotation source, body builder[, kinds of the quantifiers, outermost first:
#            "t" type variable / "r" record-row variable])
POLY = {
    "pgetx": (1, "forall r. {aa : Number; r} -> Number",
              lambda: N("lam", ["p", N("proj", [N("var", ["p"], ("rec", ((AA, NUM),), RV0)), AA], NUM)],
                        ("fun", ("rec", ((AA, NUM),), RV0), NUM)), ["r"]),
    "pidrow": (1, "forall r. {aa : Number; r} -> {aa : Number; r}",
               lambda: N("lam", ["p", N("var", ["p"], ("rec", ((AA, NUM),), RV0))],
                         ("fun", ("rec", ((AA, NUM),), RV0), ("rec", ((AA, NUM),), RV0))), ["r"]),
    "pgetxa": (2, "forall a r. {aa : a; r} -> a",
               lambda: N("lam", ["p", N("proj", [N("var", ["p"], ("rec", ((AA, TV0),), RV0)), AA], TV0)],
                         ("fun", ("rec", ((AA, TV0),), RV0), TV0)), ["t", "r"]),
    "pid": (1, "forall a. a -> a",
            lambda: N("lam", ["x", N("var", ["x"], TV0)], ("fun", TV0, TV0))),
    "pconst": (2, "forall a b. a -> b -> a",
               lambda: N("lam", ["x", N("lam", ["y", N("var", ["x"], TV1)], ("fun", TV0, TV1))],
                         ("fun", TV1, ("fun", TV0, TV1)))),
    "ptwice": (1, "forall a. (a -> a) -> a -> a",
               lambda: N("lam", ["f", N("lam", ["x",
                         N("app", [N("var", ["f"], ("fun", TV0, TV0)),
                                   N("app", [N("var", ["f"], ("fun", TV0, TV0)), N("var", ["x"], TV0)], TV0)], TV0)],
                         ("fun", TV0, TV0))], ("fun", ("fun", TV0, TV0), ("fun", TV0, TV0)))),
    "pmap": (2, "forall a b. (a -> b) -> Array a -> Array b",
             lambda: N("lam", ["f", N("lam", ["xs",
                       N("prim2", ["arrmap", N("var", ["f"], ("fun", TV1, TV0)), N("var", ["xs"], ("arr", TV1))],
                         ("arr", TV0), x=[TV1, TV0])], ("fun", ("arr", TV1), ("arr", TV0)))],
                       ("fun", ("fun", TV1, TV0), ("fun", ("arr", TV1), ("arr", TV0))))),
}


class Frag:
    def __init__(self, rng, holes=True):
        self.rng = rng
        self.n = 0
        self.holes = holes
        self.features = set()
        self.bad_holes = 0
        self.err_sources = 0
        self.polys = []

    def fresh(self, p="x"):
        self.n += 1
        return "%s%d" % (p, self.n)

    # ------------------------------------------------------------------ types
    def gen_type(self, depth=2, fun_ok=True):
        r = self.rng
        opts = [(NUM, 5), (STR, 3), (BOOL, 3)]
        if depth > 0:
            opts += [("arr", 3), ("rec", 3), ("enum", 2), ("dict", 1)]
            if fun_ok:
                opts += [("fun", 2)]
        c = r.weighted(opts)
        if c == "arr":
            return ("arr", self.gen_type(depth - 1, fun_ok))
        if c == "dict":
            return ("dict", self.gen_type(depth - 1, fun_ok))
        if c == "rec":
            n = r.range(1, 3)
            fs = sorted(r.shuffle(FIELDS)[:n])
            rows = tuple((f, self.gen_type(depth - 1, fun_ok)) for f in fs)
            if r.chance(1, 5):
                rows = ((AA, NUM),) + rows[:2]
            return ("rec", rows)
        if c == "enum":
            n = r.range(1, 3)
            return ("enum", tuple((t, self.gen_type(depth - 1, fun_ok) if r.chance(1, 3) else None)
                                  for t in sorted(r.shuffle(TAGS)[:n])))
        if c == "fun":
            return ("fun", self.gen_type(depth - 1, False), self.gen_type(depth - 1, fun_ok))
        return c

    # ------------------------------------------------------------------ typed terms
    def lit(self, T, ctx, size):
        r = self.rng
        k = T[0]
        if k == "num":
            c = r.below(10)
            if c < 7:
                return N("num", [r.range(0, 9), 1], T)
            if c < 9:
                return N("num", [-r.range(1, 40), 1], T)
            p, q = r.choice([(1, 2), (3, 2), (5, 4), (1, 10)])
            return N("num", [p, q], T)
        if k == "str":
            return N("str", [r.choice(WORDS)], T)
        if k == "bool":
            return N("bool", [r.chance(1, 2)], T)
        if k == "arr":
            n = r.range(0, 3)
            return N("arr", [[self.gen(ctx, T[1], max(1, size // (n + 1))) for _ in range(n)]], T)
        if k == "rec":
            return N("rec", [[(f, self.gen(ctx, u, max(1, size // (len(T[1]) + 1)))) for f, u in T[1]]], T)
        if k == "enum":
            t, u = r.choice(T[1])
            if u is None:
                return N("tag", [t], T)
            self.features.add("variant")
            return N("variant", [t, self.gen(ctx, u, max(1, size - 1))], T)
        if k == "dict":
            # a record literal (whose own type is a record type) used where a dictionary is expected
            fs = sorted(r.shuffle(FIELDS)[:r.range(0, 3)])
            R = ("rec", tuple((f, T[1]) for f in fs))
            self.features.add("record<:dict (literal)")
            lit = N("sub", [N("rec", [[(f, self.gen(ctx, T[1], max(1, size // (len(fs) + 1)))) for f in fs]], R)], T)
            # mostly in a checking position (under an annotation); a bare literal in an inference position
            # gets its record type from the typechecker and may be rejected (e.g. as an if-branch)
            return N("annt", [lit], T) if r.chance(4, 5) else lit
        if k == "fun":
            x = self.fresh()
            self.features.add("lambda")
            return N("lam", [x, self.gen(ctx + [(x, T[1])], T[2], size - 1)], T)
        raise ValueError(T)

    def vars_of(self, ctx, T):
        return [x for (x, U) in ctx if U == T]

    def gen(self, ctx, T, size):
        r = self.rng
        vs = self.vars_of(ctx, T)
        if size <= 1:
            if vs and r.chance(2, 3):
                return N("var", [r.choice(vs)], T)
            return self.lit(T, ctx, 1)
        k = T[0]
        prods = [("lit", 3), ("if", 2), ("let", 2), ("app", 2), ("annt", 1)]
        if vs:
            prods.append(("var", 3))
        if self.holes and first_order(T):
            prods.append(("hole", 2))
        if k == "num":
            prods += [("arith", 4), ("strlen", 1), ("arrlen", 1)]
        if k == "bool":
            prods += [("cmp", 3), ("eq", 2), ("not", 1), ("andor", 2)]
        if k == "str":
            prods += [("concat", 3)]
        if k == "arr":
            prods += [("arrcat", 2), ("map", 3)]
        prods += [("proj", 2), ("match", 3), ("at", 1), ("recget", 1), ("rowinfer", 2), ("ormatch", 2)]
        if k == "dict":
            subvars = [x for (x, U) in ctx if U[0] == "rec" and U[1] and all(u == T[1] for _, u in U[1])]
            if subvars:
                prods.append(("subvar", 6))
            prods.append(("sublet", 2))
        if k == "arr" and T[1][0] == "dict":
            prods.append(("subarr", 3))
        if k == "arr" and T[1] == STR:
            prods.append(("recfields", 2))
        if k == "arr":
            prods.append(("recvalues", 2))
        if k == "bool":
            prods.append(("rechas", 1))
        if self.polys:
            prods.append(("poly", 3))
        p = r.weighted(prods)
        h = max(1, size // 2)
        if p == "var":
            return N("var", [r.choice(vs)], T)
        if p == "lit":
            return self.lit(T, ctx, size)
        if p == "if":
            self.features.add("if")
            return N("if", [self.gen(ctx, BOOL, h), self.gen(ctx, T, h), self.gen(ctx, T, h)], T)
        if p == "let":
            U = self.gen_type(1)
            x = self.fresh()
            e = self.gen(ctx, U, h)
            b = self.gen(ctx + [(x, U)], T, h)
            ann = r.chance(1, 3)
            self.features.add("let-annotated" if ann else "let")
            return N("let", [x, U if ann else None, e, b], T)
        if p == "app":
            fs = [(x, U) for (x, U) in ctx if U[0] == "fun" and U[2] == T]
            if fs and r.chance(2, 3):
                f, U = r.choice(fs)
                self.features.add("app-var")
                return N("app", [N("var", [f], U), self.gen(ctx, U[1], h)], T)
            A = self.gen_type(1, False)
            f = self.lit(("fun", A, T), ctx, h)
            self.features.add("app-lambda")
            return N("app", [f, self.gen(ctx, A, h)], T)
        if p == "annt":
            self.features.add("inner-annotation")
            return N("annt", [self.gen(ctx, T, size - 1)], T)
        if p == "hole":
            return self.hole(T, size)
        if p == "arith":
            nm = r.weighted([("add", 4), ("sub", 3), ("mul", 3), ("div", 1)])
            if nm == "div":
                self.err_sources += 1
            self.features.add("arith" + INFIX[nm])
            return N("prim2", [nm, self.gen(ctx, NUM, h), self.gen(ctx, NUM, h)], T, x=[])
        if p == "strlen":
            self.features.add("std.string.length")
            return N("prim1", ["strlen", self.gen(ctx, STR, size - 1)], T, x=[])
        if p == "arrlen":
            U = self.gen_type(1)
            self.features.add("std.array.length")
            return N("prim1", ["arrlen", self.gen(ctx, ("arr", U), size - 1)], T, x=[U])
        if p == "cmp":
            nm = r.choice(["lt", "le", "gt", "ge"])
            self.features.add("compare")
            return N("prim2", [nm, self.gen(ctx, NUM, h), self.gen(ctx, NUM, h)], T, x=[])
        if p == "eq":
            U = r.choice([NUM, STR, BOOL, bare("A", "B")])
            self.features.add("==")
            return N("prim2", ["eq", self.gen(ctx, U, h), self.gen(ctx, U, h)], T, x=[U, U])
        if p == "not":
            self.features.add("!")
            return N("prim1", ["not", self.gen(ctx, BOOL, size - 1)], T, x=[])
        if p == "andor":
            self.features.add("&&||")
            return N(r.choice(["and", "or"]), [self.gen(ctx, BOOL, h), self.gen(ctx, BOOL, h)], T)
        if p == "concat":
            self.features.add("++")
            return N("prim2", ["concat", self.gen(ctx, STR, h), self.gen(ctx, STR, h)], T, x=[])
        if p == "arrcat":
            self.features.add("@")
            return N("prim2", ["arrcat", self.gen(ctx, T, h), self.gen(ctx, T, h)], T, x=[T[1]])
        if p == "map":
            A = self.gen_type(1, False)
            self.features.add("std.array.map")
            return N("prim2", ["arrmap", self.gen(ctx, ("fun", A, T[1]), h), self.gen(ctx, ("arr", A), h)], T, x=[A, T[1]])
        if p == "proj":
            others = [(f, self.gen_type(1)) for f in r.shuffle(FIELDS)[:r.range(0, 2)]]
            f = r.choice([g for g in FIELDS if g not in [o[0] for o in others]])
            R = ("rec", tuple(sorted(others + [(f, T)])))
            self.features.add("projection")
            return N("proj", [self.gen(ctx, R, size - 1), f], T)
        if p == "match":
            n = r.range(1, 3)
            tags = sorted(r.shuffle(TAGS)[:n])
            rows = []
            for t in tags:
                # payload types are often shared, so that alternatives can be grouped in an or-pattern
                if rows and rows[-1][1] is not None and r.chance(1, 2):
                    rows.append((t, rows[-1][1]))
                else:
                    rows.append((t, self.gen_type(1, False) if r.chance(2, 5) else None))
            rows = tuple(rows)
            s = self.gen(ctx, ("enum", rows), h)
            default = r.chance(1, 3)
            arms = list(rows)
            if default and len(arms) > 1:
                arms = arms[:-1]
            # group neighbouring rows of the same shape in an or-pattern `('A x) or ('B x) => ..` / `'A or 'B => ..`
            groups = []
            for t, u in arms:
                if groups and groups[-1][1] == u and r.chance(1, 2):
                    groups[-1] = (groups[-1][0] + (t,), u)
                else:
                    groups.append(((t,), u))
            bs = []
            for ts, u in groups:
                key = ts[0] if len(ts) == 1 else ts
                if len(ts) > 1:
                    self.features.add("or-pattern")
                if u is None:
                    bs.append((key, None, self.gen(ctx, T, max(1, h // len(rows)))))
                else:
                    x = self.fresh()
                    self.features.add("match-variant-binder")
                    if u == T and r.chance(1, 2):
                        body = self.consume(ctx, N("var", [x], u), T, max(1, h // len(rows)))
                    else:
                        body = self.gen(ctx + [(x, u)], T, max(1, h // len(rows)))
                    bs.append((key, x, body))
            d = self.gen(ctx, T, max(1, h // len(rows))) if default else None
            self.features.add("match-default" if default else "match")
            return N("match", [s, bs, d], T)
        if p == "rowinfer":
            return self.rowinfer(ctx, T, size)
        if p == "ormatch":
            # a match whose first arm is an or-pattern binding one variable under two or three different tags;
            # the body uses the variable at its type
            U = T if (first_order(T) and T[0] not in ("dyn",) and r.chance(2, 3)) else self.gen_type(1, False)
            tags = sorted(r.shuffle(TAGS)[:r.range(2, 3)])
            extra = [t for t in TAGS if t not in tags][:r.range(0, 1)]
            rows = tuple(sorted([(t, U) for t in tags] + [(t, None) for t in extra]))
            s0 = self.gen(ctx, ("enum", rows), h)
            x = self.fresh()
            body = self.consume(ctx + [(x, U)], N("var", [x], U), T, h) if U == T else self.gen(ctx + [(x, U)], T, h)
            bs = [(tuple(tags), x, body)] + [(t, None, self.gen(ctx, T, max(1, h // 2))) for t in extra]
            self.features.add("or-pattern")
            self.features.add("match-variant-binder")
            return N("match", [s0, bs, None], T)
        if p == "subvar":
            x = r.choice(subvars)
            self.features.add("record<:dict (variable)")
            return N("sub", [N("var", [x], dict(ctx)[x])], T)
        if p == "sublet":
            # let x = {..record..} in x   used at the dictionary type: subsumption at a variable
            fs = sorted(r.shuffle(FIELDS)[:r.range(1, 3)])
            R = ("rec", tuple((f, T[1]) for f in fs))
            x = self.fresh()
            e = self.gen(ctx, R, h)
            self.features.add("record<:dict (variable)")
            return N("let", [x, R if r.chance(1, 2) else None, e, N("sub", [N("var", [x], R)], T)], T)
        if p == "subarr":
            fs = sorted(r.shuffle(FIELDS)[:r.range(1, 2)])
            R = ("rec", tuple((f, T[1][1]) for f in fs))
            x = self.fresh()
            e = self.gen(ctx, ("arr", R), h)
            self.features.add("Array record<:Array dict")
            return N("let", [x, None, e, N("sub", [N("var", [x], ("arr", R))], T)], T)
        if p == "recfields":
            U = self.gen_type(1, False)
            self.features.add("std.record.fields")
            return N("prim1", ["recfields", self.gen(ctx, ("dict", U), size - 1)], T, x=[U])
        if p == "recvalues":
            self.features.add("std.record.values")
            return N("prim1", ["recvalues", self.gen(ctx, ("dict", T[1]), size - 1)], T, x=[T[1]])
        if p == "rechas":
            U = self.gen_type(1, False)
            self.features.add("std.record.has_field")
            return N("prim2", ["rechas", N("str", [r.choice(FIELDS)], STR), self.gen(ctx, ("dict", U), h)], T, x=[U])
        if p == "recget":
            self.err_sources += 1
            self.features.add("std.record.get")
            return N("prim2", ["recget", N("str", [r.choice(FIELDS)], STR), self.gen(ctx, ("dict", T), h)], T, x=[T])
        if p == "at":
            self.err_sources += 1
            self.features.add("std.array.at")
            return N("prim2", ["arrat", N("num", [r.range(0, 3), 1], NUM), self.gen(ctx, ("arr", T), h)], T, x=[T])
        if p == "poly":
            name = r.choice(self.polys)
            if name in ("pgetx", "pidrow", "pgetxa"):
                others = tuple(sorted((f, self.gen_type(1, False)) for f in r.shuffle(FIELDS)[:r.range(0, 2)]))
                self.features.add("row-poly:" + name)
                if name == "pgetx" and k == "num":
                    R = ("rec", ((AA, NUM),) + others)
                    f = N("var", ["pgetx"], ("fun", R, NUM), x=[("rows", others)])
                    return N("app", [f, self.gen(ctx, R, size - 1)], T)
                if name == "pidrow" and k == "rec" and T[1] and T[1][0] == (AA, NUM):
                    f = N("var", ["pidrow"], ("fun", T, T), x=[("rows", T[1][1:])])
                    return N("app", [f, self.gen(ctx, T, size - 1)], T)
                if name == "pgetxa" or k != "num":
                    if "pgetxa" not in self.polys:
                        return self.lit(T, ctx, size)
                    R = ("rec", ((AA, T),) + others)
                    f = N("var", ["pgetxa"], ("fun", R, T), x=[T, ("rows", others)])
                    return N("app", [f, self.gen(ctx, R, size - 1)], T)
                return self.lit(T, ctx, size)
            if name == "pmap" and k != "arr":
                name = "pid" if "pid" in self.polys else None
                if name is None:
                    return self.lit(T, ctx, size)
            self.features.add("poly:" + name)
            if name == "pid":
                return N("app", [N("var", ["pid"], ("fun", T, T), x=[T]), self.gen(ctx, T, size - 1)], T)
            if name == "pconst":
                U = self.gen_type(1)
                f = N("var", ["pconst"], ("fun", T, ("fun", U, T)), x=[T, U])
                return N("app", [N("app", [f, self.gen(ctx, T, h)], ("fun", U, T)), self.gen(ctx, U, h)], T)
            if name == "ptwice":
                f = N("var", ["ptwice"], ("fun", ("fun", T, T), ("fun", T, T)), x=[T])
                return N("app", [N("app", [f, self.gen(ctx, ("fun", T, T), h)], ("fun", T, T)), self.gen(ctx, T, h)], T)
            if name == "pmap":
                A = self.gen_type(1, False)
                f = N("var", ["pmap"], ("fun", ("fun", A, T[1]), ("fun", ("arr", A), T)), x=[A, T[1]])
                return N("app", [N("app", [f, self.gen(ctx, ("fun", A, T[1]), h)], ("fun", ("arr", A), T)),
                                 self.gen(ctx, ("arr", A), h)], T)
        raise ValueError(p)

    def consume(self, ctx, v, T, size):
        """a term of type T that really uses the value of v (of type T) at its type"""
        r = self.rng
        k = T[0]
        if k == "num":
            return N("prim2", [r.choice(["add", "sub", "mul"]), v, self.gen(ctx, NUM, max(1, size - 1))], T, x=[])
        if k == "str":
            return N("prim2", ["concat", v, self.gen(ctx, STR, max(1, size - 1))], T, x=[])
        if k == "bool":
            return N("prim1", ["not", v], T, x=[])
        if k == "arr":
            return N("prim2", ["arrcat", v, self.gen(ctx, T, max(1, size - 1))], T, x=[T[1]])
        return v

    def rowinfer(self, ctx, T, size):
        """`(fun r => BODY) ARG` (or through a let-bound function) with an UNANNOTATED parameter r whose
        record type the typechecker has to infer from its uses in BODY -- projections (which give r an open
        row), coercions to a dictionary (std.record.values / has_field / get / fields, by subsumption), in a
        random order -- before it meets the argument's type."""
        r = self.rng
        dict_uses = r.chance(2, 3)
        U = T if (first_order(T) and T[0] != "dyn" and r.chance(1, 2)) else self.gen_type(1, False)
        nf = r.range(1, 3)
        fs = sorted(r.shuffle(FIELDS)[:nf])
        if dict_uses:
            R = ("rec", tuple((f, U) for f in fs))
        else:
            R = ("rec", tuple((f, U if i == 0 else self.gen_type(1, False)) for i, f in enumerate(fs)))
        rn = self.fresh("r")
        rv = lambda: N("var", [rn], R)
        if dict_uses:
            # valid order: every field is projected (once) before the first coercion -- the coercion closes the
            # row with the fields known so far; the near-miss orders come from the mutant stream
            kinds = [("proj", f) for f in r.shuffle(fs)] if (nf > 1 or r.chance(3, 4)) else []
            if kinds and r.chance(1, 3):
                kinds.append(("proj", r.choice(fs)))          # a field projected twice
            kinds += [(kd, None) for kd in r.shuffle(["vals", r.choice(["has", "get", "fields", "vals"])])[:r.range(1, 2)]]
            if not any(kd == "vals" for kd, _ in kinds):
                kinds.append(("vals", None))
        else:
            kinds = [("proj", r.choice(fs)) for _ in range(r.range(1, 3))]
        binds = []          # (name, type, term)
        inner = list(ctx)
        for kd, pf in kinds:
            y = self.fresh()
            if kd == "proj":
                f, u = pf, dict(R[1])[pf]
                binds.append((y, u, N("proj", [rv(), f], u)))
            elif kd == "vals":
                binds.append((y, ("arr", U), N("prim1", ["recvalues", N("sub", [rv()], ("dict", U))], ("arr", U), x=[U])))
            elif kd == "fields":
                binds.append((y, ("arr", STR), N("prim1", ["recfields", N("sub", [rv()], ("dict", U))], ("arr", STR), x=[U])))
            elif kd == "has":
                binds.append((y, BOOL, N("prim2", ["rechas", N("str", [r.choice(fs)], STR), N("sub", [rv()], ("dict", U))], BOOL, x=[U])))
            else:
                self.err_sources += 1
                binds.append((y, U, N("prim2", ["recget", N("str", [r.choice(fs)], STR), N("sub", [rv()], ("dict", U))], U, x=[U])))
            inner.append((y, binds[-1][1]))
        # an element of the dictionary's values, consumed at the element type
        vals = [b for b in binds if b[1] == ("arr", U) and b[2].k == "prim1"]
        if vals:
            z = self.fresh()
            self.err_sources += 1
            binds.append((z, U, N("prim2", ["arrat", N("num", [r.range(0, len(fs)), 1], NUM), N("var", [vals[0][0]], ("arr", U))], U, x=[U])))
            inner.append((z, U))
        same = [b for b in binds if b[1] == T]
        if same and r.chance(3, 4):
            final = self.consume(inner, N("var", [r.choice(same)[0]], T), T, max(1, size // 3))
        else:
            final = self.gen(inner, T, max(1, size // 3))
        body = final
        for (y, u, e) in reversed(binds):
            body = N("let", [y, None, e, body], T)
        lam = N("lam", [rn, body], ("fun", R, T))
        arg = self.lit(R, ctx, max(1, size // 3))
        self.features.add("row-inference:" + ("dict" if dict_uses else "proj"))
        if r.chance(1, 2):
            return N("app", [lam, arg], T)
        f = self.fresh("f")
        return N("let", [f, None, lam, N("app", [N("var", [f], ("fun", R, T)), arg], T)], T)

    # ------------------------------------------------------------------ holes of untyped code
    def hole(self, T, size):
        """(u | T) with u closed untyped code."""
        r = self.rng
        flavour = r.weighted([("good", 12), ("wrong-kind", 2), ("fails", 1)])
        if self.bad_holes >= 1 and flavour != "good":
            flavour = "good"       # at most one failing hole per program
        if flavour != "good":
            self.bad_holes += 1
            self.err_sources += 1
        self.features.add("hole-" + flavour)
        return N("hole", [self.untyped(T, flavour)], T, x=flavour)

    def untyped_value(self, T, depth=0):
        """a closed untyped term whose value satisfies T"""
        r = self.rng
        k = T[0]
        if k == "dyn":
            return self.untyped_value(r.choice([NUM, STR, BOOL, ("arr", NUM)]), depth)
        if k in ("num", "str", "bool"):
            base = self.lit(T, [], 1)
        elif k == "enum":
            t, u = r.choice(T[1])
            base = N("tag", [t]) if u is None else N("variant", [t, self.untyped_value(u, depth + 1)])
        elif k == "arr":
            base = N("arr", [[self.untyped_value(T[1], depth + 1) for _ in range(r.range(0, 2))]])
        elif k == "rec":
            base = N("rec", [[(f, self.untyped_value(u, depth + 1)) for f, u in T[1]]])
        elif k == "dict":
            fs = sorted(r.shuffle(FIELDS)[:r.range(0, 2)])
            base = N("rec", [[(f, self.untyped_value(T[1], depth + 1)) for f in fs]])
        else:
            raise ValueError(T)
        base.ty = None
        c = r.below(8) if depth < 2 else 9
        if c == 0:
            z = self.fresh("u")
            return N("app", [N("lam", [z, base]), N("num", [1, 1])])
        if c == 1:
            z = self.fresh("u")
            return N("let", [z, None, base, N("var", [z])])
        if c == 2:
            return N("if", [N("prim2", ["lt", N("num", [1, 1]), N("num", [2, 1])]), base, N("str", ["no"])])
        if c == 3:
            return N("proj", [N("rec", [[("zz", base)]]), "zz"])
        return base

    def untyped(self, T, flavour):
        r = self.rng
        if flavour == "good":
            return self.untyped_value(T)
        if flavour == "wrong-kind":
            others = [U for U in [NUM, STR, BOOL, ("arr", NUM), ("rec", (("fa", NUM),)), bare("Zz")]
                      if U[0] != T[0] and T[0] != "dyn"]
            if T[0] == "rec":
                c = r.below(3)
                fs = list(T[1])
                if c == 0 and len(fs) > 0:
                    U = ("rec", tuple(fs[1:]))
                elif c == 1:
                    U = ("rec", tuple(sorted(fs + [("zq", NUM)])))
                else:
                    f0, t0 = fs[0]
                    U = ("rec", tuple([(f0, STR if t0[0] != "str" else NUM)] + fs[1:]))
                return self.untyped_value(U)
            if T[0] == "arr" and r.chance(1, 2):
                inner = [U for U in [NUM, STR, BOOL] if U[0] != T[1][0]]
                return self.untyped_value(("arr", r.choice(inner)))
            if T[0] == "enum":
                c = r.below(3)
                payload = [(t, u) for t, u in T[1] if u is not None]
                if c == 0 and payload:       # right tag, ill-kinded payload
                    t, u = r.choice(payload)
                    return N("variant", [t, self.untyped_value(STR if u[0] != "str" else NUM)])
                if c == 1 and payload:       # payload missing
                    return N("tag", [r.choice(payload)[0]])
                return self.untyped_value(bare("Zz"))
            if T[0] == "dict" and r.chance(1, 2):
                inner = [U for U in [NUM, STR, BOOL] if U[0] != T[1][0]]
                return self.untyped_value(("rec", (("fa", r.choice(inner)),)))
            if not others:
                return self.untyped_value(T)
            return self.untyped_value(r.choice(others))
        c = r.below(4)
        if c == 0:
            return N("app", [N("num", [1, 1]), N("num", [2, 1])])
        if c == 1:
            return N("prim2", ["add", N("str", ["a"]), N("num", [1, 1])])
        if c == 2:
            return N("proj", [N("rec", [[("fa", N("num", [1, 1]))]]), "zz"])
        return N("match", [N("tag", ["Zq"]), [("Zr", None, N("num", [1, 1]))], None])

    # ------------------------------------------------------------------ whole programs
    def program(self, size):
        r = self.rng
        T = self.gen_type(2)
        npoly = r.weighted([(0, 3), (1, 3), (2, 2)])
        self.polys = r.shuffle(sorted(POLY))[:npoly]
        body = self.gen([], T, size)
        for name in reversed(self.polys):
            k, ann, mk = POLY[name][:3]
            body = N("plet", [name, k, ann, mk(), body], T)
        pr = Printer()
        pr.out("(")
        pr.term(body)
        pr.out(") : ")
        a0 = pr.pos
        pr.out(ty_src(T))
        src = pr.text()
        return {"src": src, "sexp": to_sexp(body), "cert": to_cert(body), "type": T, "ast": body,
                "features": sorted(self.features), "bad_holes": self.bad_holes, "err_sources": self.err_sources,
                "holes": pr.holes, "hole_annots": pr.hole_annots, "own_annot": (a0, pr.pos), "nodes": pr.nodes}


# ---------------------------------------------------------------------- printing

class Printer:
    def __init__(self):
        self.buf = []
        self.pos = 0
        self.holes = []     # spans of the untyped code of holes
        self.hole_annots = []   # spans of the contract annotations of holes
        self.nodes = []     # (node) in print order, with .span set

    def out(self, s):
        self.buf.append(s)
        self.pos += len(s.encode())

    def text(self):
        return "".join(self.buf)

    def term(self, n):
        s0 = self.pos
        k, a = n.k, n.a
        if k == "num":
            p, q = a
            txt = {(1, 2): "0.5", (3, 2): "1.5", (5, 4): "1.25", (1, 10): "0.1"}.get((p, q)) if q != 1 else None
            if q == 1:
                txt = str(p) if p >= 0 else "(%d)" % p
            self.out(txt)
        elif k == "str":
            self.out(sstr(a[0]))
        elif k == "bool":
            self.out("true" if a[0] else "false")
        elif k == "var":
            self.out(a[0])
        elif k == "tag":
            self.out("'" + a[0])
        elif k == "variant":
            self.out("('%s " % a[0])
            self.term(a[1])
            self.out(")")
        elif k == "lam":
            self.out("(fun ")
            xs = self.pos
            self.out(a[0])
            n.x = (xs, self.pos) if n.x is None else n.x
            self.out(" => ")
            self.term(a[1])
            self.out(")")
        elif k == "app":
            self.out("(")
            self.term(a[0])
            self.out(" ")
            self.term(a[1])
            self.out(")")
        elif k == "let":
            self.out("(let %s" % a[0])
            if a[1] is not None:
                self.out(" : %s" % ty_src(a[1]))
            self.out(" = ")
            self.term(a[2])
            self.out(" in ")
            self.term(a[3])
            self.out(")")
        elif k == "plet":
            self.out("let %s : %s = " % (a[0], a[2]))
            self.term(a[3])
            self.out(" in ")
            self.term(a[4])
        elif k == "if":
            self.out("(if ")
            self.term(a[0])
            self.out(" then ")
            self.term(a[1])
            self.out(" else ")
            self.term(a[2])
            self.out(")")
        elif k == "arr":
            self.out("[")
            for i, e in enumerate(a[0]):
                if i:
                    self.out(", ")
                self.term(e)
            self.out("]")
        elif k == "rec":
            self.out("{")
            for i, (f, e) in enumerate(a[0]):
                if i:
                    self.out(", ")
                self.out("%s = " % f)
                self.term(e)
            self.out("}")
        elif k == "proj":
            self.out("(")
            self.term(a[0])
            self.out(").%s" % a[1])
        elif k == "match":
            self.out("(")
            self.term(a[0])
            self.out(" |> match { ")
            first = True
            for t, x, b in a[1]:
                if not first:
                    self.out(", ")
                first = False
                if x is None:
                    self.out(" or ".join("'%s" % t1 for t1 in alts(t)) + " => ")
                elif isinstance(t, tuple):
                    self.out(" or ".join("('%s %s)" % (t1, x) for t1 in t) + " => ")
                else:
                    self.out("'%s %s => " % (t, x))
                self.term(b)
            if a[2] is not None:
                if not first:
                    self.out(", ")
                self.out("_ => ")
                self.term(a[2])
            self.out(" })")
        elif k == "prim2":
            nm = a[0]
            self.out("(")
            if nm in INFIX:
                self.term(a[1])
                self.out(" %s " % INFIX[nm])
                self.term(a[2])
            else:
                self.out(STDFN[nm] + " ")
                self.term(a[1])
                self.out(" ")
                self.term(a[2])
            self.out(")")
        elif k == "prim1":
            self.out("(")
            self.out("!" if a[0] == "not" else STDFN[a[0]] + " ")
            self.term(a[1])
            self.out(")")
        elif k in ("and", "or"):
            self.out("(")
            self.term(a[0])
            self.out(" && " if k == "and" else " || ")
            self.term(a[1])
            self.out(")")
        elif k == "annt":
            self.out("(")
            self.term(a[0])
            self.out(" : %s)" % ty_src(n.ty))
        elif k == "sub":
            self.term(a[0])
        elif k == "hole":
            self.out("(")
            h0 = self.pos
            self.term(a[0])
            self.holes.append((h0, self.pos))
            self.out(" | ")
            c0 = self.pos
            self.out(ty_src(n.ty))
            self.hole_annots.append((c0, self.pos))
            self.out(")")
        else:
            raise ValueError(k)
        n.span = (s0, self.pos)
        self.nodes.append(n)


def q_sexp(p, q):
    return "(num %d %d)" % (p, q)


def to_sexp(n):
    k, a = n.k, n.a
    if k == "num":
        return q_sexp(*a)
    if k == "str":
        return "(str %s)" % sstr(a[0])
    if k == "bool":
        return "(bool %s)" % ("true" if a[0] else "false")
    if k == "var":
        return '(var "%s")' % a[0]
    if k == "tag":
        return '(tag "%s")' % a[0]
    if k == "variant":
        return '(variant "%s" %s)' % (a[0], to_sexp(a[1]))
    if k == "lam":
        return '(lam "%s" %s)' % (a[0], to_sexp(a[1]))
    if k == "app":
        return "(app %s %s)" % (to_sexp(a[0]), to_sexp(a[1]))
    if k == "let":
        e = to_sexp(a[2])
        if a[1] is not None:
            e = "(annt %s %s)" % (e, ty_sexp(a[1]))
        return '(let "%s" %s %s)' % (a[0], e, to_sexp(a[3]))
    if k == "plet":
        return '(let "%s" %s %s)' % (a[0], to_sexp(a[3]), to_sexp(a[4]))
    if k == "if":
        return "(if %s %s %s)" % tuple(to_sexp(x) for x in a)
    if k == "arr":
        return "(arr %s)" % " ".join(to_sexp(e) for e in a[0])
    if k == "rec":
        return "(rec %s)" % " ".join('("%s" %s)' % (f, to_sexp(e)) for f, e in a[0])
    if k == "proj":
        return '(proj %s "%s")' % (to_sexp(a[0]), a[1])
    if k == "match":
        bs = "(%s)" % " ".join(('("%s" %s)' % (t, to_sexp(b))) if x is None else '("%s" "%s" %s)' % (t, x, to_sexp(b))
                               for t, x, b in expand_arms(a[1]))
        if a[2] is not None:
            return "(match %s %s %s)" % (to_sexp(a[0]), bs, to_sexp(a[2]))
        return "(match %s %s)" % (to_sexp(a[0]), bs)
    if k == "prim2":
        return "(app (app (prim %s) %s) %s)" % (a[0], to_sexp(a[1]), to_sexp(a[2]))
    if k == "prim1":
        return "(app (prim %s) %s)" % (a[0], to_sexp(a[1]))
    if k == "and":
        return "(if %s %s (bool false))" % (to_sexp(a[0]), to_sexp(a[1]))
    if k == "or":
        return "(if %s (bool true) %s)" % (to_sexp(a[0]), to_sexp(a[1]))
    if k == "annt":
        return "(annt %s %s)" % (to_sexp(a[0]), ty_sexp(n.ty))
    if k == "hole":
        return "(cast (untyped %s) %s)" % (to_sexp(a[0]), ty_sexp(n.ty))
    if k == "sub":
        return to_sexp(a[0])
    raise ValueError(k)


def insts_sexp(ts):
    out = []
    for t in ts:
        if t[0] == "rows":
            out.append("(irow %s)" % " ".join('("%s" %s)' % (f, ty_sexp(u)) for f, u in t[1]))
        else:
            out.append("(ity %s)" % ty_sexp(t))
    return "(%s)" % " ".join(out)


def to_cert(n):
    """the annotated term of coq/Types/Checker.v (as an s-expression)"""
    k, a = n.k, n.a
    if k == "num":
        return "(anum %d %d)" % tuple(a)
    if k == "str":
        return "(astr %s)" % sstr(a[0])
    if k == "bool":
        return "(abool %s)" % ("true" if a[0] else "false")
    if k == "var":
        return '(avar "%s" %s)' % (a[0], insts_sexp(n.x if isinstance(n.x, list) else []))
    if k == "tag":
        return '(atag "%s" (%s))' % (a[0], erows_sexp(n.ty[1]))
    if k == "variant":
        return '(avariant "%s" %s (%s))' % (a[0], to_cert(a[1]), erows_sexp(n.ty[1]))
    if k == "lam":
        return '(alam "%s" %s %s)' % (a[0], ty_sexp(n.ty[1]), to_cert(a[1]))
    if k == "app":
        return "(aapp %s %s)" % (to_cert(a[0]), to_cert(a[1]))
    if k == "let":
        e = to_cert(a[2])
        if a[1] is not None:
            e = "(aannt %s %s)" % (e, ty_sexp(a[1]))
        return '(alet "%s" () %s %s)' % (a[0], e, to_cert(a[3]))
    if k == "plet":
        return '(alet "%s" (%s) %s %s)' % (a[0], " ".join(poly_kinds(a[0])), to_cert(a[3]), to_cert(a[4]))
    if k == "if":
        return "(aif %s %s %s)" % tuple(to_cert(x) for x in a)
    if k == "arr":
        return "(aarr %s (%s))" % (ty_sexp(n.ty[1]), " ".join(to_cert(e) for e in a[0]))
    if k == "rec":
        return "(arec %s)" % " ".join('("%s" %s)' % (f, to_cert(e)) for f, e in a[0])
    if k == "proj":
        return '(aproj %s "%s")' % (to_cert(a[0]), a[1])
    if k == "match":
        bs = "(%s)" % " ".join(('("%s" %s)' % (t, to_cert(b))) if x is None else '("%s" "%s" %s)' % (t, x, to_cert(b))
                               for t, x, b in expand_arms(a[1]))
        d = (" " + to_cert(a[2])) if a[2] is not None else ""
        return "(amatch %s %s %s%s)" % (to_cert(a[0]), ty_sexp(n.ty), bs, d)
    if k == "prim2":
        return "(aapp (aapp (aprim %s %s) %s) %s)" % (a[0], insts_sexp(n.x or []), to_cert(a[1]), to_cert(a[2]))
    if k == "prim1":
        return "(aapp (aprim %s %s) %s)" % (a[0], insts_sexp(n.x or []), to_cert(a[1]))
    if k == "and":
        return "(aif %s %s (abool false))" % (to_cert(a[0]), to_cert(a[1]))
    if k == "or":
        return "(aif %s (abool true) %s)" % (to_cert(a[0]), to_cert(a[1]))
    if k == "annt":
        return "(aannt %s %s)" % (to_cert(a[0]), ty_sexp(n.ty))
    if k == "hole":
        return "(acast (auntyped %s) %s)" % (to_sexp(a[0]), ty_sexp(n.ty))
    if k == "sub":
        return "(asub %s %s)" % (to_cert(a[0]), ty_sexp(n.ty))
    raise ValueError(k)


def poly_kinds(name):
    e = POLY[name]
    return e[3] if len(e) > 3 else ["t"] * e[0]


def poly_names(name):
    """the quantified names of the helper's annotation, outermost first"""
    import re
    return re.match(r"forall ([a-z ]+)\.", POLY[name][1]).group(1).split()


def poly_rigid(name):
    """(type variable names, row variable names), innermost first (= de Bruijn order)"""
    ks, ns = poly_kinds(name), poly_names(name)
    return ([n for n, k in reversed(list(zip(ns, ks))) if k == "t"], [n for n, k in reversed(list(zip(ns, ks))) if k == "r"])


def poly_insts(name, tout, rout):
    """ordered instantiation arguments (outermost quantifier first)"""
    ks = poly_kinds(name)
    out = []
    for i, k in enumerate(ks):
        if k == "t":
            out.append(tout.get(ks[i + 1:].count("t"), NUM))
        else:
            out.append(("rows", tuple(rout.get(ks[i + 1:].count("r"), ()))))
    return out


def alts(t):
    """the tags of a match arm: one tag, or the alternatives of an or-pattern (all of the same shape,
    sharing the payload binder)"""
    return list(t) if isinstance(t, tuple) else [t]


def expand_arms(arms):
    """or-patterns as the model sees them: one arm per alternative, same body"""
    return [(t1, x, b) for (t, x, b) in arms for t1 in alts(t)]


def gen_program(rng, size, holes=True):
    return Frag(rng, holes).program(size)


# ---------------------------------------------------------------------- real typechecker's types

def conv_tc_type(t):
    """type s-expression of the harness (checks/c01_sig.parse_sexps shape) -> fragment type, with
    ("any",) for unresolved unification variables / open rows, or None when outside the fragment"""
    if isinstance(t, str):
        return {"num": NUM, "str": STR, "bool": BOOL, "dyn": DYN}.get(t)
    h = t[0]
    if h == "var":
        return ("any",) if t[1][1].startswith("_") else ("rigid", t[1][1])
    if h == "arr":
        u = conv_tc_type(t[1])
        return ("arr", u) if u else None
    if h == "fun":
        a, b = conv_tc_type(t[1]), conv_tc_type(t[2])
        return ("fun", a, b) if a and b else None
    if h == "dict":
        u = conv_tc_type(t[2])
        return ("dict", u) if u else None
    if h == "rec":
        fs = []
        for r in t[1]:
            u = conv_tc_type(r[1])
            if not u:
                return None
            fs.append((r[0][1], u))
        if t[2] == "closed":
            return ("rec", tuple(sorted(fs)))
        if t[2] != "dyn" and not t[2][1][1].startswith("_"):
            return ("rec-rigid", tuple(sorted(fs)), t[2][1][1])
        return ("rec-open", tuple(sorted(fs)))
    if h == "enum":
        rows = []
        for r in t[1]:
            u = None
            if len(r) > 1:
                u = conv_tc_type(r[1])
                if u is None:
                    return None
            rows.append((r[0][1], u))
        rows = tuple(sorted(rows, key=lambda x: (x[0], x[1] is not None)))
        return ("enum", rows) if t[2] == "closed" else ("enum-open", rows)
    if h == "forall":
        # the quantified type of an annotated helper: its body, with the quantified names rigid
        return conv_tc_type(t[3])
    return None


def ty_match(real, want):
    """does the resolved type `real` (with wildcards) agree with the certificate's type `want`?"""
    if real is None:
        return False
    k = real[0]
    if k == "any":
        return True
    if k == "poly":
        return True          # the polymorphic type of a let-bound helper: its instance is checked at the arguments
    if k == "rigid":
        # a rigid variable of an enclosing `forall`, or an unresolved unification variable that kept
        # the name of the quantifier it instantiates
        return True
    if k == "enum-open":
        return want[0] == "enum" and all(any(t == t2 and ((u is None) == (u2 is None)) and (u is None or ty_match(u, u2))
                                             for t2, u2 in want[1]) for t, u in real[1])
    if k in ("rec-open", "rec-rigid"):
        return want[0] == "rec" and all(any(f == g and ty_match(u, v) for g, v in want[1]) for f, u in real[1])
    if k == "rec" and want[0] == "dict":
        # the typechecker inferred the record type where the certificate already uses the dictionary
        # type it is subsumed to later (both are declarative derivations)
        return all(ty_match(u, want[1]) for _, u in real[1])
    if k == "dict" and want[0] == "rec":
        # a record literal checked directly against a dictionary type (its own type is the record type)
        return all(ty_match(real[1], v) for _, v in want[1])
    if k != want[0]:
        return False
    if k in ("num", "str", "bool", "dyn"):
        return True
    if k in ("arr", "dict"):
        return ty_match(real[1], want[1])
    if k == "fun":
        return ty_match(real[1], want[1]) and ty_match(real[2], want[2])
    if k == "rec":
        return len(real[1]) == len(want[1]) and all(f == g and ty_match(u, v) for (f, u), (g, v) in zip(real[1], want[1]))
    if k == "enum":
        return len(real[1]) == len(want[1]) and all(
            t == t2 and ((u is None) == (u2 is None)) and (u is None or ty_match(u, u2))
            for (t, u), (t2, u2) in zip(real[1], want[1]))
    return False


KIND_OF = {"num": "Number", "str": "String", "bool": "Bool", "var": "Var", "tag": "EnumVariant", "variant": "EnumVariant",
           "lam": "Fun",
           "app": "App", "let": "Let", "if": "IfThenElse", "arr": "Array", "rec": "Record", "annt": "Annotated",
           "hole": "Annotated", "match": "App", "prim2": None, "prim1": None, "proj": "PrimOpApp"}


def compare_with_tc(prog, terms):
    """terms: [(s, e, kind, type-sexp)] from the harness.  For every typed node of the generated AST
    whose span (with or without its parentheses) and node kind the typechecker reported, the resolved
    type must agree with the certificate's.  Returns (n_compared, [mismatch descriptions])."""
    by = {}
    for (s, e, kind, ty) in terms:
        by[(s, e, kind)] = ty
    n, bad = 0, []
    for nd in prog["nodes"]:
        if nd.ty is None or nd.span is None:
            continue
        kind = KIND_OF.get(nd.k)
        if nd.k == "prim2":
            kind = "PrimOpApp" if nd.a[0] in INFIX else "App"
        if nd.k == "prim1":
            kind = "PrimOpApp" if nd.a[0] == "not" else "App"
        if kind is None:
            continue
        s, e = nd.span
        ty = None
        for dd in (0, -1, -2, -3):       # a parenthesised term's span includes its (repeated) parentheses
            ty = by.get((s + dd, e - dd, kind))
            if ty is not None:
                break
        if ty is None:
            continue
        real = conv_tc_type(ty)
        n += 1
        if not ty_match(real, nd.ty):
            bad.append("%s at %d-%d: typechecker %r, certificate %s" % (nd.k, s, e, ty, ty_sexp(nd.ty)))
    return n, bad


# ---------------------------------------------------------------------- comparing outcomes

ALLOWED_EQUIV = {"Index": {"OtherErr", "Blame+", "Blame-"}, "KeyMissing": {"Blame-", "FieldMissing"}}
DYN_TYPE_ERRS = {"TypeErr", "NotAFunc", "FieldMissing", "NonExhaustive", "UnboundId"}


def canon_impl(line):
    """harness answer -> (class-or-OK, tree)"""
    if line.startswith("OK "):
        return "OK", line[3:]
    parts = line.split()
    return (parts[1] if len(parts) > 1 else "?"), ""


def canon_model(line):
    if line.startswith("OK "):
        return "OK", line[3:], None
    parts = line.split()
    cls = parts[1] if len(parts) > 1 else "?"
    origin = parts[2] if len(parts) > 2 else None
    return cls, "", origin


def agree(impl_line, model_line):
    ic, it = canon_impl(impl_line)
    mc, mt, mo = canon_model(model_line)
    if ic == "OK" or mc == "OK":
        return ic == mc and it == mt
    if ic == mc:
        return True
    return ic in ALLOWED_EQUIV.get(mc, ())


def impl_positions(line):
    """[(file, s, e)] of an ERR answer"""
    import re
    m = re.search(r" pos=(\S+)", line)
    out = []
    if m and m.group(1) != "none":
        for p in m.group(1).split(","):
            f, _, se = p.partition(":")
            s, _, e = se.partition("-")
            out.append((f, int(s), int(e)))
    return out


def in_hole(prog, pos):
    f, s, e = pos
    return f == "main" and any(a <= s and e <= b for (a, b) in prog["holes"])


def impl_label(line):
    """(file, s, e, polarity) of a Blame answer, or None"""
    import re
    m = re.search(r" label=(\w+):(\d+)-(\d+) pol=([+-])", line)
    return (m.group(1), int(m.group(2)), int(m.group(3)), m.group(4)) if m else None


def direct_oracle(prog, line):
    """The property on the implementation, no model involved.  -> (verdict, detail) with verdict in
    {"ok", "rejected", "allowed-error", "untyped-origin", "violation", "crash"}."""
    cls, _ = canon_impl(line)
    if cls == "OK":
        return "ok", ""
    if cls in ("Typecheck", "Parse"):
        return "rejected", cls
    if cls in ("Panic", "Crash"):
        return "crash", cls
    if cls in DYN_TYPE_ERRS or cls == "TailAccess":
        pos = impl_positions(line)
        if pos and in_hole(prog, pos[0]):
            return "untyped-origin", cls
        return "violation", "%s raised at %s, outside every hole of untyped code" % (cls, pos[:1])
    if cls.startswith("Blame"):
        lab = impl_label(line)
        if lab is None:
            return "violation", "blame without a label position"
        f, s, e, pol = lab
        if f == "main":
            if any(a <= s and e <= b for (a, b) in prog["hole_annots"]):
                if pol == "+":
                    return "allowed-error", "hole blamed"
                return "violation", "the typed context of a hole is blamed (negative polarity)"
            return "violation", "typed code is blamed for a static annotation of the program (label %d-%d %s)" % (s, e, pol)
        if pol == "-":
            return "allowed-error", "precondition of a library function (negative blame on its contract)"
        return "violation", "library contract blames the library function itself (positive polarity, label in %s)" % f
    return "allowed-error", cls


# ---------------------------------------------------------------------- certificates from the real typechecker

class CertError(Exception):
    pass


def default_type(t):
    """resolved type of the typechecker -> closed fragment type (unresolved variables := Number,
    open rows closed), or None outside the fragment"""
    if t is None:
        return None
    k = t[0]
    if k in ("any", "rigid"):
        return NUM
    if k in ("num", "str", "bool", "dyn"):
        return t
    if k in ("arr", "dict"):
        u = default_type(t[1])
        return (k, u) if u else None
    if k == "fun":
        a, b = default_type(t[1]), default_type(t[2])
        return ("fun", a, b) if a and b else None
    if k in ("rec", "rec-open", "rec-rigid"):
        fs = []
        for f, u in t[1]:
            d = default_type(u)
            if not d:
                return None
            fs.append((f, d))
        return ("rec", tuple(fs))
    if k in ("enum", "enum-open"):
        rows = []
        for i, (x, u) in enumerate(t[1]):
            if u is not None and u[0] == "any" and ANY_ROW_STRATEGY < 2:
                # a payload the typechecker left unconstrained (no value of the program inhabits the row):
                # any type is a valid choice; take a neighbour's, so that an or-pattern arm shared with
                # that neighbour has one type for its binder
                order = list(range(i - 1, -1, -1)) + list(range(i + 1, len(t[1])))
                if ANY_ROW_STRATEGY == 1:
                    order = list(range(i + 1, len(t[1]))) + list(range(i - 1, -1, -1))
                near = [t[1][j][1] for j in order if t[1][j][1] is not None and t[1][j][1][0] != "any"]
                u = near[0] if near else u
            d = None if u is None else default_type(u)
            if u is not None and d is None:
                return None
            rows.append((x, d))
        return ("enum", tuple(rows))
    return None


ANY_ROW_STRATEGY = 0


def rigid_type(t, names):
    """inside the body of a polymorphic helper: rigid variables -> de Bruijn variables;
    names = (type variable names, row variable names), innermost first"""
    tn, rn = names
    k = t[0]
    if k == "rigid":
        return ("tvar", tn.index(t[1])) if t[1] in tn else NUM
    if k == "any":
        return NUM
    if k in ("arr", "dict"):
        return (k, rigid_type(t[1], names))
    if k == "fun":
        return ("fun", rigid_type(t[1], names), rigid_type(t[2], names))
    if k == "rec-rigid" and t[2] in rn:
        return ("rec", tuple((f, rigid_type(u, names)) for f, u in t[1]), ("rvar", rn.index(t[2])))
    if k in ("rec", "rec-open", "rec-rigid"):
        return ("rec", tuple((f, rigid_type(u, names)) for f, u in t[1]))
    return default_type(t)


def match_poly(poly, inst, out, rout=None):
    """match the body of a polymorphic type (with ("tvar", i) and record tails ("rvar", i)) against an
    instance; fills out[i] (types) and rout[i] (the rows a row variable stands for)"""
    if rout is None:
        rout = {}
    if poly[0] == "tvar":
        out.setdefault(poly[1], inst)
        return True
    if poly[0] != inst[0]:
        return False
    if poly[0] in ("arr", "dict"):
        return match_poly(poly[1], inst[1], out, rout)
    if poly[0] == "fun":
        return match_poly(poly[1], inst[1], out, rout) and match_poly(poly[2], inst[2], out, rout)
    if poly[0] == "rec":
        have = dict(inst[1])
        for f, u in poly[1]:
            if f not in have or not match_poly(u, have[f], out, rout):
                return False
        rest = tuple((f, u) for f, u in inst[1] if f not in dict(poly[1]))
        if len(poly) > 2:
            rout.setdefault(poly[2][1], rest)
            return True
        return not rest
    return True


def py_subb(a, b):
    """python mirror of Checker.subb (used to decide where to put an ASub; the Coq checker re-decides)"""
    if a == b:
        return True
    if a[0] == "rec" and b[0] == "dict":
        return all(py_subb(t, b[1]) for _, t in a[1])
    if a[0] == "arr" and b[0] == "arr":
        return py_subb(a[1], b[1])
    if a[0] == "dict" and b[0] == "dict":
        return py_subb(a[1], b[1])
    if a[0] == "rec" and b[0] == "rec":
        return len(a[1]) == len(b[1]) and all(f == g and py_subb(t, u) for (f, t), (g, u) in zip(a[1], b[1]))
    return False


def subst_tvars(t, insts, rinsts=None):
    """instantiate the de Bruijn variables of a helper's body type; insts[i] is the type for tvar i,
    rinsts[i] the rows for rvar i"""
    k = t[0]
    if k == "tvar":
        return insts[t[1]]
    if k in ("arr", "dict"):
        return (k, subst_tvars(t[1], insts, rinsts))
    if k == "fun":
        return ("fun", subst_tvars(t[1], insts, rinsts), subst_tvars(t[2], insts, rinsts))
    if k == "rec":
        fs = tuple((f, subst_tvars(u, insts, rinsts)) for f, u in t[1])
        if len(t) > 2:
            fs = fs + tuple((rinsts or {}).get(t[2][1], ()))
        return ("rec", fs)
    return t


PRIM_SIGS = {   # name -> (number of quantifiers, argument types, result type) with ("tvar", i)
    "add": (0, [NUM, NUM], NUM), "sub": (0, [NUM, NUM], NUM), "mul": (0, [NUM, NUM], NUM), "div": (0, [NUM, NUM], NUM),
    "lt": (0, [NUM, NUM], BOOL), "le": (0, [NUM, NUM], BOOL), "gt": (0, [NUM, NUM], BOOL), "ge": (0, [NUM, NUM], BOOL),
    "not": (0, [BOOL], BOOL), "concat": (0, [STR, STR], STR), "strlen": (0, [STR], NUM),
    "arrlen": (1, [("arr", TV0)], NUM), "arrat": (1, [NUM, ("arr", TV0)], TV0),
    "arrcat": (1, [("arr", TV0), ("arr", TV0)], ("arr", TV0)),
    "arrmap": (2, [("fun", TV1, TV0), ("arr", TV1)], ("arr", TV0)),
    "eq": (2, [TV1, TV0], BOOL),
    "recfields": (1, [("dict", TV0)], ("arr", STR)), "recvalues": (1, [("dict", TV0)], ("arr", TV0)),
    "rechas": (1, [STR, ("dict", TV0)], BOOL), "recget": (1, [STR, ("dict", TV0)], TV0),
}


class CertBuilder:
    """Builds the annotated term of Types/Checker.v for a generated AST.  The builder mirrors the
    syntax-directed part of a derivation (what Checker.infer recomputes anyway) and takes from the
    REAL typechecker (harness `tc` rows) exactly the parts a derivation has to guess: the types of
    lambda-bound variables, the (closed) enum type of every tag, the element type of arrays, the
    result type of if/match, the instances of polymorphic helpers and primitives.  A subsumption
    step (ASub) is inserted wherever the type of a subterm differs from the type its context
    requires.  The generator's own intentions (N.ty) are not consulted."""

    def __init__(self, terms, idents):
        self.by = {}
        for (s, e, kind, ty) in terms:
            self.by[(s, e, kind)] = ty
        self.rigid = None     # names of the quantified variables while inside a helper's body

    def kind_of(self, nd):
        if nd.k == "prim2":
            return "PrimOpApp" if nd.a[0] in INFIX else "App"
        if nd.k == "prim1":
            return "PrimOpApp" if nd.a[0] == "not" else "App"
        if nd.k in ("and", "or"):
            return "App"
        return KIND_OF.get(nd.k)

    def tc(self, nd, need=True):
        """the type the typechecker resolved for the node (defaulted to a closed fragment type)"""
        while nd.k == "sub":
            nd = nd.a[0]
        kind = self.kind_of(nd)
        s, e = nd.span
        ty = None
        for d in (0, -1, -2, -3):        # a parenthesised term's span includes its (repeated) parentheses
            ty = self.by.get((s + d, e - d, kind))
            if ty is not None:
                break
        if ty is None:
            if need:
                raise CertError("the typechecker reported no type for the %s node at %d-%d" % (nd.k, s, e))
            return None
        t = conv_tc_type(ty)
        d = None if t is None else (rigid_type(t, self.rigid) if self.rigid is not None else default_type(t))
        if d is None:
            raise CertError("type outside the fragment at %s %d-%d: %r" % (nd.k, s, e, ty))
        return d

    def coerce(self, c, T, want, what):
        if T == want:
            return c
        if py_subb(T, want):
            return "(asub %s %s)" % (c, ty_sexp(want))
        raise CertError("%s has type %s where %s is required" % (what, ty_sexp(T), ty_sexp(want)))

    def join(self, n, parts, what):
        """common type of the branches: the first branch's, else the typechecker's type of the whole node"""
        want = parts[0][1]
        if not all(py_subb(T, want) for _, T in parts):
            w2 = self.tc(n, need=False)
            if w2 is not None and all(py_subb(T, w2) for _, T in parts):
                want = w2
        return want, [self.coerce(c, T, want, what) for c, T in parts]

    def build(self, n, env, want=None):
        """-> (certificate, type); `want` is the type the context requires (checking mode): it is pushed
        through lambdas, lets, branches and annotations, and a subsumption step is inserted when the
        type obtained is a proper subtype of it"""
        c, T = self.build1(n, env, want)
        if want is not None and T != want and py_subb(T, want):
            return "(asub %s %s)" % (c, ty_sexp(want)), want
        return c, T

    def build1(self, n, env, want):
        k, a = n.k, n.a
        if k == "sub":
            return self.build(a[0], env, want)
        if k == "num":
            return "(anum %d %d)" % tuple(a), NUM
        if k == "str":
            return "(astr %s)" % sstr(a[0]), STR
        if k == "bool":
            return "(abool %s)" % ("true" if a[0] else "false"), BOOL
        if k == "var":
            if a[0] not in env:
                raise CertError("unbound %s" % a[0])
            if env[a[0]][0] == "poly":
                # a polymorphic helper used as a value: instantiated at the type its context requires
                body = POLY[a[0]][2]().ty
                out, rout = {}, {}
                if want is None or not match_poly(body, want, out, rout):
                    raise CertError("polymorphic helper %s used as a value of unknown instance" % a[0])
                nt = poly_kinds(a[0]).count("t")
                iv = [out.get(i, NUM) for i in range(nt)]
                return ('(avar "%s" %s)' % (a[0], insts_sexp(poly_insts(a[0], out, rout))), subst_tvars(body, iv, rout))
            return '(avar "%s" ())' % a[0], env[a[0]]
        if k == "tag":
            t = self.tc(n)
            if t[0] != "enum" or (a[0], None) not in t[1]:
                raise CertError("tag %s typed %r" % (a[0], t))
            return '(atag "%s" (%s))' % (a[0], erows_sexp(t[1])), t
        if k == "variant":
            t = self.tc(n)
            pay = ([u for x, u in t[1] if x == a[0] and u is not None] or [None])[0] if t[0] == "enum" else None
            if pay is None:
                raise CertError("variant %s typed %r" % (a[0], t))
            ce, Te = self.build(a[1], env, pay)
            return '(avariant "%s" %s (%s))' % (a[0], self.coerce(ce, Te, pay, "payload"), erows_sexp(t[1])), t
        if k == "lam":
            t = self.tc(n)
            if t[0] != "fun":
                raise CertError("lambda typed %r" % (t,))
            e2 = dict(env)
            e2[a[0]] = t[1]
            cb, B = self.build(a[1], e2, want[2] if want is not None and want[0] == "fun" else None)
            return '(alam "%s" %s %s)' % (a[0], ty_sexp(t[1]), cb), ("fun", t[1], B)
        if k == "app":
            f, arg = a
            poly_head = f.k == "var" and env.get(f.a[0], ("",))[0] == "poly"
            if not poly_head:
                cf, Tf = self.build(f, env)
                if Tf[0] != "fun":
                    raise CertError("application of a term of type %s" % ty_sexp(Tf))
                ca, Ta = self.build(arg, env, Tf[1])
                return "(aapp %s %s)" % (cf, self.coerce(ca, Ta, Tf[1], "argument")), Tf[2]
            ca, Ta = self.build(arg, env)
            if poly_head:
                body = POLY[f.a[0]][2]().ty
                out, rout = {}, {}
                res = self.tc(n, need=False)
                if not match_poly(body, ("fun", Ta, res if res is not None else ("fun", NUM, NUM)), out, rout):
                    out, rout = {}, {}
                    if not match_poly(body[1], Ta, out, rout):
                        raise CertError("instance of %s does not match the argument type %s" % (f.a[0], ty_sexp(Ta)))
                nt = poly_kinds(f.a[0]).count("t")
                Tf = subst_tvars(body, [out.get(i, NUM) for i in range(nt)], rout)
                cf = '(avar "%s" %s)' % (f.a[0], insts_sexp(poly_insts(f.a[0], out, rout)))
            if Tf[0] != "fun":
                raise CertError("application of a term of type %s" % ty_sexp(Tf))
            return "(aapp %s %s)" % (cf, self.coerce(ca, Ta, Tf[1], "argument")), Tf[2]
        if k == "let":
            ce, Te = self.build(a[2], env, a[1])
            if a[1] is not None:
                ce = "(aannt %s %s)" % (self.coerce(ce, Te, a[1], "annotated binding"), ty_sexp(a[1]))
                Te = a[1]
            e2 = dict(env)
            e2[a[0]] = Te
            cb, Tb = self.build(a[3], e2, want)
            return '(alet "%s" () %s %s)' % (a[0], ce, cb), Tb
        if k == "plet":
            self.rigid = poly_rigid(a[0])
            try:
                ce, Te = self.build(a[3], env)
            finally:
                self.rigid = None
            if Te != POLY[a[0]][2]().ty:
                raise CertError("helper %s has body type %s" % (a[0], ty_sexp(Te)))
            e2 = dict(env)
            e2[a[0]] = ("poly", a[0])
            cb, Tb = self.build(a[4], e2, want)
            return '(alet "%s" (%s) %s %s)' % (a[0], " ".join(poly_kinds(a[0])), ce, cb), Tb
        if k == "if":
            cc, Tc = self.build(a[0], env)
            if want is None:
                want = self.tc(n, need=False)      # both branches are checked against the type of the whole
            w2, (ct, ce) = self.join(n, [self.build(a[1], env, want), self.build(a[2], env, want)], "if branch")
            return "(aif %s %s %s)" % (self.coerce(cc, Tc, BOOL, "condition"), ct, ce), w2
        if k == "arr":
            t = self.tc(n)
            if t[0] != "arr":
                raise CertError("array typed %r" % (t,))
            # the elements are checked against the element type (the context's, else the one the typechecker resolved)
            elw = want[1] if want is not None and want[0] == "arr" else t[1]
            parts = [self.build(e, env, elw) for e in a[0]]
            el = elw if all(py_subb(T, elw) for _, T in parts) else t[1]
            if parts and not all(py_subb(T, el) for _, T in parts):
                el = parts[0][1]
            return "(aarr %s (%s))" % (ty_sexp(el), " ".join(self.coerce(c, T, el, "array element") for c, T in parts)), ("arr", el)
        if k == "rec":
            if want is not None and want[0] == "dict":
                fw = {f: want[1] for f, _ in a[0]}
            elif want is not None and want[0] == "rec":
                fw = dict(want[1])
            else:
                fw = {}
            parts = [(f, self.build(e, env, fw.get(f))) for f, e in a[0]]
            return ("(arec %s)" % " ".join('("%s" %s)' % (f, c) for f, (c, _) in parts),
                    ("rec", tuple((f, T) for f, (_, T) in parts)))
        if k == "proj":
            ce, Te = self.build(a[0], env)
            if Te[0] != "rec" or a[1] not in dict(Te[1]):
                raise CertError("projection .%s from %s" % (a[1], ty_sexp(Te)))
            return '(aproj %s "%s")' % (ce, a[1]), dict(Te[1])[a[1]]
        if k == "match":
            cs, Ts = self.build(a[0], env)
            if Ts[0] != "enum":
                raise CertError("match on %s" % ty_sexp(Ts))
            if want is None:
                want = self.tc(n, need=False)      # every arm is checked against the type of the whole
            parts = []
            arms = expand_arms(a[1])       # an or-pattern arm is checked once per alternative
            for t, x, b in arms:
                if x is None:
                    parts.append(self.build(b, env, want))
                else:
                    pay = ([u for y, u in Ts[1] if y == t and u is not None] or [None])[0]
                    if pay is None:
                        raise CertError("arm '%s %s of a match on %s" % (t, x, ty_sexp(Ts)))
                    e2 = dict(env)
                    e2[x] = pay
                    parts.append(self.build(b, e2, want))
            if a[2] is not None:
                parts.append(self.build(a[2], env, want))
            if not parts:
                raise CertError("match without arms")
            w2, cs2 = self.join(n, parts, "match arm")
            bs = "(%s)" % " ".join(('("%s" %s)' % (t, c)) if x is None else '("%s" "%s" %s)' % (t, x, c)
                                   for (t, x, _), c in zip(arms, cs2))
            d = (" " + cs2[-1]) if a[2] is not None else ""
            return "(amatch %s %s %s%s)" % (cs, ty_sexp(w2), bs, d), w2
        if k in ("prim2", "prim1"):
            nm = a[0]
            nq, params, res = PRIM_SIGS[nm]
            args = [self.build(x, env) for x in a[1:]]
            if len(args) != len(params):
                raise CertError("arity of %s" % nm)
            out = {}
            for P, (_, T) in zip(params, args):
                self.match_up_to_sub(P, T, out)
            if any(i not in out for i in range(nq)):
                # e.g. the element type of an empty array / dictionary: what the typechecker resolved
                r = self.tc(n, need=False)
                if r is not None:
                    match_poly(res, r, out)
            iv = [out.get(i, NUM) for i in range(nq)]
            cargs = [self.coerce(c, T, subst_tvars(P, iv), "operand of " + nm) for P, (c, T) in zip(params, args)]
            head = "(aprim %s %s)" % (nm, insts_sexp([iv[nq - 1 - i] for i in range(nq)]))
            for c in cargs:
                head = "(aapp %s %s)" % (head, c)
            return head, subst_tvars(res, iv)
        if k in ("and", "or"):
            (c1, T1), (c2, T2) = self.build(a[0], env), self.build(a[1], env)
            c1, c2 = self.coerce(c1, T1, BOOL, "operand"), self.coerce(c2, T2, BOOL, "operand")
            return ("(aif %s %s (abool false))" % (c1, c2) if k == "and" else "(aif %s (abool true) %s)" % (c1, c2)), BOOL
        if k == "annt":
            ce, Te = self.build(a[0], env, n.ty)
            return "(aannt %s %s)" % (self.coerce(ce, Te, n.ty, "annotated term"), ty_sexp(n.ty)), n.ty
        if k == "hole":
            return "(acast (auntyped %s) %s)" % (to_sexp(a[0]), ty_sexp(n.ty)), n.ty
        raise CertError("node %s" % k)

    def match_up_to_sub(self, P, T, out):
        """instantiate the parameter type P so that the argument type T is a subtype of it"""
        if P[0] == "tvar":
            out.setdefault(P[1], T)
        elif P[0] == "dict" and T[0] == "rec":
            if T[1]:
                self.match_up_to_sub(P[1], T[1][0][1], out)
        elif P[0] in ("arr", "dict") and T[0] == P[0]:
            self.match_up_to_sub(P[1], T[1], out)
        elif P[0] == "fun" and T[0] == "fun":
            self.match_up_to_sub(P[1], T[1], out)
            self.match_up_to_sub(P[2], T[2], out)


def cert_from_tc(prog, terms, idents):
    """-> (certificate s-expression, None) or (None, reason)"""
    global ANY_ROW_STRATEGY
    why = None
    try:
        for strategy in (0, 1, 2):        # how to choose the payload types the typechecker left unconstrained
            ANY_ROW_STRATEGY = strategy
            try:
                cb = CertBuilder(terms, idents)
                c, T = cb.build(prog["ast"], {}, prog["type"])
                return cb.coerce(c, T, prog["type"], "the block"), None
            except CertError as ex:
                why = why or str(ex)
    finally:
        ANY_ROW_STRATEGY = 0
    return None, why


# ---------------------------------------------------------------------- mutants (still fragment syntax)

def clone(n):
    if isinstance(n, N):
        m = N(n.k, clone(n.a), n.ty, clone(n.x) if isinstance(n.x, list) else n.x)
        return m
    if isinstance(n, list):
        return [clone(x) for x in n]
    if isinstance(n, tuple):
        return tuple(clone(x) for x in n)
    return n


def typed_nodes(n, acc):
    """nodes of typed code (the interior of holes is not entered)"""
    if not isinstance(n, N):
        if isinstance(n, (list, tuple)):
            for x in n:
                typed_nodes(x, acc)
        return acc
    acc.append(n)
    if n.k == "hole":
        return acc
    if n.k == "plet":
        typed_nodes(n.a[4], acc)
        return acc
    for x in n.a:
        typed_nodes(x, acc)
    return acc


OTHER_PRIM2 = {"add": ["concat", "lt", "arrcat"], "sub": ["concat", "eq"], "mul": ["concat", "le"], "div": ["concat"],
               "lt": ["add", "concat"], "le": ["sub"], "gt": ["mul"], "ge": ["concat"],
               "concat": ["add", "arrcat", "lt"], "arrcat": ["concat", "add"], "eq": ["add", "concat", "lt"],
               "arrat": ["arrmap", "add", "recget"], "arrmap": ["arrat", "arrcat"],
               "recget": ["arrat", "rechas"], "rechas": ["recget", "concat"]}


def other_type(T, rng):
    cands = [U for U in [NUM, STR, BOOL, ("arr", NUM), bare("A"), ("rec", (("fa", NUM),))] if U != T]
    return rng.choice(cands)


def mutate(prog, rng):
    """one mutation of the typed part of a generated program; returns a new program dict or None"""
    ast = clone(prog["ast"])
    T = prog["type"]
    nodes = typed_nodes(ast, [])
    what = None
    # scope mutation: use the payload binder of an earlier match arm in a later arm (or in the wildcard arm)
    if rng.chance(1, 6):
        ms = [m for m in nodes if m.k == "match" and any(x is not None for _, x, _ in m.a[1])]
        rng_ms = rng.shuffle(ms)
        for m in rng_ms:
            arms = m.a[1]
            pay = dict(m.a[0].ty[1]) if m.a[0].ty and m.a[0].ty[0] == "enum" else {}
            done = False
            for i, (t, x, _) in enumerate(arms):
                if x is None or pay.get(t) is None:
                    continue
                later = [b for _, _, b in arms[i + 1:]] + ([m.a[2]] if m.a[2] is not None else [])
                cands = [nd for b in later for nd in typed_nodes(b, []) if nd.ty == pay[t] and nd.k != "hole"]
                if cands:
                    nd = rng.choice(cands)
                    nd.k, nd.a, nd.x = "var", [x], None
                    what = "other-arm-binder"
                    done = True
                    break
            if done:
                break
    # an or-pattern matched by a later alternative whose payload has another kind
    if not what and rng.chance(1, 2):
        ms = [m for m in nodes if m.k == "match" and any(isinstance(t, tuple) and x is not None for t, x, _ in m.a[1])]
        if ms:
            m = rng.choice(ms)
            t, x, _ = rng.choice([arm for arm in m.a[1] if isinstance(arm[0], tuple) and arm[1] is not None])
            pay = dict(m.a[0].ty[1]).get(t[0]) if m.a[0].ty and m.a[0].ty[0] == "enum" else None
            if pay is not None:
                m.a[0] = N("variant", [rng.choice(t[1:]), Frag(rng, holes=False).lit(other_type(pay, rng), [], 1)], m.a[0].ty)
                what = "or-pattern-later-alternative-kind"
    # the record passed to a function gets one more field, or a field of another kind
    if not what and rng.chance(1, 3):
        apps = [a for a in nodes if a.k == "app" and isinstance(a.a[1], N) and a.a[1].k == "rec"]
        if apps:
            rec = rng.choice(apps).a[1]
            used = [f for f, _ in rec.a[0]]
            have = [e.ty for _, e in rec.a[0] if e.ty]
            T0 = have[0] if have else NUM
            if rec.a[0] and rng.chance(1, 3):
                i = rng.below(len(rec.a[0]))
                rec.a[0][i] = (rec.a[0][i][0], Frag(rng, holes=False).lit(other_type(T0, rng), [], 1))
                what = "argument-record-field-kind"
            else:
                new = rng.choice([f for f in ["ab", "zz", "fe"] + FIELDS if f not in used])
                rec.a[0].append((new, Frag(rng, holes=False).lit(other_type(T0, rng), [], 1)))
                rec.a[0].sort(key=lambda fe: fe[0])
                what = "argument-record-extra-field"
    # the order of two neighbouring let-bindings (inference depends on the order of the uses of a variable)
    if not what and rng.chance(1, 8):
        chains = [l for l in nodes if l.k == "let" and isinstance(l.a[3], N) and l.a[3].k == "let" and l.a[1] is None and l.a[3].a[1] is None]
        if chains:
            l = rng.choice(chains)
            inner = l.a[3]
            l.a[0], l.a[2], inner.a[0], inner.a[2] = inner.a[0], inner.a[2], l.a[0], l.a[2]
            what = "swap-let-bindings"
    for _ in range(20):
        if what:
            break
        n = rng.choice(nodes)
        k = n.k
        c = rng.below(10)
        if k == "prim2" and c < 5 and n.a[0] in OTHER_PRIM2:
            n.a[0] = rng.choice(OTHER_PRIM2[n.a[0]])
            what = "swap-primitive"
        elif k == "prim2" and c < 7:
            n.a[1], n.a[2] = n.a[2], n.a[1]
            what = "swap-operands"
        elif k == "prim1":
            n.a[0] = rng.choice([x for x in ["strlen", "arrlen", "not", "recfields", "recvalues"] if x != n.a[0]])
            what = "swap-primitive"
        elif k in ("num", "str", "bool"):
            k2 = rng.choice([x for x in ["num", "str", "bool"] if x != k])
            n.k = k2
            n.a = {"num": [rng.range(0, 9), 1], "str": [rng.choice(WORDS)], "bool": [rng.chance(1, 2)]}[k2]
            what = "literal-kind"
        elif k == "proj":
            n.a[1] = rng.choice([f for f in FIELDS + ["zz"] if f != n.a[1]])
            what = "projection-field"
        elif k == "rec" and n.a[0]:
            i = rng.below(len(n.a[0]))
            used = [f for f, _ in n.a[0]]
            new = rng.choice([f for f in FIELDS + ["zz"] if f not in used] or ["zy"])
            n.a[0][i] = (new, n.a[0][i][1])
            n.a[0].sort(key=lambda fe: fe[0])
            what = "record-literal-field"
        elif k == "match" and n.a[2] is None and len(n.a[1]) >= 2:
            del n.a[1][rng.below(len(n.a[1]))]
            what = "drop-match-arm"
        elif k == "match" and n.a[2] is not None and c < 5:
            n.a[2] = None
            what = "drop-wildcard-arm"
        elif k in ("tag", "variant"):
            n.a[0] = rng.choice([t for t in TAGS + ["Zz"] if t != n.a[0]])
            what = "tag"
        elif k == "annt":
            n.x = other_type(n.ty, rng)
            n.ty = n.x
            n.x = None
            what = "inner-annotation"
        elif k == "let" and n.a[1] is not None:
            n.a[1] = other_type(n.a[1], rng)
            what = "let-annotation"
        elif k == "hole" and c < 4:
            n.ty = other_type(n.ty, rng)
            what = "hole-contract"
        elif k == "if" and c < 5:
            n.a[rng.range(1, 2)] = Frag(rng, holes=False).lit(other_type(n.ty or NUM, rng), [], 1)
            what = "if-branch-kind"
        elif k == "app" and c < 3:
            n.a[0], n.a[1] = n.a[1], n.a[0]
            if n.a[0].k == "tag":        # `'T e` is the syntax of a variant, not of an application
                n.k, n.a = "variant", [n.a[0].a[0], n.a[1]]
            what = "swap-function-argument"
        if what:
            break
    if not what:
        return None
    if rng.chance(1, 12):
        T = other_type(T, rng)
        what += "+block-annotation"
    pr = Printer()
    pr.out("(")
    pr.term(ast)
    pr.out(") : ")
    a0 = pr.pos
    pr.out(ty_src(T))
    return {"src": pr.text(), "sexp": to_sexp(ast), "cert": None, "type": T, "ast": ast, "mutation": what,
            "features": prog["features"], "bad_holes": prog["bad_holes"], "err_sources": prog["err_sources"] + 1,
            "holes": pr.holes, "hole_annots": pr.hole_annots, "own_annot": (a0, pr.pos), "nodes": pr.nodes}
