"""C01 — generator of programs *inside the fragment of the Coq theorem* (coq/Types/Syntax.v), printed
both as Nickel source and as the s-expression read by the extracted evaluator (ocaml/c01/driver.ml).

Fragment: Number/String/Bool, arrays, functions, let (plain, annotated, polymorphic annotated),
if, closed records + projection, enum tags + match (exhaustive or with a wildcard arm), the
primitives of Types/Syntax.v (+ - * / < <= > >= ! ++ @ == std.string.length std.array.length
std.array.at std.array.map, && || as if), inner annotations (e : T), and *closed* holes of untyped
code behind a first-order contract ((u | T)), some of them deliberately ill-kinded or failing.

Terms are pairs (src, sexp).  Types are tuples: ("num",) ("str",) ("bool",) ("dyn",) ("arr", T)
("fun", A, B) ("rec", ((f, T), ...)) with fields sorted, ("enum", (tag, ...)) sorted.
"""
from vlib import core

NUM, STR, BOOL, DYN = ("num",), ("str",), ("bool",), ("dyn",)
FIELDS = ["fa", "fb", "fc", "fd"]
TAGS = ["A", "B", "C", "D"]
WORDS = ["", "a", "bc", "nickel", "x y"]


def ty_src(t):
    k = t[0]
    if k == "num":
        return "Number"
    if k == "str":
        return "String"
    if k == "bool":
        return "Bool"
    if k == "dyn":
        return "Dyn"
    if k == "arr":
        return "Array (%s)" % ty_src(t[1])
    if k == "fun":
        return "(%s) -> (%s)" % (ty_src(t[1]), ty_src(t[2]))
    if k == "rec":
        return "{%s}" % ", ".join("%s : %s" % (f, ty_src(u)) for f, u in t[1])
    if k == "enum":
        return "[| %s |]" % ", ".join("'" + x for x in t[1])
    if k == "tvar":
        return t[1]
    raise ValueError(t)


def ty_sexp(t, tvars=()):
    k = t[0]
    if k in ("num", "str", "bool", "dyn"):
        return k
    if k == "arr":
        return "(arr %s)" % ty_sexp(t[1], tvars)
    if k == "fun":
        return "(fun %s %s)" % (ty_sexp(t[1], tvars), ty_sexp(t[2], tvars))
    if k == "rec":
        return "(rec %s)" % " ".join('("%s" %s)' % (f, ty_sexp(u, tvars)) for f, u in t[1])
    if k == "enum":
        return "(enum %s)" % " ".join('"%s"' % x for x in t[1])
    if k == "tvar":
        return "(tvar %d)" % list(tvars).index(t[1])
    raise ValueError(t)


def first_order(t):
    k = t[0]
    if k in ("num", "str", "bool", "dyn", "enum"):
        return True
    if k == "arr":
        return first_order(t[1])
    if k == "rec":
        return all(first_order(u) for _, u in t[1])
    return False


def sstr(s):
    return '"' + s.replace("\\", "\\\\").replace('"', '\\"') + '"'


def prim2(name, a, b):
    return "(app (app (prim %s) %s) %s)" % (name, a, b)


# polymorphic helpers bound at the top of (some) programs: name -> (annotation, source body, model body, arity info)
POLY = {
    "pid": ("forall a. a -> a", "fun x => x", '(lam "x" (var "x"))'),
    "pconst": ("forall a b. a -> b -> a", "fun x y => x", '(lam "x" (lam "y" (var "x")))'),
    "ptwice": ("forall a. (a -> a) -> a -> a", "fun f x => f (f x)",
               '(lam "f" (lam "x" (app (var "f") (app (var "f") (var "x")))))'),
    "pmap": ("forall a b. (a -> b) -> Array a -> Array b", "fun f xs => std.array.map f xs",
             '(lam "f" (lam "xs" (app (app (prim arrmap) (var "f")) (var "xs"))))'),
}


class Frag:
    def __init__(self, rng, holes=True):
        self.rng = rng
        self.n = 0
        self.holes = holes
        self.features = set()
        self.bad_holes = 0
        self.polys = []

    def fresh(self, p="x"):
        self.n += 1
        return "%s%d" % (p, self.n)

    # ------------------------------------------------------------------ types
    def gen_type(self, depth=2, fun_ok=True):
        r = self.rng
        opts = [(NUM, 5), (STR, 3), (BOOL, 3)]
        if depth > 0:
            opts += [("arr", 3), ("rec", 3), ("enum", 2)]
            if fun_ok:
                opts += [("fun", 2)]
        c = r.weighted(opts)
        if c == "arr":
            return ("arr", self.gen_type(depth - 1, fun_ok))
        if c == "rec":
            n = r.range(1, 3)
            fs = sorted(r.shuffle(FIELDS)[:n])
            return ("rec", tuple((f, self.gen_type(depth - 1, fun_ok)) for f in fs))
        if c == "enum":
            n = r.range(1, 3)
            return ("enum", tuple(sorted(r.shuffle(TAGS)[:n])))
        if c == "fun":
            return ("fun", self.gen_type(depth - 1, False), self.gen_type(depth - 1, fun_ok))
        return c

    # ------------------------------------------------------------------ typed terms
    def lit(self, T, ctx, size):
        r = self.rng
        k = T[0]
        if k == "num":
            c = r.below(10)
            if c < 7:
                n = r.range(0, 9)
                return (str(n), "(num %d 1)" % n)
            if c < 9:
                n = r.range(1, 40)
                return ("(-%d)" % n, "(num -%d 1)" % n)
            p, q = r.choice([(1, 2), (3, 2), (5, 4), (1, 10)])
            return ({(1, 2): "0.5", (3, 2): "1.5", (5, 4): "1.25", (1, 10): "0.1"}[(p, q)], "(num %d %d)" % (p, q))
        if k == "str":
            s = r.choice(WORDS)
            return (sstr(s), "(str %s)" % sstr(s))
        if k == "bool":
            b = r.chance(1, 2)
            return ("true" if b else "false", "(bool %s)" % ("true" if b else "false"))
        if k == "arr":
            n = r.range(0, 3)
            es = [self.gen(ctx, T[1], max(1, size // (n + 1))) for _ in range(n)]
            return ("[%s]" % ", ".join(e[0] for e in es), "(arr %s)" % " ".join(e[1] for e in es))
        if k == "rec":
            es = [(f, self.gen(ctx, u, max(1, size // (len(T[1]) + 1)))) for f, u in T[1]]
            return ("{%s}" % ", ".join("%s = %s" % (f, e[0]) for f, e in es),
                    "(rec %s)" % " ".join('("%s" %s)' % (f, e[1]) for f, e in es))
        if k == "enum":
            t = r.choice(T[1])
            return ("'" + t, '(tag "%s")' % t)
        if k == "fun":
            x = self.fresh()
            b = self.gen(ctx + [(x, T[1])], T[2], size - 1)
            self.features.add("lambda")
            return ("(fun %s => %s)" % (x, b[0]), '(lam "%s" %s)' % (x, b[1]))
        raise ValueError(T)

    def vars_of(self, ctx, T):
        return [x for (x, U) in ctx if U == T]

    def gen(self, ctx, T, size):
        r = self.rng
        vs = self.vars_of(ctx, T)
        if size <= 1:
            if vs and r.chance(2, 3):
                x = r.choice(vs)
                return (x, '(var "%s")' % x)
            return self.lit(T, ctx, 1)
        k = T[0]
        prods = [("lit", 3), ("if", 2), ("let", 2), ("app", 2), ("annt", 1)]
        if vs:
            prods.append(("var", 3))
        if self.holes and first_order(T):
            prods.append(("hole", 2))
        if k == "num":
            prods += [("arith", 4), ("strlen", 1), ("arrlen", 1)]
        if k == "bool":
            prods += [("cmp", 3), ("eq", 2), ("not", 1), ("andor", 2)]
        if k == "str":
            prods += [("concat", 3)]
        if k == "arr":
            prods += [("arrcat", 2), ("map", 3)]
        prods += [("proj", 2), ("match", 2), ("at", 1)]
        if self.polys:
            prods.append(("poly", 3))
        p = r.weighted(prods)
        h = max(1, size // 2)
        if p == "var":
            x = r.choice(vs)
            return (x, '(var "%s")' % x)
        if p == "lit":
            return self.lit(T, ctx, size)
        if p == "if":
            c, a, b = self.gen(ctx, BOOL, h), self.gen(ctx, T, h), self.gen(ctx, T, h)
            self.features.add("if")
            return ("(if %s then %s else %s)" % (c[0], a[0], b[0]), "(if %s %s %s)" % (c[1], a[1], b[1]))
        if p == "let":
            U = self.gen_type(1)
            x = self.fresh()
            e = self.gen(ctx, U, h)
            b = self.gen(ctx + [(x, U)], T, h)
            if r.chance(1, 3):
                self.features.add("let-annotated")
                return ("(let %s : %s = %s in %s)" % (x, ty_src(U), e[0], b[0]),
                        '(let "%s" (annt %s %s) %s)' % (x, e[1], ty_sexp(U), b[1]))
            self.features.add("let")
            return ("(let %s = %s in %s)" % (x, e[0], b[0]), '(let "%s" %s %s)' % (x, e[1], b[1]))
        if p == "app":
            fs = [(x, U) for (x, U) in ctx if U[0] == "fun" and U[2] == T]
            if fs and r.chance(2, 3):
                f, U = r.choice(fs)
                a = self.gen(ctx, U[1], h)
                self.features.add("app-var")
                return ("(%s %s)" % (f, a[0]), '(app (var "%s") %s)' % (f, a[1]))
            A = self.gen_type(1, False)
            f = self.lit(("fun", A, T), ctx, h)
            a = self.gen(ctx, A, h)
            self.features.add("app-lambda")
            return ("(%s %s)" % (f[0], a[0]), "(app %s %s)" % (f[1], a[1]))
        if p == "annt":
            e = self.gen(ctx, T, size - 1)
            self.features.add("inner-annotation")
            return ("(%s : %s)" % (e[0], ty_src(T)), "(annt %s %s)" % (e[1], ty_sexp(T)))
        if p == "hole":
            return self.hole(T, size)
        if p == "arith":
            op, nm = r.weighted([(("+", "add"), 4), (("-", "sub"), 3), (("*", "mul"), 3), (("/", "div"), 1)])
            a, b = self.gen(ctx, NUM, h), self.gen(ctx, NUM, h)
            self.features.add("arith" + op)
            return ("(%s %s %s)" % (a[0], op, b[0]), prim2(nm, a[1], b[1]))
        if p == "strlen":
            a = self.gen(ctx, STR, size - 1)
            self.features.add("std.string.length")
            return ("(std.string.length %s)" % a[0], "(app (prim strlen) %s)" % a[1])
        if p == "arrlen":
            a = self.gen(ctx, ("arr", self.gen_type(1)), size - 1)
            self.features.add("std.array.length")
            return ("(std.array.length %s)" % a[0], "(app (prim arrlen) %s)" % a[1])
        if p == "cmp":
            op, nm = r.choice([("<", "lt"), ("<=", "le"), (">", "gt"), (">=", "ge")])
            a, b = self.gen(ctx, NUM, h), self.gen(ctx, NUM, h)
            self.features.add("compare")
            return ("(%s %s %s)" % (a[0], op, b[0]), prim2(nm, a[1], b[1]))
        if p == "eq":
            U = r.choice([NUM, STR, BOOL, ("enum", ("A", "B"))])
            a, b = self.gen(ctx, U, h), self.gen(ctx, U, h)
            self.features.add("==")
            return ("(%s == %s)" % (a[0], b[0]), prim2("eq", a[1], b[1]))
        if p == "not":
            a = self.gen(ctx, BOOL, size - 1)
            self.features.add("!")
            return ("(!%s)" % a[0], "(app (prim not) %s)" % a[1])
        if p == "andor":
            a, b = self.gen(ctx, BOOL, h), self.gen(ctx, BOOL, h)
            self.features.add("&&||")
            if r.chance(1, 2):
                return ("(%s && %s)" % (a[0], b[0]), "(if %s %s (bool false))" % (a[1], b[1]))
            return ("(%s || %s)" % (a[0], b[0]), "(if %s (bool true) %s)" % (a[1], b[1]))
        if p == "concat":
            a, b = self.gen(ctx, STR, h), self.gen(ctx, STR, h)
            self.features.add("++")
            return ("(%s ++ %s)" % (a[0], b[0]), prim2("concat", a[1], b[1]))
        if p == "arrcat":
            a, b = self.gen(ctx, T, h), self.gen(ctx, T, h)
            self.features.add("@")
            return ("(%s @ %s)" % (a[0], b[0]), prim2("arrcat", a[1], b[1]))
        if p == "map":
            A = self.gen_type(1, False)
            f = self.gen(ctx, ("fun", A, T[1]), h)
            a = self.gen(ctx, ("arr", A), h)
            self.features.add("std.array.map")
            return ("(std.array.map %s %s)" % (f[0], a[0]), prim2("arrmap", f[1], a[1]))
        if p == "proj":
            # a record type with a field of type T
            others = [(f, self.gen_type(1)) for f in r.shuffle(FIELDS)[:r.range(0, 2)]]
            f = r.choice([g for g in FIELDS if g not in [o[0] for o in others]])
            R = ("rec", tuple(sorted(others + [(f, T)])))
            e = self.gen(ctx, R, size - 1)
            self.features.add("projection")
            return ("(%s).%s" % (e[0], f), '(proj %s "%s")' % (e[1], f))
        if p == "match":
            n = r.range(1, 3)
            tags = tuple(sorted(r.shuffle(TAGS)[:n]))
            s = self.gen(ctx, ("enum", tags), h)
            default = r.chance(1, 3)
            arms = list(tags)
            if default and len(arms) > 1:
                arms = arms[:-1]
            bs = [(t, self.gen(ctx, T, max(1, h // len(tags)))) for t in arms]
            src_arms = ["'%s => %s" % (t, b[0]) for t, b in bs]
            sx = "(%s)" % " ".join('("%s" %s)' % (t, b[1]) for t, b in bs)
            if default:
                d = self.gen(ctx, T, max(1, h // len(tags)))
                src_arms.append("_ => %s" % d[0])
                self.features.add("match-default")
                return ("(%s |> match { %s })" % (s[0], ", ".join(src_arms)), "(match %s %s %s)" % (s[1], sx, d[1]))
            self.features.add("match")
            return ("(%s |> match { %s })" % (s[0], ", ".join(src_arms)), "(match %s %s)" % (s[1], sx))
        if p == "at":
            a = self.gen(ctx, ("arr", T), h)
            i = r.range(0, 3)
            self.features.add("std.array.at")
            return ("(std.array.at %d %s)" % (i, a[0]), prim2("arrat", "(num %d 1)" % i, a[1]))
        if p == "poly":
            name = r.choice(self.polys)
            self.features.add("poly:" + name)
            if name == "pid":
                a = self.gen(ctx, T, size - 1)
                return ("(pid %s)" % a[0], '(app (var "pid") %s)' % a[1])
            if name == "pconst":
                a, b = self.gen(ctx, T, h), self.gen(ctx, self.gen_type(1), h)
                return ("(pconst %s %s)" % (a[0], b[0]), '(app (app (var "pconst") %s) %s)' % (a[1], b[1]))
            if name == "ptwice":
                f, a = self.gen(ctx, ("fun", T, T), h), self.gen(ctx, T, h)
                return ("(ptwice %s %s)" % (f[0], a[0]), '(app (app (var "ptwice") %s) %s)' % (f[1], a[1]))
            if name == "pmap":
                if k != "arr":
                    a = self.gen(ctx, T, size - 1)
                    return ("(pid %s)" % a[0], '(app (var "pid") %s)' % a[1]) if "pid" in self.polys else a
                A = self.gen_type(1, False)
                f, a = self.gen(ctx, ("fun", A, T[1]), h), self.gen(ctx, ("arr", A), h)
                return ("(pmap %s %s)" % (f[0], a[0]), '(app (app (var "pmap") %s) %s)' % (f[1], a[1]))
        raise ValueError(p)

    # ------------------------------------------------------------------ holes of untyped code
    def hole(self, T, size):
        """(u | T) with u closed untyped code."""
        r = self.rng
        flavour = r.weighted([("good", 12), ("wrong-kind", 2), ("fails", 1)])
        if self.bad_holes >= 1 and flavour != "good":
            flavour = "good"       # at most one failing hole per program (keeps the first error unambiguous)
        if flavour != "good":
            self.bad_holes += 1
        self.features.add("hole-" + flavour)
        u = self.untyped(T, flavour, size)
        return ("(%s | %s)" % (u[0], ty_src(T)), "(cast (untyped %s) %s)" % (u[1], ty_sexp(T)))

    def untyped_value(self, T, depth=0):
        """a closed untyped term whose value satisfies T"""
        r = self.rng
        k = T[0]
        if k == "dyn":
            return self.untyped_value(r.choice([NUM, STR, BOOL, ("arr", NUM)]), depth)
        if k in ("num", "str", "bool", "enum"):
            base = self.lit(T, [], 1)
        elif k == "arr":
            es = [self.untyped_value(T[1], depth + 1) for _ in range(r.range(0, 2))]
            base = ("[%s]" % ", ".join(e[0] for e in es), "(arr %s)" % " ".join(e[1] for e in es))
        elif k == "rec":
            es = [(f, self.untyped_value(u, depth + 1)) for f, u in T[1]]
            base = ("{%s}" % ", ".join("%s = %s" % (f, e[0]) for f, e in es),
                    "(rec %s)" % " ".join('("%s" %s)' % (f, e[1]) for f, e in es))
        else:
            raise ValueError(T)
        c = r.below(8) if depth < 2 else 9
        if c == 0:
            z = self.fresh("u")
            return ("((fun %s => %s) 1)" % (z, base[0]), '(app (lam "%s" %s) (num 1 1))' % (z, base[1]))
        if c == 1:
            z = self.fresh("u")
            return ("(let %s = %s in %s)" % (z, base[0], z), '(let "%s" %s (var "%s"))' % (z, base[1], z))
        if c == 2:
            return ("(if 1 < 2 then %s else \"no\")" % base[0],
                    "(if %s %s (str \"no\"))" % (prim2("lt", "(num 1 1)", "(num 2 1)"), base[1]))
        if c == 3:
            return ("({zz = %s}).zz" % base[0], '(proj (rec ("zz" %s)) "zz")' % base[1])
        return base

    def untyped(self, T, flavour, size):
        r = self.rng
        if flavour == "good":
            return self.untyped_value(T)
        if flavour == "wrong-kind":
            others = [U for U in [NUM, STR, BOOL, ("arr", NUM), ("rec", (("fa", NUM),)), ("enum", ("Zz",))]
                      if U[0] != T[0] and T[0] != "dyn"]
            if T[0] == "rec":
                # a record with a missing or an extra field, or an ill-kinded field
                c = r.below(3)
                fs = list(T[1])
                if c == 0 and len(fs) > 0:
                    U = ("rec", tuple(fs[1:]))
                elif c == 1:
                    U = ("rec", tuple(sorted(fs + [("zq", NUM)])))
                else:
                    f0, t0 = fs[0]
                    U = ("rec", tuple([(f0, STR if t0[0] != "str" else NUM)] + fs[1:]))
                return self.untyped_value(U)
            if T[0] == "arr" and r.chance(1, 2):
                inner = [U for U in [NUM, STR, BOOL] if U[0] != T[1][0]]
                return self.untyped_value(("arr", r.choice(inner)))
            if not others:
                return self.untyped_value(T)
            return self.untyped_value(r.choice(others))
        # fails: untyped code raising a dynamic error of its own
        c = r.below(4)
        if c == 0:
            return ("(1 2)", "(app (num 1 1) (num 2 1))")
        if c == 1:
            return ('("a" + 1)', prim2("add", '(str "a")', "(num 1 1)"))
        if c == 2:
            return ("({fa = 1}).zz", '(proj (rec ("fa" (num 1 1))) "zz")')
        return ("('Zq |> match { 'Zr => 1 })", '(match (tag "Zq") (("Zr" (num 1 1))))')

    # ------------------------------------------------------------------ whole programs
    def program(self, size):
        r = self.rng
        T = self.gen_type(2)
        npoly = r.weighted([(0, 3), (1, 3), (2, 2)])
        self.polys = r.shuffle(sorted(POLY))[:npoly]
        body = self.gen([], T, size)
        src, sx = body
        for name in reversed(self.polys):
            ann, s, m = POLY[name]
            src = "let %s : %s = %s in %s" % (name, ann, s, src)
            sx = '(let "%s" %s %s)' % (name, m, sx)
        src = "(%s) : %s" % (src, ty_src(T))
        return {"src": src, "sexp": sx, "type": T, "features": sorted(self.features), "bad_holes": self.bad_holes}


def gen_program(rng, size, holes=True):
    return Frag(rng, holes).program(size)


# ---------------------------------------------------------------------- comparing outcomes

ALLOWED_EQUIV = {"Index": {"OtherErr", "Blame+", "Blame-"}}


def canon_impl(line):
    """harness answer -> (class-or-OK, tree)"""
    if line.startswith("OK "):
        return "OK", line[3:]
    parts = line.split()
    return (parts[1] if len(parts) > 1 else "?"), ""


def canon_model(line):
    if line.startswith("OK "):
        return "OK", line[3:], None
    parts = line.split()
    cls = parts[1] if len(parts) > 1 else "?"
    origin = parts[2] if len(parts) > 2 else None
    return cls, "", origin


def agree(impl_line, model_line):
    ic, it = canon_impl(impl_line)
    mc, mt, mo = canon_model(model_line)
    if ic == "OK" or mc == "OK":
        return ic == mc and it == mt
    if ic == mc:
        return True
    return ic in ALLOWED_EQUIV.get(mc, ())
