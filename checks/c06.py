"""C06 — merging follows the documented priority and metadata rules."""
from vlib import core
from checks import mergegen as g
from checks import mergelib as m

META = {
    "harness_bins": ["nkeval", "c06prio"],
    "extract": "C05.v",
    "model_dir": "c05",
    "technique": "Coq lemmas stating each documented rule (priority order = MergePriority::cmp, higher wins, equal priorities recurse, unequal atoms conflict, optional iff both, hidden if either, one-sided fields kept, export of hidden/optional/missing/conflicting fields) on the data-merge algebra; the algebra is tied to the interpreter by exhaustive enumeration of a small universe of binary merges and the priority order by a table dumped from the running MergePriority::cmp",
    "level_text": "coq/Props/C06.v states the rule list of doc/manual/merging.md as theorems about the algebra of coq/Merge/Algebra.v (for all priorities incl. arbitrary rationals, all field contents). The algebra is the independent executable reading of the manual; the tie is (a) MergePriority::cmp/eq evaluated by the real code on a grid of priorities vs pcmp_src (and vs the canonical order used in the proofs: theorem C06_priority_order_is_cmp), (b) every binary merge over a bounded universe (1-2 field names, 2 atoms + nested record, the five priority forms, optional, not_exported, missing value, a contract) evaluated by the interpreter and by the extracted algebra, exported tree / error kind compared (exhaustive single-field universe in the thorough tier, seeded sample in quick).",
    "level_note": "Trusted: Coq kernel; extraction; harness nkeval/c06prio; the enumeration in checks/c06.py. The algebra is modelled (a reading of merge.rs + the manual), tied by correspondence only. Error kinds are compared as sets (the interpreter reports the first error it meets).",
}

PRIOS = ["d", "x", ("p", 1, 1), ("p", -1, 2), "F"]
GRID = ["d", "x", "F", "0/1", "1/1", "-1/1", "1/2", "2/4", "-1/2", "3/2", "5/1", "-7/3", "1/3", "2/6", "0/5"]


def field_options(k, depth):
    """every way of writing (or omitting) field k"""
    vals = [None, ("n", 1, 1), ("s", 1)]
    if depth > 0:
        vals += [("r", [(1, "x", 0, 0, [], ("n", 1, 1))]), ("r", [(1, "d", 0, 0, [], ("n", 2, 1))])]
    opts = [None]
    for p in PRIOS:
        for o in (0, 1):
            for h in (0, 1):
                for cs in ([], [0]):
                    for v in vals:
                        opts.append((k, p, o, h, cs, v))
    return opts


def universe1():
    fo = field_options(0, 1)
    recs = [("r", [f] if f else []) for f in fo]
    return [("m", a, b) for a in recs for b in recs]


def sample2(rng, n):
    fo0, fo1 = field_options(0, 1), field_options(1, 0)
    out = []
    for _ in range(n):
        def rec():
            fs = [f for f in (rng.choice(fo0), rng.choice(fo1)) if f]
            return ("r", rng.shuffle(fs))
        out.append(("m", rec(), rec()))
    return out


def run(ck):
    ck.coq("Props.C06", clean=(ck.tier == "thorough"))
    if not ck.harness(["nkeval", "c06prio"]):
        return
    exe = m.model_exe(ck)
    if not exe:
        return
    # (a) translator-run priority table
    pairs = ["%s %s" % (a, b) for a in GRID for b in GRID]

    def sx(p):
        return p if p in "dxF" else "(p %s %s)" % tuple(p.split("/"))
    rc, rust, err = core.run_lines(core.harness_bin("c06prio"), [], pairs)
    rc2, mod, err2 = core.run_lines(exe, [], ["cmp %s %s" % (sx(a), sx(b)) for a in GRID for b in GRID])
    bad = []
    for pr, r, mm in zip(pairs, rust, mod):
        rr = r.split()
        ms = mm.split()
        if len(rr) != 2 or len(ms) != 2 or rr[0] != ms[0] or ms[0] != ms[1] or (rr[0] == "Eq") != (rr[1] == "eq"):
            bad.append("%s: rust %s model %s" % (pr, r, mm))
    ck.obligation("priority-table: MergePriority::cmp/eq == pcmp_src on %d pairs" % len(pairs), "translator-table", not bad and rc == 0 and rc2 == 0,
                  "\n".join(bad[:10]) + err + err2)
    ck.coverage["priority_grid"] = GRID
    # (b) bounded universe of binary merges
    rng = core.SplitMix64(ck.seed * 104729 + 6)
    uni = universe1()
    ck.coverage["universe_single_field_pairs"] = len(uni)
    if ck.tier == "quick":
        exprs = [uni[rng.below(len(uni))] for _ in range(1800)] + sample2(rng, 700)
    else:
        exprs = uni + sample2(rng, 20000)
        ck.coverage["exhaustive"] = True
    corpus = [("m", ("r", [(0, "d", 0, 0, [], ("n", 1, 1))]), ("r", [(0, "x", 0, 0, [], ("n", 2, 1))])),
              ("m", ("r", [(0, "F", 0, 0, [], ("n", 1, 1))]), ("r", [(0, ("p", 5, 1), 0, 0, [], ("n", 2, 1))])),
              ("m", ("r", [(0, "x", 1, 0, [], None)]), ("r", [(0, "x", 1, 0, [], None)])),
              ("m", ("r", [(0, "x", 0, 1, [], ("n", 1, 1))]), ("r", [(0, "x", 0, 0, [], ("n", 1, 1))]))]
    # chains of three definitions of the same field (a priority is only observable through a further merge)
    chains = [g.gen_chain_triple(rng.fork()) for _ in range(500)] if ck.tier == "quick" else g.all_chain_triples(flags=False)
    exprs = corpus + exprs + [("m", ("m", a, b), c) for (a, b, c) in chains] + [("m", a, ("m", b, c)) for (a, b, c) in chains[:len(chains) // 2]]
    ck.coverage["chains_of_three"] = len(chains)
    # repeated definitions of the field inside ONE literal (combined statically by the AST conversion, not by the
    # run-time merge) must behave like the merge of the single definitions, in particular in a FURTHER merge
    pieces = [("m", ("r", a[1] + b[1]), c) for (a, b, c) in chains if a[1] and b[1]]
    pieces += [("m", c, ("r", a[1] + b[1])) for (a, b, c) in chains[:len(chains) // 2] if a[1] and b[1]]
    pieces += [("r", a[1] + b[1] + c[1]) for (a, b, c) in chains[:len(chains) // 3] if a[1] and b[1] and c[1]]
    exprs = exprs + pieces
    ck.coverage["repeated_definitions_in_one_literal"] = len(pieces)
    impl, mod = m.run_both(ck, exe, exprs)
    ndis = 0
    for e, a, b in zip(exprs, impl, mod):
        ck.case(key=g.sexp(e), nontrivial=(e[0] == "r" or e[1][0] == "m" or e[2][0] == "m" or (len(e[1][1]) > 0 and len(e[2][1]) > 0)))
        ck.hist("outcome", m.outcome_class(a))
        if m.crashed(a):
            ck.violation("crash", "interpreter crashed on " + g.nickel(e), {"program": g.program(e), "impl": a})
        if "!WF" in b or b.startswith("BAD"):
            ck.obligation("generator-in-domain", "internal", False, g.nickel(e) + " -> " + b)
        elif not m.agree(a, b):
            # the independent reading of the manual and the interpreter disagree on this merge: a violation of
            # "the exported result is exactly what these rules give" with the merge expression as replay
            ndis += 1
            ck.violation("rule:" + ("ok-vs-err" if a.startswith("OK") != b.startswith("OK") else "value" if a.startswith("OK") else "errkind"),
                         "interpreter and the rules of the manual disagree: impl %s, rules %s" % (a[:100], b[:100]),
                         {"program": g.program(e), "expr": g.nickel(e), "impl": a, "rules": b,
                          "how_to_replay": "printf '\\t%s' | .build/target/debug/nkeval  (escape newlines as \\n)"})
    for e, a in list(zip(exprs, impl))[:4]:
        ck.sample({"merge": g.nickel(e), "result": a})
    ck.coverage["disagreements"] = ndis
    ck.coverage["rule"] = "binary merges of records over field a (5 priority forms x optional x not_exported x {no contract, Number} x {no value, 1, \"s1\", {b=1}, {b|default=2}} or absent) exhaustively (thorough) or sampled (quick), plus sampled two-field records, chains of three definitions of one field in both bracketings, and the same definitions written as repeated definitions inside one literal (then merged further); non-trivial = both operands define a field"
    ck.trusted += ["extraction: ExtrOcamlBasic only", "harness bins nkeval, c06prio"]


def replay(ck, path):
    import json
    obj = json.load(open(path))
    if not ck.harness(["nkeval"]):
        return
    rc, I, err = core.run_lines(core.harness_bin("nkeval"), [], ["\t" + m.esc(obj["program"])])
    ck.case(key=obj["program"])
    if I and I[0] != obj.get("rules") and not (I[0].startswith("ERR") and str(obj.get("rules", "")).startswith("ERR")):
        ck.violation(obj.get("key", "rule:replay"), "still differs: impl %s rules %s" % (I[0], obj.get("rules")), obj)
