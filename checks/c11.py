"""C11 — polymorphic contracts enforce parametricity without spurious blame.

Anchors: core/stdlib/internals.ncl ($forall, $forall_var, $forall_record_tail, $func, $array, $record_type),
core/src/eval/mod.rs (Term::Sealed arm), core/src/eval/stack.rs (peek_sealed_cont),
core/src/eval/operation.rs (Seal/Unseal, RecordSealTail/UnsealTail, record ops' sealed-tail guards),
core/src/typ.rs (subcontract for Forall/Var, sealing keys), core/src/label.rs (type_environment).
"""
import glob
import json
import os

from vlib import core
from checks import c11_table, c11_gen

META = {
    "harness_bins": ["nkeval"],
    "extract": "C11.v",
    "technique": "Coq proofs about an executable model of sealing (lazy big-step semantics with Sealed values, "
                 "sealed record tails and the contract combinators of internals.ncl/typ.rs): seal guard, "
                 "blame on inspection, erasure for parametric code; plus a table of the real interpreter's "
                 "behaviour on a sealed operand for every primop position (primop list extracted from the "
                 "source), re-proved on every run; model tied to the code by differential runs on generated "
                 "forall-contracts x implementations classified by construction",
    "level_text": "Theorems (coq/Props/C11.v, all Qed, closed under the global context). Translator-tied: "
                  "C11_seal_guard_generated — in the table obtained by running the real interpreter on one program per "
                  "strict operand position of every UnaryOp/BinaryOp/NAryOp variant (enumerated from core/src/term/mod.rs "
                  "and lexer.rs on every run, so a new primop without a program is Unexplored and fails) and on "
                  "application/if/match/destructuring/interpolation/==/serialisation/export/contract application, every "
                  "entry except seq and unseal-with-the-matching-key is Blame, and every record operation on a sealed tail "
                  "is TailAccess/Blame or blind to the tail (same outcome for two tails and no tail). On the model of "
                  "internals.ncl/typ.rs/peek_sealed_cont/record primops: C11_inspect_blames(_contract) (a sealed value in "
                  "any strict position other than unseal-with-its-key/seq blames with the seal's label; "
                  "`(fun x => F[x]) | forall a. a -> T` blames positively for every strict frame F), "
                  "C11_fundamental / C11_parametric_erasure_partial / C11_parametric_transparent / C11_parametric_(annotation_)"
                  "same_result(2) / C11_parametric_same_export (type and row variables) / C11_export_same / C11_parametric_annotation_same_export2 (for every term accepted by the syntactic criterion has_ty/passes_only — quantified values only "
                  "bound, passed, stored in arrays/records, returned, seq'ed — whatever the bare run produces, the run under "
                  "`forall a... . T` produces an outcome related by a seal-erasure relation that is a congruence on closures, "
                  "arrays and records; equal at base types and equal exported data (what `nickel export` prints, values and errors) at "
                  "first-order result types; callbacks and containers included), C11_tail_guarded / tail_sealed / "
                  "tail_preserved / tail_tampered_blames / excluded_field_blames (record-row tails), "
                  "C11_nested_foralls_have_distinct_keys (higher-rank nesting), and refuted variants (no polarity flip in $func; "
                  "typeof not stopped by a seal; re-applied array contracts deduplicated — C11_dedup_variant_refuted, with "
                  "C11_array_contract_twice_seals_twice: applying a sealing contract twice seals twice) plus the two known "
                  "key-freshness findings as _refuted lemmas. Tie: the extracted "
                  "model and nkeval are run on the same generated programs (contracted and bare); outcome classes and exported "
                  "values must agree, and the direct oracle (no model) is contracted==bare for parametric implementations and "
                  "Blame/TailAccess for inspecting, fabricating and tail-touching ones.",
    "level_note": "Trusted: Coq kernel; extraction (ExtrOcamlBasic+ExtrOcamlNativeString); the model's reading of "
                  "the anchors; the translator checks/c11_table.py (regexes over term/mod.rs and lexer.rs, "
                  "hand-written source templates for operators without %name% spelling); generator "
                  "checks/c11_gen.py. Modelled, not verified: call-by-name without memoisation, integers only, "
                  "no enums/dicts/merge in the model (they are in the interpreter table). Partial: the erasure theorems prove "
                  "the direction bare-outcome => contracted-outcome (C11_full_parametric_erasure, both directions, is stated and "
                  "type-checked only; by determinism the open case is only a bare run that never produces an outcome), for prenex "
                  "type and record-row variables, records with fields in the order of the type and the tail fields after them, "
                  "row-polymorphic records only passed/projected (no insert/remove in the typed criterion); higher-rank and "
                  "mid-spine quantifiers, insert/remove on row-polymorphic records and aliases are covered by the tail theorems "
                  "and the correspondence runs. Known findings "
                  "(design-level, not fixed): sealing keys restart at 0 for every generated contract and are "
                  "per contract rather than per instantiation.",
}

FUEL = "400"
BLAMEY = ("ERR Blame+", "ERR Blame-", "ERR TailAccess")
# who must be blamed, by construction of the case: the function under the contract (positive blame; a
# touched tail is reported as TailAccess) or, for ctx-* and an excluded field in the argument, its caller
EXPECT = {
    "inspect": ("ERR Blame+",), "fabricate": ("ERR Blame+",), "tail-add": ("ERR Blame+",),
    "tail-fabricate": ("ERR Blame+",), "tail-drop": ("ERR Blame+",),
    "tail-inspect": ("ERR TailAccess", "ERR Blame+"),
    "ctx-inspect": ("ERR Blame-",), "ctx-fabricate": ("ERR Blame-",), "tail-excluded": ("ERR Blame-",),
}


def esc(s):
    return s.replace("\\", "\\\\").replace("\n", "\\n").replace("\t", "\\t")


def corpus():
    out = []
    for p in sorted(glob.glob(os.path.join(core.ROOT, "corpus", "C11", "*.case"))):
        for line in open(p):
            line = line.rstrip("\n")
            if not line or line.startswith("#"):
                continue
            klass, prim, sx = line.split("\t", 2)
            out.append({"klass": klass, "prim": prim, "sx": sx, "corpus": os.path.basename(p)})
    return out


def known_key(c):
    """stable key of the two design-level known findings, identified by construction of the case"""
    if c["prim"].startswith("launder+") or c["prim"] == "alias-shared-key":
        return "cross-contract-key"
    if c["prim"] == "two-calls":
        return "per-instantiation-key"
    return None


def evaluate(ck, cases, exe_model, exe_impl, model_args=(), batch=1500):
    """Runs every case on the model (contracted and bare) and on nkeval, in batches (so that a stalled
    shard only loses its own batch)."""
    for start in range(0, len(cases), batch):
        part = cases[start:start + batch]
        modelled = [c for c in part if "raw" not in c]
        rc, mo, err = core.run_sharded(exe_model, [FUEL] + list(model_args), [c["sx"] for c in modelled], timeout=3000)
        if rc:
            ck.obligation("model-run", "internal", False, "rc=%s %s" % (rc, err[-600:]))
        for c, line in zip(modelled, mo):
            f = (line.split("\t") + ["", "", "", ""])[:4]
            c["src"], c["bare_src"], c["m_c"], c["m_b"] = f
        for c in part:
            if "raw" in c:
                # constructs outside the model language (let rec, dictionary types): direct oracle only
                c["src"], c["bare_src"], c["m_c"], c["m_b"] = c["raw"], c["raw_bare"], None, None
        srcs = ["\t" + esc(c["src"]) for c in part]
        bares = ["\t" + esc(c["bare_src"]) for c in part]
        rc, io, err = core.run_sharded(exe_impl, [], srcs + bares, timeout=3000)
        if rc:
            ck.obligation("nkeval-run", "internal", False, "rc=%s %s" % (rc, err[-600:]))
        n = len(part)
        for i, c in enumerate(part):
            c["i_c"], c["i_b"] = io[i], io[n + i]


def judge(ck, c):
    klass, prim = c["klass"], c["prim"]
    ck.case(key=c["sx"], nontrivial=("forall" in c["sx"]))
    ck.hist("class", klass)
    ck.hist("primitive", prim)
    for ft in c.get("feat", ["corpus"]):
        ck.hist("signature_feature", ft)
    ck.hist("impl_outcome_contracted", c["i_c"].split(" ")[1] if c["i_c"].startswith("ERR") else "OK")
    ck.hist("impl_outcome_bare", c["i_b"].split(" ")[1] if c["i_b"].startswith("ERR") else "OK")
    replay = {"case": c["sx"], "class": klass, "primitive": prim, "nickel": c["src"], "nickel_bare": c["bare_src"],
              "impl_contracted": c["i_c"], "impl_bare": c["i_b"], "model_contracted": c["m_c"], "model_bare": c["m_b"],
              "how_to_replay": "./verif check C11 --replay <this file>"}
    violated = False
    if c["src"].startswith("PARSE-ERROR") or "<internal>" in c["src"]:
        ck.obligation("generator:bad-case", "internal", False, c["sx"][:400])
        return
    if "<missing>" in (c["i_c"], c["i_b"], c["m_c"]):
        ck.count("cases_lost_to_a_stalled_run")      # the run itself is reported as `nkeval-run` / `model-run`
        return
    if c["i_c"] in ("ERR Parse", "ERR Typecheck") or c["i_b"] in ("ERR Parse", "ERR Typecheck"):
        # the printed program is not a well-formed Nickel program: a defect of the generator/printer
        ck.obligation("generator:ill-formed-program", "internal", False, c["src"][:600])
        return
    # ---- direct oracle on the implementation (no model involved)
    if klass == "free":
        pass
    elif klass.startswith("parametric"):
        if c["i_c"] != c["i_b"]:
            violated = True
            what = "spurious-blame" if c["i_c"] in BLAMEY else "result-differs"
            ck.violation(known_key(c) or "%s:%s" % (what, prim),
                         "parametric implementation behaves differently under the polymorphic contract: contracted %s, bare %s"
                         % (c["i_c"], c["i_b"]),
                         dict(replay, expected="contracted == bare"))
    else:
        want = EXPECT.get(klass, BLAMEY)
        if c["i_c"] not in want:
            violated = True
            what = "wrong-party-blamed" if c["i_c"] in BLAMEY else "missed-blame"
            ck.violation(known_key(c) or "%s:%s:%s" % (what, klass, prim),
                         "implementation of class %s (%s) under the polymorphic contract: expected %s, observed %s"
                         % (klass, prim, " or ".join(want), c["i_c"]),
                         dict(replay, expected=" or ".join(want)))
        elif klass == "tail-inspect" and c["i_c"] != "ERR TailAccess":
            ck.count("tail_inspect_blamed_not_tailaccess")
    # ---- correspondence model vs implementation
    if c["m_c"] is not None and (c["m_c"] != c["i_c"] or c["m_b"] != c["i_b"]):
        ck.count("model_vs_impl_disagreements")
        if not violated and ck.stats["model_vs_impl_disagreements"] <= 25:
            ck.obligation("correspondence:model-vs-nkeval", "correspondence", False,
                          "class %s prim %s\n%s\nimpl  contracted %s | bare %s\nmodel contracted %s | bare %s\ncase %s"
                          % (klass, prim, c["src"][:500], c["i_c"], c["i_b"], c["m_c"], c["m_b"], c["sx"][:500]))


class _Quiet:
    """stand-in for a Check when the table is regenerated outside a check run (./verif setup)"""
    def __init__(self):
        self.problems = []

    def obligation(self, name, kind, ok, detail=""):
        if not ok:
            self.problems.append("%s: %s" % (name, detail[-300:]))
        return ok


def setup_gen():
    """Regenerate coq/Gen/SealTable.v from /repo (same code path as run)."""
    rc, out = core.cargo_build(["nkeval"])
    if rc != 0:
        raise RuntimeError("cargo build of nkeval failed:\n" + out[-2000:])
    q = _Quiet()
    c11_table.generate(q, core.REPO, core.harness_bin("nkeval"))
    for p in q.problems:
        print("[C11 setup_gen] " + p)


def run(ck):
    ok = ck.harness(["nkeval"])
    exe_impl = core.harness_bin("nkeval")
    if ok:
        progs, rows = c11_table.generate(ck, core.REPO, exe_impl)
        for t in ("primop", "special", "allowed", "tail"):
            for (tb, name, pos, k) in rows:
                if tb == t:
                    ck.hist("table_" + t, k)
        ck.coverage["generated_tables"] = [{"file": "coq/Gen/SealTable.v", "entries": len(rows),
                                            "programs_run": sum(len(p["src"]) for p in progs),
                                            "source": [c11_table.TERM_RS, c11_table.LEXER_RS]}]
        ck.evaluations += sum(len(p["src"]) for p in progs)
        bad = [(p["table"], p["name"], p["pos"], p["klass"], p["src"][:1]) for p in progs
               if (p["table"] in ("primop", "special") and p["klass"] not in ("BlamePos", "Unreachable", "Internal")
                   and not p["name"].startswith("UnaryOp::Seq "))
               or (p["table"] == "allowed" and p["klass"] != "Value")
               or (p["table"] == "tail" and (p["klass"] not in ("TailAccess", "BlamePos", "BlameNeg", "Blind")
                                             or (p["klass"] == "Blind" and p["pos"] == 1)))]
        for b in bad[:5]:
            # a table entry that breaks the theorem is itself a concrete failing input: report it as such
            ck.violation("seal-table:%s:%s:%d" % (b[0], b[1], b[2]),
                         "sealed operand not guarded: table %s entry %s position %d observed %s" % (b[0], b[1], b[2], b[3]),
                         {"program": b[4], "observed": b[3], "expected": "Blame / TailAccess (Value for seq, unseal with the matching key)"})
        ck.coverage["internal_or_unreachable_entries"] = [(n, p, k) for (t, n, p, k) in rows if k in ("Internal", "Unreachable")]
    ck.coq("Props.C11", extra_targets=["Seal/Print.vo"], clean=(ck.tier == "thorough" and not os.environ.get("VERIF_NO_CLEAN")))
    exe_model = ck.model("C11.v")
    if not ok or not exe_model:
        return
    rng = core.SplitMix64(ck.seed * 1000003 + 11)
    cases = corpus()
    ncorp = len(cases)
    n = 600 if ck.tier == "quick" else 20000
    cases += c11_gen.make_cases(rng, n)
    # free-form stream: random (mostly ill-typed) programs with contracts anywhere; model fidelity only
    cases += c11_gen.free_cases(rng.fork(), 300 if ck.tier == "quick" else 6000)
    # raw Nickel stream (let rec / dictionary types; re-applied container contracts): direct oracle only
    cases += c11_gen.raw_cases(rng.fork(), 150 if ck.tier == "quick" else 3000)
    evaluate(ck, cases, exe_model, exe_impl)
    for c in cases:
        judge(ck, c)
    for c in cases[:2] + cases[ncorp:ncorp + 4]:
        ck.sample({"class": c["klass"], "primitive": c["prim"], "nickel": c["src"][:400], "impl": c["i_c"], "impl_bare": c["i_b"], "model": c["m_c"]})
    ck.coverage["correspondence"] = {"cases": len(cases), "corpus": ncorp, "programs_evaluated_by_nkeval": 2 * len(cases),
                                     "disagreements": ck.stats.get("model_vs_impl_disagreements", 0)}
    ck.coverage["rule"] = ("case = ((impl | T) args): T a generated forall type over 0-3 type variables and 0-1 record-row variables "
                           "(prenex, mid-spine and higher-rank quantifiers; arrays, records with/without tails, callbacks); impl synthesised "
                           "from T as parametric, then optionally edited into inspect(path, primitive out of %d)/fabricate/tail-inspect/"
                           "tail-add/tail-fabricate/launder/alias; every case is run contracted and bare on nkeval and on the extracted model; "
                           "a family in which the same container contract occurrences (Array a, nested arrays, records of arrays, dictionaries) are "
                           "re-applied to values that already carry them (f (f x), another annotated identity of the same shape, and, as raw "
                           "Nickel judged by the direct oracle only, let rec re-entrancy and {_ : a}), "
                           "plus a free-form stream of random (mostly ill-typed) programs with contracts on arbitrary subterms, compared model vs nkeval only; "
                           "non-trivial = mentions a forall; distinct by exact term" % len(c11_gen.INSPECTORS))
    ck.coverage["partial"] = ("parametric_erasure is proved for the typed fragment stated in Props/C11.v; enum rows, dictionaries and merge are "
                              "covered by the interpreter table only, not by the model")
    ck.trusted += ["extraction: ExtrOcamlBasic, ExtrOcamlNativeString", "harness bin nkeval (hook H1 fuel)",
                   "translator checks/c11_table.py", "generator checks/c11_gen.py (SplitMix64, VERIF_SEED)"]
    ck.assumptions += ["call-by-name model of a call-by-need interpreter (pure language)",
                       "sealing keys restart at 0 per generated contract (mirrored; known finding)"]


def replay(ck, path):
    obj = json.load(open(path))
    ok = ck.harness(["nkeval"])
    rc, out = core.coq_make(["Seal/Print.vo"])          # what the extraction needs
    if rc != 0:
        ck.obligation("coq-build:Seal/Print.vo", "make", False, out[-2000:])
        return
    exe_model = ck.model("C11.v")
    if not ok or not exe_model:
        return
    if "case" in obj:
        c = {"sx": obj["case"], "klass": obj.get("class", "parametric"), "prim": obj.get("primitive", "-")}
        evaluate(ck, [c], exe_model, core.harness_bin("nkeval"))
        judge(ck, c)
        ck.log("replay: impl contracted %s | bare %s ; model contracted %s | bare %s" % (c["i_c"], c["i_b"], c["m_c"], c["m_b"]))
    elif "program" in obj:
        rc, out, err = core.run_lines(core.harness_bin("nkeval"), [], ["\t" + esc(p) for p in obj["program"]])
        ck.log("replay: %s -> %s (expected %s)" % (obj["program"], out, obj.get("expected")))
        if out and not all(o in BLAMEY for o in out):
            ck.violation(obj.get("key", "seal-table"), "sealed operand not guarded: %s" % out, obj)
