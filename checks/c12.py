"""C12 — evaluations in one session do not interfere (eval/mod.rs, eval/stack.rs, eval/cache/lazy.rs,
repl/mod.rs, program.rs)."""
import itertools
import json
import os
from vlib import core

META = {
    "harness_bins": ["c12"],
    "extract": "C12.v",
    "technique": "Coq proof about an executable call-by-need abstract machine (thunk states Suspended/Blackholed/Evaluated, update frames, unwind, REPL session layer with per-input step budget): invariant black-holed = referenced by an update frame, soundness of memoised cells, and refinement of every session evaluation to a heap-free call-by-name evaluator of the stand-alone `let`-chain, for all histories including failed and abandoned evaluations; machine model and call-by-name spec are tied to the real ReplImpl / Program by differential replay of generated histories, and every input is also compared with a fresh stand-alone Program (direct oracle)",
    "level_text": "Theorems (coq/Props/C12.v, closed under the global context, no axioms) quantify over EVERY history of inputs (let-definitions, eval, full eval, :query, eval_record_spine; each succeeding, failing at any depth, or abandoned after any number of machine steps = hook H1 budget) of the mechanism model coq/Mech/Machine.v (an executable reading of eval/mod.rs main loop, lazy.rs thunk states, stack.rs unwind, repl/mod.rs eval_): (1) blackhole_iff_on_stack: in every reachable configuration the black-holed thunks are exactly (multiset-exact) the thunks of the update frames; (2) unwind_clean / session_heap_good: after Drop/unwind no thunk is black-holed or locked and nothing else changed; (3) evaluated_cells_sound: every Evaluated thunk holds the call-by-name value of the closure it was created with; (4) session_equiv / session_equiv_full / session_equiv_query: an eval, a full evaluation or a :query in the session after any history yields the value / error class of the heap-free call-by-name meaning (coq/Mech/Spec.v) of `let x1 = e1 in ... in e`, and a reported InfiniteRecursion implies that this meaning diverges for every fuel (never spurious); session_vs_fresh: same outcome as the machine on an empty session whenever neither exhausts its budget; (5) the lock/unlock protocol of Program::eval_record_spine (eval_guarded) is modelled as a fifth input kind: every lock taken is released, also on the error / budget path (part of session_heap_good); (6) the machine without unwinding, and eval_guarded without the unlock on the error path, are refuted by vm_compute witnesses. Language of the model: variables, functions, let / let rec, integers, booleans, strict + - < with run-time type errors, if, recursive records with field access, std.seq, record merge `&` for records whose fields are standard thunks (a merged field gets a thunk over COPIES of the two sides' thunks, as Thunk::saturate / make_unique do; merging a record with a field that depends on a sibling is the explicit outcome EOutOfFragment), std.fail_with; divergence and genuine infinite recursion are derivable. The machine the theorems are about creates a copy of a black-holed thunk Suspended (proposed/C12-saturate-state.diff); the variant in which a copy keeps the state (the pinned code) is refuted by vm_compute witnesses (session_equiv_thunk_copy_refuted, thunk_copy_order_refuted) and is a known finding of the correspondence run (key thunk-copy-blackholed). The model and the spec are hand-written; the tie to /repo is the correspondence run: the same generated histories (exhaustive over an 8-input alphabet after a 2-definition prelude up to length 4 in the thorough tier, seeded samples) are run on the extracted model, on the extracted call-by-name spec, on the real ReplImpl (budgets via verif_hooks::set_fuel) and, input by input, on fresh stand-alone Programs; additionally `:load` histories, a re-used VmContext with imports, and scope histories (top-level definitions that rebind `std` or coincide with free variables of imported files, followed by inputs that make the interpreter go through the stdlib internals) are checked against the fresh-Program oracle only.",
    "level_note": "Trusted: Coq kernel (vm_compute only in the two _broken_refuted witnesses and Examples); extraction (ExtrOcamlBasic + ExtrOcamlNativeString); the hand-written reading of the Rust code in Machine.v (modelled, not verified: tied by correspondence only); hook H1; harness bin c12 and its s-expression -> Nickel printer; the generator. Modelling deviations, all stated in Machine.v: update_at_indices pops one frame per model step (Rust: all consecutive frames in one loop iteration); if-then-else uses one frame instead of Op1Cont + 2 Args; %force% (eval_full) and :query are drivers that start one machine run per thunk instead of re-scheduling inside one run (same thunks, same order, same values); ReplImpl's typechecking/unbound-identifier rejection is not modelled (generated inputs are well-scoped). session_equiv is proved for each of eval (weak head normal form), eval_full (deep data) and :query as the observed input, after histories containing all four input kinds. Outside the model (checked by the direct oracle of the correspondence run only, or not at all): `:load`, revertible thunks (recursive overriding: merge of records with dependent fields), contracts, arrays, strings, imports and the stdlib's own thunks are outside the model (the last only through std.fail_with in the differential run).",
}

NAMES = ["x", "y", "z", "w"]
KS = [0, 1, 2, 3, 4, 5, 6, 8, 10, 13, 17, 25, 40, 80, 200, 1000]


# ------------------------------------------------------------------------------ generator

def lit(rng):
    return "(n %d)" % rng.choice([0, 1, 2, 3, 5, 7, -1, -4, 10])


def gen(rng, env, ty, d):
    """A term of (rough) type ty in {'num','bool','rec','fun'}; env: list of (name, ty).
    ~6% of the nodes are deliberately ill-typed / failing / diverging."""
    if rng.chance(1, 18):
        return bad(rng, env, d)
    vs = [x for x, t in env if t == ty]
    if d <= 0:
        if vs and rng.chance(2, 3):
            return "(v %s)" % rng.choice(vs)
        return {"num": lit(rng), "bool": "(b %s)" % rng.choice("tf"),
                "rec": "(rec (a %s))" % lit(rng), "fun": "(lam p (v p))"}[ty]
    c = rng.below(100)
    if rng.chance(1, 25):
        return "(seq %s %s)" % (gen(rng, env, rng.choice(["num", "bool", "rec", "fun"]), d - 1), gen(rng, env, ty, d - 1))
    if ty == "rec" and rng.chance(1, 8):
        return "(merge %s %s)" % (gen(rng, env, "rec", d - 1), gen(rng, env, "rec", d - 1))
    if c < 12 and vs:
        return "(v %s)" % rng.choice(vs)
    if c < 22:
        x = rng.choice(["p", "q", "u"])
        t1 = rng.choice(["num", "num", "bool", "rec", "fun"])
        return "(let %s %s %s)" % (x, gen(rng, env, t1, d - 1), gen(rng, [(x, t1)] + env, ty, d - 1))
    if c < 30:
        return "(if %s %s %s)" % (gen(rng, env, "bool", d - 1), gen(rng, env, ty, d - 1), gen(rng, env, ty, d - 1))
    if c < 38:
        recs = [x for x, t in env if t == "rec"]
        if recs and ty == "num":
            return "(proj (v %s) a)" % rng.choice(recs)
    if c < 46:
        fs = [x for x, t in env if t == "fun"]
        if fs and ty == "num":
            return "(app (v %s) %s)" % (rng.choice(fs), gen(rng, env, "num", d - 1))
    if ty == "num":
        if c < 70:
            return "(%s %s %s)" % (rng.choice(["add", "add", "sub"]), gen(rng, env, "num", d - 1), gen(rng, env, "num", d - 1))
        if c < 80:
            # terminating recursion: sum 1..k
            k = rng.range(0, 6)
            return "(letrec f (lam m (if (lt (v m) (n 1)) (n 0) (add (v m) (app (v f) (sub (v m) (n 1)))))) (app (v f) (n %d)))" % k
        if c < 88:
            return "(app (lam p %s) %s)" % (gen(rng, [("p", "num")] + env, "num", d - 1), gen(rng, env, "num", d - 1))
        if c < 94:
            return "(proj %s a)" % gen(rng, env, "rec", d - 1)
        return lit(rng)
    if ty == "bool":
        if c < 75:
            return "(lt %s %s)" % (gen(rng, env, "num", d - 1), gen(rng, env, "num", d - 1))
        return "(b %s)" % rng.choice("tf")
    if ty == "rec":
        fields = ["(a %s)" % gen(rng, [("b", "num")] + env if rng.chance(1, 3) else env, "num", d - 1)]
        # field b may refer to field a (recursive record)
        fields.append("(b %s)" % gen(rng, [("a", "num")] + env, "num", d - 1))
        if rng.chance(1, 3):
            fields.append("(c %s)" % gen(rng, env, rng.choice(["rec", "bool", "fun"]), d - 1))
        return "(rec %s)" % " ".join(fields)
    # fun: num -> num
    return "(lam p %s)" % gen(rng, [("p", "num")] + env, "num", d - 1)


def bad(rng, env, d):
    c = rng.below(9)
    if c == 0:
        return "(fail)"
    if c == 1:
        return "(add (b t) %s)" % lit(rng)
    if c == 2:
        return "(app %s %s)" % (lit(rng), lit(rng))
    if c == 3:
        return "(proj (rec (a (n 1))) zz)"
    if c == 4:
        return "(letrec s (add (v s) (n 1)) (v s))"          # genuine infinite recursion
    if c == 5:
        return "(if %s (n 1) (n 2))" % lit(rng)
    if c == 6:
        return "(proj %s a)" % lit(rng)
    if c == 7:
        return "(letrec s (v s) (v s))"
    return "(letrec f (lam m (app (v f) (v m))) (app (v f) (n 0)))"  # diverges (budget)


def budget(rng):
    return str(rng.choice(KS)) if rng.chance(1, 2) else "inf"


def gen_history(rng, maxlen, loads=False):
    env = []
    out = []
    n = rng.range(2, maxlen)
    for _ in range(n):
        c = rng.below(100)
        if c < 35 or not env:
            x = rng.choice(NAMES)
            ty = rng.choice(["num", "num", "num", "bool", "rec", "rec", "fun"])
            out.append("(def %s %s)" % (x, gen(rng, env, ty, rng.range(1, 3))))
            env = [(x, ty)] + [(y, t) for y, t in env if y != x]
        elif c < 60:
            # (often abandoned) evaluation of something that touches earlier definitions
            ty = rng.choice(["num", "num", "bool", "rec", "fun"])
            out.append("(eval %s %s)" % (budget(rng), gen(rng, env, ty, rng.range(0, 3))))
        elif c < 75:
            x, _ = rng.choice(env)
            out.append("(eval %s (v %s))" % (budget(rng), x))
        elif c < 88:
            ty = rng.choice(["num", "rec", "rec"])
            out.append("(full %s %s)" % (budget(rng), gen(rng, env, ty, rng.range(0, 2))))
        elif c < 96 or not loads:
            x, t = rng.choice(env)
            path = [x] + ([rng.choice(["a", "b", "c", "a", "zz"])] if t == "rec" or rng.chance(1, 6) else [])
            if len(path) == 2 and rng.chance(1, 4):
                path.append(rng.choice(["a", "b"]))
            out.append("(query %s %s)" % (budget(rng), " ".join(path)))
        else:
            out.append("(load %s %s)" % (budget(rng), gen(rng, env, "rec", rng.range(1, 2))))
            env = [("a", "num"), ("b", "num")] + [(y, t) for y, t in env if y not in ("a", "b")]
    # probes: everything defined so far must still have its stand-alone value
    for x, t in env:
        out.append("(%s inf (v %s))" % ("full" if t in ("rec", "num") else "eval", x))
    return " ".join(out)



def gen_merge_history(rng, maxlen):
    """Histories around merges performed WHILE a thunk is under evaluation: a recursive record whose
    field `r` holds a record with fields that first force a sibling `m` (std.seq) and then fail,
    succeed or run out of budget; `m` (and sometimes `m2`) merge `r` (or one another) with records
    overlapping those fields, so that the merge copies / shares the thunks that are black-holed at
    that moment.  Later inputs reach the merged fields."""
    ys = rng.shuffle(["a", "b", "c"])[: rng.range(1, 3)]
    two = rng.chance(1, 2)

    def force():
        c = rng.below(10)
        if c < 5:
            return "(v m)"
        if c < 7:
            return "(proj (v m) z)"
        if c < 9 and two:
            return "(v m2)"
        return "(proj (v m) %s)" % rng.choice(ys)          # genuine recursion through the merge

    def body():
        c = rng.below(10)
        if c < 4:
            return bad(rng, [], 1)
        if c < 7:
            return "(letrec f (lam m (if (lt (v m) (n 1)) (n 0) (add (v m) (app (v f) (sub (v m) (n 1)))))) (app (v f) (n %d)))" % rng.range(1, 5)
        return "(add %s %s)" % (lit(rng), lit(rng))

    rfields = []
    for y in ys:
        b = body()
        if rng.chance(4, 5):
            b = "(seq %s %s)" % (force(), b)
        rfields.append("(%s %s)" % (y, b))
    if rng.chance(1, 3):
        rfields.append("(w %s)" % lit(rng))
    over = ["(%s %s)" % (y, lit(rng)) for y in ys if rng.chance(3, 4)] + ["(z %s)" % lit(rng)]
    fields = ["(r (rec %s))" % " ".join(rfields), "(m (merge (v r) (rec %s)))" % " ".join(over)]
    if two:
        fields.append("(m2 (merge %s (rec (%s %s) (u %s))))" % (rng.choice(["(v m)", "(v r)"]), rng.choice(ys), lit(rng), lit(rng)))
    out = []
    if rng.chance(1, 3):
        out.append("(def k %s)" % lit(rng))
    out.append("(def o (rec %s))" % " ".join(fields))
    tops = ["r", "m"] + (["m2"] if two else [])
    for _ in range(rng.range(2, maxlen)):
        t = rng.choice(tops)
        f = rng.choice(ys + ["z", "w"])
        c = rng.below(100)
        if c < 55:
            out.append("(eval %s (proj (proj (v o) %s) %s))" % (budget(rng), t, f))
        elif c < 70:
            out.append("(full %s (proj (v o) %s))" % (budget(rng), t))
        elif c < 85:
            out.append("(query %s o %s %s)" % (budget(rng), t, f))
        else:
            out.append("(eval %s (add (proj (proj (v o) %s) %s) (proj (proj (v o) %s) %s)))" % (budget(rng), t, f, rng.choice(tops), rng.choice(ys)))
    for t in tops:
        for y in ys:
            out.append("(eval inf (proj (proj (v o) %s) %s))" % (t, y))
    out.append("(full inf (proj (v o) m))")
    return " ".join(out)


# ------------------------------------------------------------------------------ scope histories

def nk(src):
    """An arbitrary Nickel expression as a term of the history language."""
    import urllib.parse
    return "(nk %s)" % urllib.parse.quote(src, safe="")


# what a session may (re)bind `std` to -- the only stdlib module name a user can rebind (the
# internals are bound under `$...` names, which are not identifiers)
STD_SHADOWS = ['{ version = "mine" }', "5", "fun x => x", '{ array = { length = fun x => 0 }, contract = 1 }', '"s"', "[1]"]

# inputs whose evaluation makes the interpreter itself go through the stdlib / the `$` internals
# (array merge, every builtin contract, record contracts, polymorphic contracts, interpolation,
# merge with priorities, structural equality, typed blocks, match); some fail on purpose
INTERNAL_USES = [
    "[1, 2] & [1, 2]", "[1, 2] & [1, 3]", "[[1], [2]] & [[1], [2]]",
    "1 | Number", '"a" | Number', '"a" | String', "true | Bool", "1 | Dyn", "1 | Bool",
    "[1, 2] | Array Number", '[1, "a"] | Array Number', "[[1]] | Array (Array Number)",
    "{ a = 1 } | { a | Number }", '({ a = "x" } | { a | Number }).a', "{ a = 1, b = 2 } | { a | Number }",
    "({ a = 1 } | { _ : Number }).a", '({ a = "x" } | { _ : Number }).a', "{ a = 1 } | { _ | Number }",
    "'Foo | [| 'Foo, 'Bar |]", "'Baz | [| 'Foo, 'Bar |]", "'Foo 1 | [| 'Foo Number |]",
    "((fun x => x) | Number -> Number) 1", '((fun x => "s") | Number -> Number) 1',
    "((fun x => x) | forall a. a -> a) 1", "((fun x => 1) | forall a. a -> a) 2",
    "((fun r => r) | forall r. { a : Number; r } -> { a : Number; r }) { a = 1, b = 2 }",
    '"a%{"b"}c"', 'let v = 1 in "v=%{if v == 1 then "one" else "other"}"', '"x%{1}"',
    "{ a | default = 1 } & { a = 2 }", "({ a | default = 1 } & { a = 2 }).a", "{ a = 1 } & { a = 2 }",
    "[1, 2] == [1, 2]", "{ a = [1] } == { a = [1] }", "(1 + 1 : Number)", '(1 + "a" : Number)',
    "let f : Number -> Number = fun x => x + 1 in f 1", "'A |> match { 'A => 1, _ => 2 }",
    "{ a = 1, b | optional } | { a | Number, b | optional | String }", "[1, 2] @ [3]", "{ \"%{\"k\"}\" = 1 }",
]

# aliases of stdlib functions taken BEFORE `std` is shadowed, and their uses afterwards
STD_ALIASES = [
    ("len", "std.array.length", ["len [1, 2, 3]"]),
    ("s", "std", ["s.array.length [1]", 's.string.join ", " ["a", "b"]', "s.is_number 1", "s.array.map (fun x => x + 1) [1, 2]"]),
    ("tostr", "std.to_string", ["tostr 5", "tostr true"]),
    ("amap", "std.array.map", ["amap (fun x => x + 1) [1, 2]"]),
    ("fold", "std.array.fold_left", ["fold (fun a x => a + x) 0 [1, 2, 3]"]),
    ("pred", "std.contract.from_predicate (fun x => x == 1)", ["1 | pred", "2 | pred"]),
    ("fields", "std.record.fields", ["fields { a = 1, b = 2 }"]),
    ("flt", "std.array.filter", ["flt (fun x => x > 1) [1, 2, 3]"]),
]

POOL = ["x", "y", "z", "w", "port", "host", "cfg"]


def gen_scope_history(rng, maxlen):
    """Sessions whose top-level definitions must NOT be visible to code that is closed under the
    initial environment: the stdlib / internals (a session that rebinds `std`) and imported files
    (whose free variables coincide with session definitions).  Direct oracle only."""
    out = []
    defined = []
    aliases = []
    # some ordinary definitions from the pool
    for x in rng.shuffle(POOL)[: rng.range(1, 4)]:
        out.append("(def %s %s)" % (x, nk(rng.choice(["8080", "1", '"h"', "{ v = 1 }", "[1, 2]", "fun a => a"]))))
        defined.append(x)
    # aliases of stdlib functions, taken before any shadowing
    for name, src, uses in rng.shuffle(STD_ALIASES)[: rng.range(0, 3)]:
        out.append("(def %s %s)" % (name, nk(src)))
        aliases.append(uses)
    shadow = rng.chance(3, 4)
    if shadow:
        out.append("(def std %s)" % nk(rng.choice(STD_SHADOWS)))
    # files: free variables drawn from the session's names (and from names defined nowhere), or
    # closed.  Every way a file is used below FORCES its free variable (the REPL typechecks an
    # import against its own type environment, so an unbound identifier of a file is only found
    # when it is evaluated; the stand-alone program finds it statically: same class only if forced)
    files = []
    for i in range(rng.range(0, 3)):
        name = "g%d" % (i + 1)
        v = rng.choice(defined + POOL + ["std"]) if rng.chance(3, 4) else None
        if v is None:
            body, shape = rng.choice([("[1, 2]", "any"), ("{ v = 1 + 1 }", "rec"), ("std.array.length [1, 2]", "any"),
                                      ("[1] & [1]", "any"), ("1 | Number", "any")])
        elif v == "std":
            body, shape = rng.choice([("std.array.length [1, 2]", "any"), ("std.to_string 5", "any"), ("{ v = std.is_number 1 }", "rec")])
        else:
            body, shape = rng.choice([("[%s, [%s]]", "any"), ("{ v = %s }", "rec"), ("%s", "any"), ("fun a => [a, %s]", "fun"),
                                      ("let q = 1 in { v = [q, %s] }", "rec")])
            body = body.replace("%s", v)
        out.append("(file %s %s)" % (name, nk(body)))
        files.append((name, shape))
    uses = []
    for _ in range(rng.range(3, maxlen)):
        c = rng.below(100)
        if c < 45 or (not files and not aliases):
            uses.append(rng.choice(INTERNAL_USES))
        elif c < 65 and aliases:
            uses.append(rng.choice(rng.choice(aliases)))
        elif files:
            f, shape = rng.choice(files)
            forms = ['import "%s.ncl"', '[import "%s.ncl"]', 'let i = import "%s.ncl" in i']
            if shape == "rec":
                forms.append('(import "%s.ncl").v')
            if shape == "fun":
                forms = ['(import "%s.ncl") 1', '[(import "%s.ncl") 2]']
            uses.append("!" + rng.choice(forms) % f)
        else:
            uses.append(rng.choice(INTERNAL_USES))
    if shadow and rng.chance(1, 2):
        uses.append(rng.choice(["std", "std.version", "std.array.length [1]"]))
    if defined and rng.chance(1, 2):
        uses.append(rng.choice(defined))
    for u in uses:
        k = "inf" if rng.chance(5, 6) else str(rng.choice([5, 20, 80, 300]))
        force = u.startswith("!")          # imports are always evaluated fully
        u = u.lstrip("!")
        out.append("(%s %s %s)" % ("full" if force or rng.chance(2, 3) else "eval", k, nk(u)))
        # a late (re)definition in the middle of the session
        if rng.chance(1, 10):
            x = rng.choice(POOL + ["std"])
            out.append("(def %s %s)" % (x, nk(rng.choice(["1", "{ v = 2 }", '{ contract = { Equal = fun a b => b } }']))))
    return " ".join(out)


def gen_context_history(rng, maxlen):
    """Context mode (one VmContext re-used the way nickel::Context::with_vm does): files written to
    a scratch directory on the import path, then budgeted evaluations of terms importing them."""
    out = []
    nfiles = rng.range(1, 3)
    files = []
    for i in range(nfiles):
        name = "f%d" % (i + 1)
        env = [("a", "num")]
        a = gen(rng, [], "num", rng.range(1, 2))
        if files and rng.chance(1, 2):
            a = "(add %s (proj (imp %s) %s))" % (a, rng.choice(files), rng.choice(["a", "b"]))
        b = gen(rng, env, "num", rng.range(1, 2))
        fields = ["(a %s)" % a, "(b (add (v a) %s))" % b]
        if rng.chance(1, 3):
            fields.append("(c %s)" % bad(rng, [], 1))
        out.append("(file %s (rec %s))" % (name, " ".join(fields)))
        files.append(name)
    for _ in range(rng.range(2, maxlen)):
        f = rng.choice(files)
        c = rng.below(100)
        if c < 45:
            t = "(proj (imp %s) %s)" % (f, rng.choice(["a", "b", "b", "c", "zz"]))
        elif c < 70:
            t = "(add (proj (imp %s) b) %s)" % (f, gen(rng, [], "num", 1))
        elif c < 85:
            t = "(imp %s)" % f
        else:
            t = "(let r (imp %s) (add (proj (v r) a) (proj (v r) b)))" % f
        out.append("(%s %s %s)" % ("full" if rng.chance(1, 3) else "eval", budget(rng), t))
    for f in files:
        out.append("(eval inf (add (proj (imp %s) a) (proj (imp %s) b)))" % (f, f))
    return " ".join(out)


# Exhaustive enumeration: every history starts with the PRELUDE (so that every input below is
# well-scoped), then ALL sequences of length <= n over the 8-input alphabet: re-definitions (one
# depending on the previous value, one capturing the current x, one failing), evaluations abandoned
# at different depths (the budgets fall inside the evaluation of x / y.a / y.b on the unchanged
# tree; repeated abandoned evaluations progress through memoised thunks), an evaluation failing
# with a type error after forcing y.b, a full evaluation, a budgeted query.
PRELUDE = "(def x (add (add (n 1) (n 2)) (n 3))) (def y (rec (a (add (v x) (n 1))) (b (add (v a) (v a)))))"
ALPHABET = [
    "(def x (add (v x) (n 1)))",
    "(def y (rec (a (add (v x) (n 1))) (b (add (v a) (v a)))))",
    "(def x (add (v x) (fail)))",
    "(eval 6 (add (v x) (v x)))",
    "(eval 12 (proj (v y) b))",
    "(eval inf (add (proj (v y) b) (b t)))",
    "(full inf (v y))",
    "(query 9 y b)",
]
PROBES = "(full inf (v y)) (eval inf (v x))"


def exhaustive(maxlen, alphabet=ALPHABET):
    out = []
    for n in range(1, maxlen + 1):
        for combo in itertools.product(range(len(alphabet)), repeat=n):
            out.append(" ".join([PRELUDE] + [alphabet[i] for i in combo] + [PROBES]))
    return out


def corpus():
    p = os.path.join(core.ROOT, "corpus", "C12")
    res = []
    if os.path.isdir(p):
        for f in sorted(os.listdir(p)):
            res += [l.strip() for l in open(os.path.join(p, f)) if l.strip() and not l.startswith("#")]
    return res


# ------------------------------------------------------------------------------ comparison

def split_inputs(case):
    """Top-level s-expressions of a history line."""
    out, depth, start = [], 0, None
    for i, ch in enumerate(case):
        if ch == "(":
            if depth == 0:
                start = i
            depth += 1
        elif ch == ")":
            depth -= 1
            if depth == 0:
                out.append(case[start:i + 1])
    return out


KEY_THUNK_COPY = "thunk-copy-blackholed"


def merge_class(inputs, j):
    """The inputs up to and including j contain a record merge."""
    return any("(merge " in i for i in inputs[: j + 1])


def show_inp(inp):
    """Readable form of an input: `(nk <percent-encoded>)` terms are decoded."""
    import re
    import urllib.parse
    return re.sub(r"\(nk ([^ ()]*)\)", lambda m: "`" + urllib.parse.unquote(m.group(1)) + "`", inp)


def key_of(inp):
    return inp.split(" ", 1)[0].strip("(")


def compare(ck, mode, cases, impl_out, model_out, spec_out):
    """impl line: `s1 | s2 ... || o1 | o2 ...`; model line: `m1 | m2 ... ## bh,lk ...`;
    spec line: `p1 | p2 ...` (call-by-name meaning).  model/spec may be None (loads, program mode)."""
    for idx, case in enumerate(cases):
        inputs = split_inputs(case)
        a = impl_out[idx]
        if "||" not in a:
            ck.obligation("correspondence-run:harness-output", "internal", False, "case %s\n%s" % (case, a))
            continue
        sess_s, orac_s = a.split(" || ", 1) if " || " in a else (a.replace("||", "").strip(), "")
        sess = [s.strip() for s in sess_s.split(" | ")] if sess_s.strip() else []
        orac = [s.strip() for s in orac_s.split(" | ")] if orac_s.strip() else []
        if mode == "program":
            inputs = [i for i in inputs if key_of(i) in ("eval", "full", "spine")]
        if len(sess) != len(inputs) or len(orac) != len(inputs):
            ck.obligation("correspondence-run:harness-arity", "internal", False, "case %s\n%s" % (case, a))
            continue
        model = spec = states = None
        if model_out is not None:
            m = model_out[idx]
            ms, st = m.split(" ## ", 1) if " ## " in m else (m, "")
            model = [s.strip() for s in ms.split(" | ")]
            states = st.split()
            spec = [s.strip() for s in spec_out[idx].split(" | ")]
            if mode == "program":
                keep = [n for n, i in enumerate(split_inputs(case)) if key_of(i) in ("eval", "full", "spine")]
                model = [model[n] for n in keep if n < len(model)]
                states = [states[n] for n in keep if n < len(states)]
                spec = [spec[n] for n in keep if n < len(spec)]
            if len(model) != len(inputs) or len(spec) != len(inputs):
                ck.obligation("correspondence-run:model-arity", "internal", False, "case %s\n%s\n%s" % (case, m, spec_out[idx]))
                continue
        abandoned = 0
        failed = 0
        for j, inp in enumerate(inputs):
            kind = key_of(inp)
            ck.hist(mode + ":inputs", kind)
            s, o = sess[j], orac[j]
            ck.hist(mode + ":session_outcome", s.split(" ")[1] if s.startswith("ERR") else ("bound" if s == "bound" else "OK"))
            if s == "ERR Budget":
                abandoned += 1
            elif s.startswith("ERR"):
                failed += 1
            if "Panic" in s or "Panic" in o:
                ck.violation("panic:" + kind, "evaluation panicked in a session", {"case": case, "mode": mode, "input": j, "impl": a})
                continue
            unlimited = inp.split(" ", 2)[1] == "inf" if kind in ("eval", "full", "query", "load", "spine") else False
            if o == "-" :
                pass
            elif s == "ERR Budget" and unlimited and o != "ERR Budget":
                # memoisation can only save steps: with the unlimited budget the session must
                # terminate whenever the fresh program does
                ck.violation("session-diverges:%s" % mode,
                             "input %d `%s` exhausts the unlimited budget in the session but gives `%s` as a stand-alone program" % (j, inp, o),
                             {"case": case, "mode": mode, "input": j, "session": sess, "oracle": orac})
                continue
            elif s == "ERR Budget" or o == "ERR Budget":
                ck.count(mode + ":inconclusive_budget")
            elif s != o and "ERR InfiniteRec" in (s, o) and merge_class(inputs, j):
                # DIRECT ORACLE, known class: a thunk copied by a merge while it was under evaluation
                ck.violation(KEY_THUNK_COPY,
                             "input %d `%s` gives `%s` in the session but `%s` as a stand-alone program (a merge copied a black-holed thunk, in the session or in the stand-alone run)" % (j, inp, s, o),
                             {"case": case, "mode": mode, "input": j, "session": sess, "oracle": orac})
                continue
            elif s != o:
                # DIRECT ORACLE: the session answer differs from the fresh stand-alone program
                after = "after-abandoned" if abandoned else ("after-failed" if failed else "plain")
                ck.violation("session-vs-fresh:%s:%s" % (mode, after),
                             "input %d `%s` gives `%s` in the session but `%s` as a stand-alone program" % (j, show_inp(inp), s, o),
                             {"case": case, "readable": show_inp(case), "mode": mode, "input": j, "session": sess, "oracle": orac,
                              "how_to_replay": "./verif check C12 --replay <this file>"})
                continue
            else:
                ck.count(mode + ":session_eq_fresh")
            if model is None:
                continue
            m, p = model[j], spec[j]
            if "ModelOutOfFragment" in m or "ModelOutOfFragment" in p:
                # merge of a record with a field depending on a sibling: recursive overriding is
                # outside the model (explicit outcome); the direct oracle above still applied
                ck.count(mode + ":model_out_of_fragment")
                continue
            if states and j < len(states) and states[j] != "0,0":
                ck.obligation("model:unwind_clean", "correspondence", False, "model leaves %s black-holed,locked after input %d of %s" % (states[j], j, case))
            # model (machine) vs implementation (session)
            if kind == "def":
                if m != s:
                    ck.obligation("correspondence:model-vs-repl", "correspondence", False, "case %s\ninput %d impl %s model %s" % (case, j, s, m))
                continue
            if s == "ERR Budget" and unlimited and m != "ERR Budget":
                ck.obligation("correspondence:model-vs-repl", "correspondence", False,
                              "case %s\ninput %d `%s`: the model terminates (%s) within %d steps, the implementation exhausts its unlimited budget" % (case, j, inp, m, 5000))
            elif m == "ERR Budget" or s == "ERR Budget":
                ck.count(mode + ":model_inconclusive_budget")
            elif m != s and s == "ERR InfiniteRec" and merge_class(inputs, j):
                # same known class seen inside ONE evaluation (the stand-alone program has it too):
                # the order of evaluation decides whether the merge copies a black-holed thunk
                ck.violation(KEY_THUNK_COPY,
                             "input %d `%s` reports InfiniteRec (session and stand-alone program alike) although its call-by-name meaning is `%s`: a merge copied a black-holed thunk" % (j, inp, m),
                             {"case": case, "mode": mode, "input": j, "session": sess, "oracle": orac, "model": model})
                continue
            elif m != s:
                ck.obligation("correspondence:model-vs-repl", "correspondence", False,
                              "case %s\ninput %d `%s`\nimpl  %s\nmodel %s" % (case, j, inp, s, m))
            else:
                ck.count(mode + ":model_eq_session")
            # call-by-name spec vs the real stand-alone program
            if p == "-":
                pass
            elif p == "ERR Budget" or o == "ERR Budget":
                # genuine infinite recursion is divergence in the call-by-name meaning
                ck.count(mode + ":spec_inconclusive_budget")
                if o == "ERR InfiniteRec" or p != "ERR Budget":
                    pass
            elif o == "ERR InfiniteRec" and merge_class(inputs, j):
                ck.violation(KEY_THUNK_COPY,
                             "input %d `%s`: the stand-alone program reports InfiniteRec but its call-by-name meaning is `%s` (a merge copied a black-holed thunk)" % (j, inp, p),
                             {"case": case, "mode": mode, "input": j, "oracle": orac, "spec": spec})
            elif o == "ERR InfiniteRec":
                ck.obligation("correspondence:spec-vs-fresh-program", "correspondence", False,
                              "case %s\ninput %d: stand-alone program reports InfiniteRec but the call-by-name meaning is %s" % (case, j, p))
            elif p != o:
                ck.obligation("correspondence:spec-vs-fresh-program", "correspondence", False,
                              "case %s\ninput %d `%s`\nfresh program %s\ncbn spec      %s" % (case, j, inp, o, p))
            else:
                ck.count(mode + ":spec_eq_fresh")
        nontrivial = (abandoned + failed) > 0 and len(inputs) >= 3
        ck.case(key=mode + case, nontrivial=nontrivial)
        ck.hist(mode + ":history_length", len(inputs))
        ck.hist(mode + ":abandoned_or_failed_inputs", min(abandoned + failed, 6))


def run_stream(ck, mode, cases, exe_impl, exe_model, with_model=True):
    if not cases:
        return
    args = ["program"] if mode == "program" else (["context"] if mode == "context" else [])
    rc1, impl_out, e1 = core.run_sharded(exe_impl, args, cases, timeout=6000)
    model_out = spec_out = None
    rc2 = rc3 = 0
    e2 = e3 = ""
    if with_model:
        rc2, model_out, e2 = core.run_sharded(exe_model, [], cases)
        rc3, spec_out, e3 = core.run_sharded(exe_model, ["spec"], cases)
    if rc1 or rc2 or rc3:
        ck.obligation("correspondence-run:" + mode, "internal", False, "rc=%s/%s/%s %s %s %s" % (rc1, rc2, rc3, e1[-800:], e2[-800:], e3[-800:]))
    compare(ck, mode, cases, impl_out, model_out, spec_out)
    for c, a in list(zip(cases, impl_out))[:2]:
        ck.sample({"mode": mode, "history": c[:400], "impl": a[:400]})


def program_cases(cases):
    """Re-evaluations of one Program: keep the defs, and turn the history into a sequence of
    (eval|full K) of ONE body (the last non-def term) with the budgets of the history."""
    out = []
    for case in cases:
        inputs = split_inputs(case)
        defs = [i for i in inputs if key_of(i) == "def"]
        # in a let-chain later defs may not be used before they are defined: keep only the defs
        # that precede the last evaluation
        evals = [(n, i) for n, i in enumerate(inputs) if key_of(i) in ("eval", "full")]
        if not evals:
            continue
        last_n, last = evals[-1]
        body = last.split(" ", 2)[2][:-1]
        defs = [i for n, i in enumerate(inputs) if key_of(i) == "def" and n < last_n]
        seq = []
        for n, i in evals:
            k = i.split(" ", 2)[1]
            kind = key_of(i)
            # every third budgeted evaluation becomes a (budgeted) eval_record_spine: exercises the
            # lock/unlock protocol of eval_guarded before the later evaluations
            if k != "inf" and (n + len(body)) % 3 == 0:
                kind = "spine"
            seq.append("(%s %s %s)" % (kind, k, body))
        if any(x.startswith("(spine") for x in seq):
            # a stale lock is only visible to a later eval_record_spine
            seq.append("(spine inf %s)" % body)
        out.append(" ".join(defs + seq))
    return out


def coqchk(ck):
    """Thorough tier: re-check the compiled property module with the stand-alone checker."""
    rc, out = core.sh(["coqchk", "-o", "-silent", "-Q", ".", "NV", "NV.Props.C12"], cwd=core.COQ, timeout=1500)
    wanted = ["* Axioms: <none>", "type-in-type: <none>", "unsafe (co)fixpoints: <none>", "positivity is assumed: <none>"]
    clean = rc == 0 and all(w in out for w in wanted)
    ck.obligation("coqchk NV.Props.C12 (no axioms, no unsafe fixpoints, no assumed positivity)", "coqchk", clean, out[-1200:])


def run(ck):
    if ck.tier == "thorough":
        # full rebuild of this property's own files only (the coq/ tree is shared with the other
        # properties' checks, so no global `make clean`)
        import glob
        for f in glob.glob(os.path.join(core.COQ, "Mech", "*.vo")) + glob.glob(os.path.join(core.COQ, "Props", "C12*.vo")):
            try:
                os.remove(f)
            except OSError:
                pass
    ok_coq = ck.coq("Props.C12", clean=False)
    if ck.tier == "thorough" and ok_coq:
        coqchk(ck)
    ok = ck.harness(["c12"])
    exe_model = ck.model("C12.v")
    if not ok or not exe_model:
        return
    exe_impl = core.harness_bin("c12")
    rng = core.SplitMix64(ck.seed * 1000003 + 12)
    quick = ck.tier == "quick"
    # 1. REPL sessions, model + spec + direct oracle
    cases = corpus()
    ex = exhaustive(2 if quick else 4)
    ck.coverage["exhaustive_histories"] = "%d histories: prelude + all sequences of length <= %d over the %d-input alphabet + probes" % (len(ex), 2 if quick else 4, len(ALPHABET))
    cases += ex
    n = 300 if quick else 6000
    for i in range(n):
        cases.append(gen_history(rng.fork(), 6 if rng.chance(3, 4) else 12))
    run_stream(ck, "repl", cases, exe_impl, exe_model)
    # 2. REPL sessions with `:load` (not in the Coq model: direct oracle only)
    lcases = [gen_history(rng.fork(), 8, loads=True) for _ in range(60 if quick else 600)]
    lcases = [c for c in lcases if "(load" in c]
    run_stream(ck, "repl-load", lcases, exe_impl, exe_model, with_model=False)
    # 3. one Program evaluated repeatedly (budgeted, then unlimited): direct oracle only
    pcases = program_cases(cases[len(corpus()) + len(ex):][: (120 if quick else 1800)] + ex[: (40 if quick else 700)])
    run_stream(ck, "program", pcases, exe_impl, exe_model, with_model=True)
    # 3b. merges performed while a thunk is under evaluation (direct oracle; see gen_merge_history)
    mcases = [gen_merge_history(rng.fork(), 6) for _ in range(120 if quick else 3000)]
    run_stream(ck, "repl-merge", mcases, exe_impl, exe_model, with_model=True)
    # 3c. scope: session definitions must stay invisible to the stdlib / internals and to imports
    scases = [gen_scope_history(rng.fork(), 7) for _ in range(100 if quick else 2500)]
    run_stream(ck, "repl-scope", scases, exe_impl, exe_model, with_model=False)
    # 4. one VmContext re-used for several sources importing the same files (nickel::Context)
    ccases = [gen_context_history(rng.fork(), 6) for _ in range(80 if quick else 1500)]
    run_stream(ck, "context", ccases, exe_impl, exe_model, with_model=False)
    ck.coverage["traces_validated_against_impl"] = len(cases) + len(lcases) + len(pcases) + len(ccases) + len(mcases) + len(scases)
    ck.coverage["rule"] = ("history = sequence of REPL inputs (def / eval / full / query, each with a step budget K of hook H1 or unlimited; "
                           "K small = evaluation abandoned mid-way) generated from SplitMix64(VERIF_SEED): typed term generator with ~6% failing/ill-typed/diverging nodes, "
                           "followed by probes re-evaluating every definition; non-trivial = >= 3 inputs and at least one failed or abandoned input; distinct by text")
    ck.coverage["partial"] = "`:load`, the re-used VmContext with imports, and the scope histories (session definitions shadowing `std` / coinciding with free variables of imported files, arbitrary Nickel inputs exercising the internals) are checked by the direct oracle only (not in the Coq model)"
    ck.trusted += ["extraction: ExtrOcamlBasic + ExtrOcamlNativeString", "harness bin c12 (s-expression -> Nickel printer)", "generator checks/c12.py"]
    ck.assumptions += ["hook H1 (step budget) aborts the evaluation loop exactly like any other evaluation error"]


def replay(ck, path):
    obj = json.load(open(path))
    ok = ck.harness(["c12"])
    exe_model = ck.model("C12.v")
    if ok and exe_model and "case" in obj:
        mode = obj.get("mode", "repl")
        run_stream(ck, mode if mode in ("program", "context") else "repl", [obj["case"]], core.harness_bin("c12"), exe_model, with_model=(mode in ("repl", "program", "repl-merge")))  # repl-scope / repl-load / context: direct oracle only
