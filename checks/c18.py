"""C18 — evaluation never performs an invalid memory access
(core/src/eval/value/{mod,lens}.rs, core/src/eval/cache/lazy.rs, core/src/eval/stack.rs)."""
import copy
import os
import re
import subprocess
from vlib import core

META = {
    "claimed": False,
    "harness_bins": ["c18"],
    "extract": "C18.v",
    "technique": "Coq proof (partial): protocol models of the manual reference counting, the thunk wrapper and the marker-tagged byte stack, proved safe for every history; tied to the Rust code by differential replay of value-level histories (exact reference counts through hook H7), generated stack tables, an unsafe-site ledger, and sanitizer runs used only as search",
    "level_text": "",
    "level_note": "",
}

HOOK_FILE = os.path.join(core.REPO, "core/src/eval/value/mod.rs")


def have_hook():
    try:
        return "fn verif_ref_count" in open(HOOK_FILE).read() and \
               "fn stack_replay" in open(os.path.join(core.REPO, "core/src/verif_hooks.rs")).read()
    except OSError:
        return False


# --------------------------------------------------------------------------- history generator

class Gen:
    """Seeded generator of value-level histories.  Keeps a light abstract copy of the roots (kind,
    class, kids) only to aim slot numbers; a wrong guess merely makes the op a skip on both sides."""

    def __init__(self, rng, maxlen):
        self.r = rng
        self.slots = []      # None | dict(kind='v'|'t', cls=..., kids=[...], rev=bool, cached=bool)
        self.ops = []
        self.maxlen = maxlen

    def live(self, pred=lambda d: True):
        return [i for i, d in enumerate(self.slots) if d is not None and pred(d)]

    def pick(self, pred=lambda d: True, stale=20):
        l = self.live(pred)
        if not l or self.r.chance(1, stale):
            return self.r.below(len(self.slots) + 1)       # sometimes a dead / out-of-range slot
        # prefer recent roots
        if self.r.chance(1, 2):
            return l[-1 - self.r.below(min(3, len(l)))]
        return self.r.choice(l)

    def take(self, i):
        if 0 <= i < len(self.slots) and self.slots[i] is not None:
            d = self.slots[i]
            self.slots[i] = None
            return d
        return None

    def push(self, d):
        self.slots.append(d)

    def emit(self, s):
        self.ops.append(s)

    def new_value(self):
        r = self.r
        c = r.below(100)
        vals = lambda d: True
        thunks = lambda d: d["kind"] == "t"
        if c < 10 or not self.live():
            self.emit("ni:%d" % r.below(5)); self.push(dict(kind="v", cls="inl", kids=[]))
        elif c < 40:
            self.emit("nd:%s:%d" % (r.choice("nsfk"), r.below(9))); self.push(dict(kind="v", cls="leaf", kids=[]))
        elif c < 55:
            k = r.choice([0, 1, 1, 2, 2, 3])
            ss = []
            for _ in range(k):
                s = self.pick(vals)
                if s not in ss:
                    ss.append(s)
            kids = [self.take(s) for s in ss]
            ok = all(k is not None for k in kids)
            which = r.choice(["na", "nr"])
            self.emit("%s:%d:%s" % (which, r.below(5), ".".join(map(str, ss)) or "-"))
            if ok:
                self.push(dict(kind="v", cls=("inl" if not kids else ("arr" if which == "na" else "rec")), kids=kids))
            else:
                for s, k in zip(ss, kids):
                    if k is not None:
                        self.slots[s] = k
        elif c < 65:
            s = self.pick(vals) if r.chance(2, 3) else None
            kid = self.take(s) if s is not None else None
            self.emit("ne:%d:%s" % (r.below(5), "-" if s is None else s))
            if s is None or kid is not None:
                self.push(dict(kind="v", cls="enum", kids=[kid] if kid else []))
        elif c < 75:
            s = self.pick(vals)
            kid = self.take(s)
            self.emit("nw:%s:%d" % (r.choice("cym"), s))
            if kid is not None:
                self.push(dict(kind="v", cls="wrap", kids=[kid]))
        elif c < 80:
            s = self.pick(thunks) if r.chance(2, 3) else None
            kid = self.slots[s] if (s is not None and s < len(self.slots)) else None
            ok = s is None or (kid is not None and kid["kind"] == "t")
            self.emit("nl:%d:%s" % (r.below(5), "-" if s is None else s))
            if ok:
                if s is not None:
                    self.take(s)
                self.push(dict(kind="v", cls="label", kids=[kid] if s is not None else []))
        elif c < 93:
            s = self.pick(vals)
            env = []
            for _ in range(r.choice([0, 0, 1, 2])):
                e = self.pick(thunks)
                if e != s and e not in env:
                    env.append(e)
            ok = (0 <= s < len(self.slots) and self.slots[s] is not None and
                  all(e < len(self.slots) and self.slots[e] is not None and self.slots[e]["kind"] == "t" for e in env))
            self.emit("nt:%d:%s" % (s, ".".join(map(str, env)) or "-"))
            if ok:
                kid = self.take(s)
                for e in env:
                    self.take(e)
                self.push(dict(kind="t", cls="thunk", kids=[kid], rev=False, cached=True))
        else:
            s = self.pick(vals)
            kid = self.take(s)
            self.emit("nv:%d" % s)
            if kid is not None:
                self.push(dict(kind="t", cls="thunk", kids=[kid], rev=True, cached=False))

    def step(self):
        r = self.r
        if not self.live():
            return self.new_value()
        c = r.below(100)
        thunks = lambda d: d["kind"] == "t"
        blocks = lambda d: d["kind"] == "v" and d["cls"] not in ("inl", "thunk")
        if c < 26:
            self.new_value()
        elif c < 40:
            s = self.pick()
            self.emit("cl:%d" % s)
            if s < len(self.slots) and self.slots[s] is not None:
                self.push(copy.deepcopy(self.slots[s]))
        elif c < 48:
            s = self.pick()
            self.emit("dr:%d" % s)
            self.take(s)
        elif c < 64:
            which = "mm" if c < 58 else "cm"
            s = self.pick(blocks)
            d = self.slots[s] if s < len(self.slots) else None
            m = r.below(10)
            if d is not None and d["cls"] == "leaf" and m < 8:
                self.emit("%s:%d:s%d" % (which, s, r.below(9)))
            elif m < 6:
                want_t = d is not None and d["cls"] == "label"
                x = self.pick(thunks if want_t else (lambda d: True))
                self.emit("%s:%d:p%d" % (which, s, x))
                # abstract effect (only exact for mm; for cm the outcome depends on sharing)
                if which == "mm" and d is not None and x != s and x < len(self.slots) and self.slots[x] is not None \
                        and d["cls"] in ("arr", "rec", "enum", "wrap", "label") and (not want_t or self.slots[x]["kind"] == "t"):
                    k = self.take(x)
                    if d["cls"] in ("arr", "rec"):
                        d["kids"].append(k)
                    else:
                        d["kids"] = [k]
            else:
                self.emit("%s:%d:o" % (which, s))
                if which == "mm" and d is not None and d["cls"] in ("arr", "rec", "enum", "label") and d["kids"]:
                    self.push(d["kids"].pop())
        elif c < 68:
            s = self.pick()
            self.emit("%s:%d" % (r.choice(["sc", "mu", "lr"]), s))
            if self.ops[-1].startswith("sc") and s < len(self.slots) and self.slots[s] is not None:
                self.push(copy.deepcopy(self.slots[s]))
        elif c < 75:
            s = self.pick()
            self.emit("lt:%d" % s)
            d = self.take(s)
            if d is not None:
                if d["cls"] == "thunk":
                    d["kind"] = "t"
                    self.push(d)
                else:
                    for k in d["kids"]:
                        self.push(k)
        elif c < 78:
            s = self.pick()
            which = r.choice(["it", "iv"])
            self.emit("%s:%d" % (which, s))
            d = self.slots[s] if s < len(self.slots) else None
            if d is not None:
                if which == "iv":
                    d["kind"] = "v"
                elif d["cls"] == "thunk":
                    d["kind"] = "t"
        else:
            s = self.pick(thunks, stale=30)
            d = self.slots[s] if s < len(self.slots) else None
            isth = d is not None and d["kind"] == "t"
            t = r.weighted([("tg", 12), ("tf", 12), ("tu", 14), ("tr", 4), ("tl", 4), ("tk", 4), ("tv", 10),
                            ("tb", 10), ("tc", 10), ("ts", 8), ("tm", 8)])
            if t == "tu":
                c2 = self.pick(lambda d: True)
                self.emit("tu:%d:%d" % (s, c2))
                if isth and c2 != s and c2 < len(self.slots) and self.slots[c2] is not None:
                    k = self.take(c2)
                    self.take(s)
                    # the other handles of the same thunk are not tracked: approximation
                    _ = k
            elif t == "tb":
                recs = []
                for _ in range(r.choice([0, 1, 2])):
                    e = self.pick(thunks)
                    if e not in recs:
                        recs.append(e)
                self.emit("tb:%d:%s" % (s, ".".join(map(str, recs)) or "-"))
                if isth and d.get("rev"):
                    d["cached"] = True
            else:
                self.emit("%s:%d" % (t, s))
                if isth:
                    if t == "tg":
                        if d["cached"]:
                            self.push(copy.deepcopy(d["kids"][0]) if d["kids"] else dict(kind="v", cls="inl", kids=[]))
                    elif t == "tf":
                        self.push(copy.deepcopy(d))      # maybe: fails when black-holed
                    elif t == "tv":
                        n = copy.deepcopy(d)
                        if n.get("rev"):
                            n["cached"] = False
                        self.push(n)
                    elif t == "tm":
                        self.push(copy.deepcopy(d))
                    elif t == "tc":
                        self.take(s)
                        if d["cached"]:
                            self.push(copy.deepcopy(d["kids"][0]) if d["kids"] else dict(kind="v", cls="inl", kids=[]))
                    elif t == "ts":
                        self.take(s)
                        n = copy.deepcopy(d)
                        n["kind"] = "v"
                        n["rev"] = False
                        n["cached"] = True
                        self.push(n)

    def run(self):
        n = self.r.range(4, self.maxlen)
        while len(self.ops) < n:
            self.step()
        # most histories end by dropping everything (frees and leak accounting run)
        if self.r.chance(3, 4):
            for i in self.r.shuffle(self.live()):
                self.emit("dr:%d" % i)
        return ",".join(self.ops)


def gen_history(rng, maxlen):
    return Gen(rng, maxlen).run()


def corpus():
    p = os.path.join(core.ROOT, "corpus", "C18")
    res = []
    if os.path.isdir(p):
        for f in sorted(os.listdir(p)):
            if f.endswith(".case"):
                res += [l.strip() for l in open(os.path.join(p, f)) if l.strip() and not l.startswith("#")]
    return res


# --------------------------------------------------------------------------- comparison

RC = re.compile(r"#\d+")


def split_steps(line):
    parts = line.split(";")
    return parts[:-1], parts[-1]


def compare_hist(ck, cases, impl_out, model_out, hook):
    for case, a, b in zip(cases, impl_out, model_out):
        ops = case.split(",")
        ck.case(key=case, nontrivial=(len(ops) >= 6 and any(o.startswith(("cl", "tf", "tv")) for o in ops)))
        ck.hist("history_length", min(len(ops) // 10 * 10, 60))
        for o in ops:
            ck.hist("ops", o[:2])
        sa, ta = split_steps(a)
        sb, tb = split_steps(b)
        for s in sa:
            ck.hist("outcome", s[:1])
        if "!SHADOW" in a:
            i = next(i for i, s in enumerate(sa + [ta]) if "!SHADOW" in s)
            ck.violation("shadow:" + (ops[i][:2] if i < len(ops) else "end"),
                         "a live handle's contents differ from its plain-Rust shadow copy (value semantics broken under sharing)",
                         {"case": case, "step": i, "impl": (sa + [ta])[i][:800], "how_to_replay": "./verif check C18 --replay <this file>"})
            continue
        if "!PANIC" in a:
            i = len(sa)
            ck.violation("panic:" + (ops[i][:2] if i < len(ops) else "end"),
                         "panic (debug assertion / overflow check / unexpected unwrap) while replaying a value-level history",
                         {"case": case, "step": i, "impl": ta[:800]})
            continue
        if b.startswith("!") or "!" in tb:
            ck.obligation("model:error-state-reached", "correspondence", False,
                          "the model reaches an error state on %s : %s" % (case, tb))
            continue
        if not tb.startswith("leak="):
            ck.obligation("model:run", "correspondence", False, "model output malformed on %s: %s" % (case, b[-200:]))
            continue
        ck.hist("model_leaked_blocks", min(int(tb[5:]), 5))
        if sa != sb:
            i = next((i for i, (x, y) in enumerate(zip(sa, sb)) if x != y), min(len(sa), len(sb)))
            xa = sa[i] if i < len(sa) else "<none>"
            xb = sb[i] if i < len(sb) else "<none>"
            # contents agree and only counts differ?
            only_counts = RC.sub("#", xa) == RC.sub("#", xb)
            ck.obligation("correspondence:rc-model-vs-rust", "correspondence", False,
                          "case %s\nstep %d (%s)%s\nimpl  %s\nmodel %s" % (
                              case, i, ops[i] if i < len(ops) else "?", " [only reference counts differ]" if only_counts else "",
                              xa[:700], xb[:700]))


def run_hist(ck, cases, hook):
    exe_impl = core.harness_bin("c18")
    rc1, impl_out, e1 = core.run_sharded(exe_impl, ["hist"], cases)
    rc2, model_out, e2 = core.run_sharded(ck.model_exe, [] if hook else ["nohook"], cases)
    if rc1 or rc2:
        ck.obligation("correspondence-run", "internal", False, "rc=%s/%s %s %s" % (rc1, rc2, e1[-800:], e2[-800:]))
    compare_hist(ck, cases, impl_out, model_out, hook)
    return impl_out, model_out


def build_harness(ck, hook):
    import time
    t = time.time()
    rc, out = core.cargo_build(["c18"], features=["h7"] if hook else None)
    ck.coverage["harness_build_s"] = round(time.time() - t, 1)
    if rc != 0:
        ck.log("harness build failed:\n" + out[-4000:])
        ck.obligation("harness-build:c18", "build", False, out[-3000:])
        return False
    return True


def run(ck):
    hook = have_hook()
    ck.coverage["hook_H7_present"] = hook
    if os.path.exists(os.path.join(core.COQ, "Props", "C18.v")):
        ck.coq("Props.C18", clean=(ck.tier == "thorough"))
    ok = build_harness(ck, hook)
    ck.model_exe = ck.model("C18.v")
    if not ok or not ck.model_exe:
        return
    rng = core.SplitMix64(ck.seed * 1000003 + 18)
    cases = corpus()
    n = 1500 if ck.tier == "quick" else 30000
    for i in range(n):
        cases.append(gen_history(rng.fork(), 60 if rng.chance(1, 10) else 25))
    impl_out, model_out = run_hist(ck, cases, hook)
    for c, a in list(zip(cases, impl_out))[:2]:
        ck.sample({"history": c[:300], "impl_trace": a[:400]})
    ck.coverage["histories"] = len(cases)
    ck.coverage["rule"] = ("history = seeded random sequence of value-level operations (constructors of every block kind, "
                           "clone, drop, content_make_mut / content_mut + mutation, strong_clone, with_pos_idx, lens take/restore, "
                           "thunk <-> value conversions, thunk get/mk_update_frame/update/reset/lock/revert/build_cached/"
                           "into_closure/saturate/map); ~5% of slot references are stale on purpose; non-trivial = >= 6 ops with a clone/frame/revert")


def replay(ck, path):
    import json
    obj = json.load(open(path))
    hook = have_hook()
    ok = build_harness(ck, hook)
    ck.model_exe = ck.model("C18.v")
    if ok and ck.model_exe and "case" in obj:
        run_hist(ck, [obj["case"]], hook)
