"""C18 — evaluation never performs an invalid memory access
(core/src/eval/value/{mod,lens}.rs, core/src/eval/cache/lazy.rs, core/src/eval/stack.rs)."""
import copy
import hashlib
import json
import os
import re
import subprocess
import sys
import time
from vlib import core
from checks import c18_translate
from checks import c18_search

META = {
    "harness_bins": ["c18"],
    "extract": "C18.v",
    "technique": "Coq proof (partial, protocols only): executable models of the manual reference counting / copy-on-write / move-out lenses / Thunk wrapper (coq/Mem/Rc.v) and of the marker-tagged byte stack (coq/Mem/Stack.v, pairings generated from stack.rs) are proved safe for every history; tied to the Rust code by differential replay with exact reference counts (hook H7), a plain-Rust shadow oracle, generated stack tables, an unsafe-site ledger, whole programs under debug assertions; Miri / AddressSanitizer only as a search",
    "level_text": "PARTIAL: a Coq proof cannot speak about the hardware; proved are the protocols whose violation IS the memory error. (1) C18_rc_protocol_safe / C18_rc_history_preserves / C18_rc_step_preserves: for EVERY history of the 30 modelled value-level operations (constructors of every block kind, clone, drop, content_make_mut / content_mut + mutation incl. the Rc::make_mut of an array's vector leaf, strong_clone, with_pos_idx, lens take (with_content: unique -> payload moved out and block released without destructor, shared -> clone) / restore, Thunk <-> NickelValue conversions, thunk get_owned / mk_update_frame / update / reset / lock / unlock / revert / build_cached / into_closure / saturate / map) no error state is reachable (use after free, double free, count underflow, clone of a dead block, &mut while shared, unchecked thunk decode of a non-thunk) and the invariant holds: count(b) = number of live handles to b (roots + payloads of live blocks, including the std Rc boxes between value blocks), freed blocks have no handle; panicking paths (expect/assert) leave the invariant intact. (2) C18_unique_access_only_when_count_1: a write through &mut happens only on a block whose count is 1. (3) C18_thunk_tag_inv: after any history every Thunk-typed handle points to a live block tagged Thunk, so the unchecked decode of Thunk::data is safe. (4) C18_stack_typed / C18_unwind_typed / C18_stack_tables_consistent: with frames_well_tagged, every pop_unchecked / read_unchecked of stack.rs (pop<T>, drop_top, unwind, pop_arg, pop_arg_as_idx, peek_sealed_cont, the marker iterator) materialises the top item at the type it was pushed at; unwind pops each item at its own type and ends empty; the marker/type pairings are GENERATED from stack.rs on every run. (5) C18_sites_all_covered: every unsafe block / fn and unchecked pop/read of stack.rs, lazy.rs, value/mod.rs, value/lens.rs is known to the ledger (new or moved site = open obligation). The models are hand-written; the tie is the correspondence run: the same generated histories on the extracted model and on nickel-lang-core (debug build), comparing after every step the contents and the EXACT reference count of every block reachable from every live handle, plus a plain-Rust shadow copy (value semantics) inside the harness; stack scripts against the real Stack through the replay hook; seeded programs (completing, failing, budget-exhausted = abandoned mid-evaluation) must not panic / abort.",
    "level_note": "NOT proved, only sampled (debug assertions always; Miri on tiny histories and an AddressSanitizer build in the thorough tier — a report is a violation, silence is not a claim): memory layout and pointer arithmetic of value blocks, tag bit patterns and transmutes (u8 -> Marker / DataTag, NickelValue <-> Thunk repr(transparent)), pointer provenance, the allocator (addresses are never reused in the model), the pairing DataTag -> Rust type of the checked decodes (content_ref, content, as_value_data: ledger class ByTagTest), and the way the evaluator itself sequences these APIs (covered by whole programs, not by a model of the evaluator). Model restrictions: arrays of fewer than 32 elements (single-leaf vectors), environments of revertible thunks empty (no environment layering), saturate with no field, record/metadata payloads without values. Overflow of the 56-bit count stops a run (C18_overflow_needs_max_handles: needs 2^56-1 simultaneous handles; set_ref_count writes a corrupted header before panicking there: theoretical). A broken obligation / ledger / generated table does not stop the check: the harness is still built against the working tree, the correspondence and the oracles run (with the last good extracted model, or the direct oracles alone, if the Coq development no longer extracts), and a targeted search derived from what changed (checks/c18_search.py: every primop as the pending continuation over sealed / failing / diverging arguments, bulk pushes at every fill level of the byte stack, histories biased to the changed function with a clone before it) looks for a concrete input; only if nothing dies, panics, breaks a shadow copy or a count does the broken obligation remain as no-failing-input-found (set VERIF_C18_ASAN=1 to add the AddressSanitizer build to that search). Trusted: Coq kernel; extraction (ExtrOcamlBasic, ExtrOcamlNativeString); hook H7 (add-only: verif_ref_count, stack_replay); the syntactic translator checks/c18_translate.py (fails closed); harness c18 and the generators; std::rc::Rc, RefCell, HashMap, IndexMap, imbl-sized-chunks.",
}

HOOK_FILE = os.path.join(core.REPO, "core/src/eval/value/mod.rs")


def have_hook():
    try:
        return "fn verif_ref_count" in open(HOOK_FILE).read() and \
               "fn stack_replay" in open(os.path.join(core.REPO, "core/src/verif_hooks.rs")).read()
    except OSError:
        return False


# --------------------------------------------------------------------------- history generator

class Gen:
    """Seeded generator of value-level histories.  Keeps a light abstract copy of the roots (kind,
    class, kids) only to aim slot numbers; a wrong guess merely makes the op a skip on both sides."""

    def __init__(self, rng, maxlen, focus=None):
        self.r = rng
        self.slots = []      # None | dict(kind='v'|'t', cls=..., kids=[...], rev=bool, cached=bool)
        self.ops = []
        self.maxlen = maxlen
        # targeted search: categories (values of `c` in step) to favour, each one preceded by a
        # clone of a live root half of the time (the operation then meets a count of 2)
        self.focus = focus

    def live(self, pred=lambda d: True):
        return [i for i, d in enumerate(self.slots) if d is not None and pred(d)]

    def pick(self, pred=lambda d: True, stale=20):
        l = self.live(pred)
        if not l or self.r.chance(1, stale):
            return self.r.below(len(self.slots) + 1)       # sometimes a dead / out-of-range slot
        # prefer recent roots
        if self.r.chance(1, 2):
            return l[-1 - self.r.below(min(3, len(l)))]
        return self.r.choice(l)

    def take(self, i):
        if 0 <= i < len(self.slots) and self.slots[i] is not None:
            d = self.slots[i]
            self.slots[i] = None
            return d
        return None

    def push(self, d):
        self.slots.append(d)

    def emit(self, s):
        self.ops.append(s)

    def new_value(self):
        r = self.r
        c = r.below(100)
        vals = lambda d: True
        thunks = lambda d: d["kind"] == "t"
        if not self.live():
            c = r.below(40)
        if c < 8:
            self.emit("ni:%d" % r.below(5)); self.push(dict(kind="v", cls="inl", kids=[]))
        elif c < 40:
            self.emit("nd:%s:%d" % (r.choice("nsfk"), r.below(9))); self.push(dict(kind="v", cls="leaf", kids=[]))
        elif c < 55:
            k = r.choice([0, 1, 1, 2, 2, 3])
            ss = []
            for _ in range(k):
                s = self.pick(vals)
                if s not in ss:
                    ss.append(s)
            kids = [self.take(s) for s in ss]
            ok = all(k is not None for k in kids)
            which = r.choice(["na", "nr"])
            self.emit("%s:%d:%s" % (which, r.below(5), ".".join(map(str, ss)) or "-"))
            if ok:
                self.push(dict(kind="v", cls=("inl" if not kids else ("arr" if which == "na" else "rec")), kids=kids))
            else:
                for s, k in zip(ss, kids):
                    if k is not None:
                        self.slots[s] = k
        elif c < 65:
            s = self.pick(vals) if r.chance(2, 3) else None
            kid = self.take(s) if s is not None else None
            self.emit("ne:%d:%s" % (r.below(5), "-" if s is None else s))
            if s is None or kid is not None:
                self.push(dict(kind="v", cls="enum", kids=[kid] if kid else []))
        elif c < 75:
            s = self.pick(vals)
            kid = self.take(s)
            self.emit("nw:%s:%d" % (r.choice("cym"), s))
            if kid is not None:
                self.push(dict(kind="v", cls="wrap", kids=[kid]))
        elif c < 80:
            s = self.pick(thunks) if r.chance(2, 3) else None
            kid = self.slots[s] if (s is not None and s < len(self.slots)) else None
            ok = s is None or (kid is not None and kid["kind"] == "t")
            self.emit("nl:%d:%s" % (r.below(5), "-" if s is None else s))
            if ok:
                if s is not None:
                    self.take(s)
                self.push(dict(kind="v", cls="label", kids=[kid] if s is not None else []))
        elif c < 93:
            s = self.pick(vals)
            env = []
            for _ in range(r.choice([0, 0, 1, 2])):
                e = self.pick(thunks)
                if e != s and e not in env:
                    env.append(e)
            ok = (0 <= s < len(self.slots) and self.slots[s] is not None and
                  all(e < len(self.slots) and self.slots[e] is not None and self.slots[e]["kind"] == "t" for e in env))
            self.emit("nt:%d:%s" % (s, ".".join(map(str, env)) or "-"))
            if ok:
                kid = self.take(s)
                for e in env:
                    self.take(e)
                self.push(dict(kind="t", cls="thunk", kids=[kid], rev=False, cached=True))
        else:
            s = self.pick(vals)
            kid = self.take(s)
            self.emit("nv:%d" % s)
            if kid is not None:
                self.push(dict(kind="t", cls="thunk", kids=[kid], rev=True, cached=False))

    def step(self):
        r = self.r
        if not self.live():
            return self.new_value()
        c = r.below(100)
        if self.focus and r.chance(1, 2):
            if r.chance(1, 2):
                s0 = self.pick()
                self.emit("cl:%d" % s0)
                if s0 < len(self.slots) and self.slots[s0] is not None:
                    self.push(copy.deepcopy(self.slots[s0]))
            c = r.choice(self.focus)
        thunks = lambda d: d["kind"] == "t"
        blocks = lambda d: d["kind"] == "v" and d["cls"] not in ("inl", "thunk")
        if c < 26:
            self.new_value()
        elif c < 40:
            s = self.pick()
            self.emit("cl:%d" % s)
            if s < len(self.slots) and self.slots[s] is not None:
                self.push(copy.deepcopy(self.slots[s]))
        elif c < 48:
            s = self.pick()
            self.emit("dr:%d" % s)
            self.take(s)
        elif c < 64:
            which = "mm" if c < 58 else "cm"
            s = self.pick(blocks)
            d = self.slots[s] if s < len(self.slots) else None
            m = r.below(10)
            if d is not None and d["cls"] == "leaf" and m < 8:
                self.emit("%s:%d:s%d" % (which, s, r.below(9)))
            elif m < 6:
                want_t = d is not None and d["cls"] == "label"
                x = self.pick(thunks if want_t else (lambda d: True))
                self.emit("%s:%d:p%d" % (which, s, x))
                # abstract effect (only exact for mm; for cm the outcome depends on sharing)
                if which == "mm" and d is not None and x != s and x < len(self.slots) and self.slots[x] is not None \
                        and d["cls"] in ("arr", "rec", "enum", "wrap", "label") and (not want_t or self.slots[x]["kind"] == "t"):
                    k = self.take(x)
                    if d["cls"] in ("arr", "rec"):
                        d["kids"].append(k)
                    else:
                        d["kids"] = [k]
            else:
                self.emit("%s:%d:o" % (which, s))
                if which == "mm" and d is not None and d["cls"] in ("arr", "rec", "enum", "label") and d["kids"]:
                    self.push(d["kids"].pop())
        elif c < 68:
            s = self.pick()
            self.emit("%s:%d" % (r.choice(["sc", "mu", "lr"]), s))
            if self.ops[-1].startswith("sc") and s < len(self.slots) and self.slots[s] is not None:
                self.push(copy.deepcopy(self.slots[s]))
        elif c < 75:
            s = self.pick()
            self.emit("lt:%d" % s)
            d = self.take(s)
            if d is not None:
                if d["cls"] == "thunk":
                    d["kind"] = "t"
                    self.push(d)
                else:
                    for k in d["kids"]:
                        self.push(k)
        elif c < 78:
            s = self.pick()
            which = r.choice(["it", "iv"])
            self.emit("%s:%d" % (which, s))
            d = self.slots[s] if s < len(self.slots) else None
            if d is not None:
                if which == "iv":
                    d["kind"] = "v"
                elif d["cls"] == "thunk":
                    d["kind"] = "t"
        else:
            if not self.live(thunks) and r.chance(4, 5):
                # no thunk at hand: make one
                s0 = self.pick(lambda d: True)
                kid = self.take(s0)
                rev = r.chance(1, 3)
                self.emit(("nv:%d" % s0) if rev else ("nt:%d:-" % s0))
                if kid is not None:
                    self.push(dict(kind="t", cls="thunk", kids=[kid], rev=rev, cached=not rev))
                return
            s = self.pick(thunks, stale=30)
            d = self.slots[s] if s < len(self.slots) else None
            isth = d is not None and d["kind"] == "t"
            t = r.weighted([("tg", 12), ("tf", 12), ("tu", 14), ("tr", 4), ("tl", 4), ("tk", 4), ("tv", 10),
                            ("tb", 10), ("tc", 10), ("ts", 8), ("tm", 8)])
            if t == "tu":
                c2 = self.pick(lambda d: True)
                self.emit("tu:%d:%d" % (s, c2))
                if isth and c2 != s and c2 < len(self.slots) and self.slots[c2] is not None:
                    k = self.take(c2)
                    self.take(s)
                    # the other handles of the same thunk are not tracked: approximation
                    _ = k
            elif t == "tb":
                recs = []
                for _ in range(r.choice([0, 1, 2])):
                    e = self.pick(thunks)
                    if e not in recs:
                        recs.append(e)
                self.emit("tb:%d:%s" % (s, ".".join(map(str, recs)) or "-"))
                if isth and d.get("rev"):
                    d["cached"] = True
            else:
                self.emit("%s:%d" % (t, s))
                if isth:
                    if t == "tg":
                        if d["cached"]:
                            self.push(copy.deepcopy(d["kids"][0]) if d["kids"] else dict(kind="v", cls="inl", kids=[]))
                    elif t == "tf":
                        self.push(copy.deepcopy(d))      # maybe: fails when black-holed
                    elif t == "tv":
                        n = copy.deepcopy(d)
                        if n.get("rev"):
                            n["cached"] = False
                        self.push(n)
                    elif t == "tm":
                        self.push(copy.deepcopy(d))
                    elif t == "tc":
                        self.take(s)
                        if d["cached"]:
                            self.push(copy.deepcopy(d["kids"][0]) if d["kids"] else dict(kind="v", cls="inl", kids=[]))
                    elif t == "ts":
                        self.take(s)
                        n = copy.deepcopy(d)
                        n["kind"] = "v"
                        n["rev"] = False
                        n["cached"] = True
                        self.push(n)

    def run(self):
        n = self.r.range(4, self.maxlen)
        while len(self.ops) < n:
            self.step()
        # most histories end by dropping everything (frees and leak accounting run)
        if self.r.chance(3, 4):
            for i in self.r.shuffle(self.live()):
                self.emit("dr:%d" % i)
        return ",".join(self.ops)


def gen_history(rng, maxlen, focus=None):
    return Gen(rng, maxlen, focus).run()


def exhaustive_small(depth):
    """All histories of length <= depth over a small alphabet after a fixed prefix (thorough tier):
    roots 0..5 = a shared number (0,1 moved into the array), an array (2) and its clone (3), a thunk
    over a clone of the array (4 -> thunk 5)."""
    prefix = "nd:n:1,cl:0,na:7:0.1,cl:2,cl:2,nt:4:-"
    alpha = ["cl:2", "dr:2", "dr:3", "mm:2:o", "mm:3:p2", "cm:2:o", "lt:2", "lt:3", "sc:2", "mu:3",
             "tf:5", "tg:5", "tu:6:3", "tc:5", "ts:5", "tv:5", "cl:5", "dr:5"]
    out = []

    def rec(pre, d):
        if d == 0:
            return
        for a in alpha:
            h = pre + [a]
            out.append(prefix + "," + ",".join(h))
            rec(h, d - 1)
    rec([], depth)
    return out


def corpus():
    p = os.path.join(core.ROOT, "corpus", "C18")
    res = []
    if os.path.isdir(p):
        for f in sorted(os.listdir(p)):
            if f.endswith(".case"):
                res += [l.strip() for l in open(os.path.join(p, f)) if l.strip() and not l.startswith("#")]
    return res


# --------------------------------------------------------------------------- comparison

RC = re.compile(r"#\d+")


def obligation_capped(ck, name, kind, detail, cap=3):
    """A broken correspondence is reported a few times with details, then only counted."""
    n = ck.stats.get("broken:" + name, 0) + 1
    ck.stats["broken:" + name] = n
    if n <= cap:
        ck.obligation(name, kind, False, detail)


def split_steps(line):
    parts = line.split(";")
    return parts[:-1], parts[-1]


def compare_hist(ck, cases, impl_out, model_out, hook, fresh_model=True):
    """model_out None: no model available, direct oracles only (shadow copy, panic).
    fresh_model False: the model is the last good extraction, not the current Coq development."""
    if model_out is None:
        model_out = [None] * len(cases)
    for case, a, b in zip(cases, impl_out, model_out):
        ops = case.split(",")
        ck.case(key=case, nontrivial=(len(ops) >= 6 and any(o.startswith(("cl", "tf", "tv")) for o in ops)))
        ck.hist("history_length", min(len(ops) // 10 * 10, 60))
        for o in ops:
            ck.hist("ops", o[:2])
        sa, ta = split_steps(a)
        for s in sa:
            ck.hist("outcome", s[:1])
        if "!SHADOW" in a:
            i = next(i for i, s in enumerate(sa + [ta]) if "!SHADOW" in s)
            ck.violation("shadow:" + (ops[i][:2] if i < len(ops) else "end"),
                         "a live handle's contents differ from its plain-Rust shadow copy (value semantics broken under sharing)",
                         {"case": case, "step": i, "impl": (sa + [ta])[i][:800], "how_to_replay": "./verif check C18 --replay <this file>"})
            continue
        if "!PANIC" in a:
            i = len(sa)
            ck.violation("panic:" + (ops[i][:2] if i < len(ops) else "end"),
                         "panic (debug assertion / overflow check / unexpected unwrap) while replaying a value-level history",
                         {"case": case, "step": i, "impl": ta[:800]})
            continue
        if a == "<missing>" or b is None:
            continue
        sb, tb = split_steps(b)
        if b.startswith("!") or "!" in tb:
            obligation_capped(ck, "model:error-state-reached", "correspondence",
                              "the model reaches an error state on %s : %s" % (case, tb))
            continue
        if not tb.startswith("leak="):
            ck.obligation("model:run", "correspondence", False, "model output malformed on %s: %s" % (case, b[-200:]))
            continue
        ck.hist("model_leaked_blocks", min(int(tb[5:]), 5))
        if sa != sb:
            i = next((i for i, (x, y) in enumerate(zip(sa, sb)) if x != y), min(len(sa), len(sb)))
            xa = sa[i] if i < len(sa) else "<none>"
            xb = sb[i] if i < len(sb) else "<none>"
            # contents agree and only counts differ?
            only_counts = RC.sub("#", xa) == RC.sub("#", xb)
            detail = "case %s\nstep %d (%s)%s\nimpl  %s\nmodel %s" % (
                case, i, ops[i] if i < len(ops) else "?", " [only reference counts differ]" if only_counts else "",
                xa[:700], xb[:700])
            if only_counts and hook and fresh_model:
                # same contents, hence the same handles; the model's count IS the number of live
                # handles (C18_rc_protocol_safe): the implementation's count is not
                ck.violation("rc-mismatch:" + (ops[i][:2] if i < len(ops) else "end"),
                             "the reference count of a block differs from its number of live handles (as counted by the proved protocol model) after a value-level operation",
                             {"case": case, "step": i, "impl": xa[:800], "model": xb[:800],
                              "how_to_replay": "./verif check C18 --replay <this file>"})
            else:
                obligation_capped(ck, "correspondence:rc-model-vs-rust", "correspondence", detail)


def crash_candidates(lines, outs):
    """run_sharded feeds contiguous shards: in a shard whose process died, the first input without
    an output line is the one being processed."""
    n = len(lines)
    if n == 0:
        return []
    size = (n + core.NPROC - 1) // core.NPROC
    res = []
    for start in range(0, n, size):
        for i in range(start, min(n, start + size)):
            if outs[i] in ("<missing>", ""):
                res.append(lines[i])
                break
    return res


def run_hist(ck, cases, hook, fresh_model=True):
    exe_impl = core.harness_bin("c18")
    rc1, impl_out, e1 = core.run_sharded(exe_impl, ["hist"], cases)
    rc2, model_out = 0, None
    if ck.model_exe:
        rc2, model_out, e2 = core.run_sharded(ck.model_exe, [] if hook else ["nohook"], cases)
    hit = None
    if rc1:
        hit = find_crasher(exe_impl, ["hist"], crash_candidates(cases, impl_out)) or find_crasher(exe_impl, ["hist"], cases)
        if hit:
            ck.violation("abort:hist", "the harness process died (abort / signal) while replaying a value-level history",
                         {"case": hit[0], "stderr": hit[1]})
    if (rc1 and not hit) or rc2:
        ck.obligation("correspondence-run", "internal", False, "rc=%s/%s %s" % (rc1, rc2, e1[-800:]))
    compare_hist(ck, cases, impl_out, model_out, hook, fresh_model)
    return impl_out, model_out


def build_harness(ck, hook):
    t = time.time()
    rc, out = core.cargo_build(["c18"], features=["h7"] if hook else None)
    ck.coverage["harness_build_s"] = round(time.time() - t, 1)
    if rc != 0:
        ck.log("harness build failed:\n" + out[-4000:])
        ck.obligation("harness-build:c18", "build", False, out[-3000:])
        return False
    return True


def pregen(repo=None):
    """Writes coq/Gen/StackTables.v and coq/Gen/UnsafeSites.v from the sources of /repo (needed before
    any Coq build of Mem/Stack*.v, Mem/Ledger.v, Props/C18*.v)."""
    return c18_translate.generate(repo)


# --------------------------------------------------------------------------- stack scripts (hook H7)

def gen_script(rng, maxlen):
    ops = []
    n = rng.range(3, maxlen)
    for _ in range(n):
        c = rng.below(100)
        if c < 50:
            ops.append(rng.below(10))                    # push of a kind
        elif c < 72:
            ops.append(10 + rng.below(10))               # typed pop
        elif c < 80:
            ops.append(rng.choice([20, 21]))             # pop_arg / pop_arg_as_idx
        elif c < 86:
            ops.append(22)                               # peek_sealed_cont
        elif c < 90:
            ops.append(23)                               # clear_eqs
        elif c < 93:
            ops.append(24)                               # unwind
        elif c < 97:
            ops.append(25)                               # drop_top
        else:
            ops.append(rng.choice([26, 27]))
    return ".".join(map(str, ops))


def run_stack(ck, scripts):
    exe_impl = core.harness_bin("c18")
    rc1, impl_out, e1 = core.run_sharded(exe_impl, ["stack"], scripts)
    rc2, model_out = 0, [None] * len(scripts)
    if ck.model_exe:
        rc2, model_out, e2 = core.run_sharded(ck.model_exe, ["stack"], scripts)
    hit = None
    if rc1:
        hit = find_crasher(exe_impl, ["stack"], crash_candidates(scripts, impl_out)) or find_crasher(exe_impl, ["stack"], scripts)
        if hit:
            ck.violation("abort:stack", "the harness process died (abort / signal) while replaying a script of stack operations",
                         {"stack_script": hit[0], "stderr": hit[1]})
    if (rc1 and not hit) or rc2:
        ck.obligation("stack-correspondence-run", "internal", False, "rc=%s/%s %s" % (rc1, rc2, e1[-800:]))
    for sc, a, b in zip(scripts, impl_out, model_out):
        ck.case(key="stack:" + sc, nontrivial=(sc.count(".") >= 5))
        ck.hist("stack_script_length", min((sc.count(".") + 1) // 10 * 10, 60))
        if a.startswith("!PANIC"):
            ck.violation("stack-panic", "the evaluation stack panicked while replaying a script of its own operations",
                         {"stack_script": sc, "impl": a[:300]})
        elif b is None or a == "<missing>":
            continue
        elif b.startswith("!"):
            obligation_capped(ck, "stack-model:error-state-reached", "correspondence", "script %s : %s" % (sc[:300], b))
        elif a != b:
            obligation_capped(ck, "correspondence:stack-model-vs-rust", "correspondence",
                              "script %s\nimpl  %s\nmodel %s" % (sc[:300], a[:500], b[:500]))


# --------------------------------------------------------------------------- whole programs

PROG_TEMPLATES = [
    # arrays, folds, persistent vector sharing
    "let xs = std.array.generate (fun i => i * %(a)d) %(n)d in std.array.fold_left (+) 0 (xs @ xs @ std.array.map (fun x => x + 1) xs)",
    "let xs = std.array.generate (fun i => {v = i, w = [i, i + %(a)d]}) %(n)d in std.array.map (fun r => r.w) xs |> std.array.flatten |> std.array.length",
    # records, recursive fields, merge with overriding (revertible thunks, saturate)
    "let r = {a = %(a)d, b = a + 1, c = b * 2, d = {e = c, f = a}} in (r & {a | force = %(b)d}).d",
    "let base = {x | default = %(a)d, y = x + 1, z = [x, y]} in [base, base & {x = %(b)d}, base & {x = %(n)d} & {w = 1}]",
    "{a = {b = {c = %(a)d}}} & {a = {b = {d = %(b)d}}} & {a.e = [%(n)d]}",
    # string interpolation (StrChunk / StrAcc stack items), nested
    "let s = \"x%%{std.string.from_number %(a)d}y%%{\"in%%{std.string.from_number %(b)d}ner\"}z\" in std.string.length s + %(n)d",
    "std.array.generate (fun i => \"k%%{std.string.from_number i}\") %(n)d |> std.string.join \",\"",
    # equality on structures (Eq stack items), incl. failure midway
    "[[%(a)d, {x = [1, 2, {y = %(b)d}]}], \"s\"] == [[%(a)d, {x = [1, 2, {y = %(b)d}]}], \"s\"]",
    "{a = [1, 2, %(a)d], b = {c = \"x\"}} == {a = [1, 2, %(b)d], b = {c = \"x\"}}",
    # contracts: labels carry a thunk (arg_idx), blame unwinds the stack
    "let f | Number -> Number = fun x => x + %(a)d in std.array.map f (std.array.generate (fun i => i) %(n)d)",
    "([%(a)d, %(b)d, \"no\"] | Array Number) |> std.array.length",
    "let C = std.contract.from_predicate (fun x => x > %(a)d) in ({v = %(b)d} | {v | C}).v",
    "{x | {y | Number, z | String}} & {x = {y = %(a)d, z = %(b)d}}",
    # laziness, black-holing, infinite recursion, deep recursion (budget exhaustion mid-way)
    "let rec f = fun n => if n == 0 then 0 else 1 + f (n - 1) in f %(big)d",
    "let rec loop = fun n => loop (n + 1) in loop %(a)d",
    "{a = b, b = a}.a",
    "let x = [1, 2, x] in std.array.length x + %(a)d",
    "let rec fib = fun n => if n < 2 then n else fib (n - 1) + fib (n - 2) in fib %(fib)d",
    # deep_seq / force / lock bit on thunks
    "%%deep_seq%% {a = [1, {b = %(a)d}], c = {d = [%(b)d]}} \"done\"",
    "%%force%% (std.array.generate (fun i => {k = i, l = [i]}) %(n)d)",
    # enums, match, typed blocks
    "let f = match { 'A x => x + %(a)d, 'B => %(b)d, _ => 0 } in [f ('A 1), f 'B, f 'C]",
    "(let id : forall a. a -> a = fun x => x in id %(a)d) + (std.array.fold_right (fun x acc => x + acc) 0 [1, 2, %(b)d])",
    # errors in the middle of a data structure
    "{ok = %(a)d, bad = 1 + \"s\", after = [1, 2]}",
    "std.array.map (fun x => if x == %(a)d then std.fail_with \"boom\" else x) (std.array.generate (fun i => i) %(n)d)",
    "std.record.map (fun k v => v + %(a)d) {p = 1, q = 2, r = \"x\"}",
    "let r = std.record.insert \"k%(a)d\" %(b)d {base = [1]} in std.record.remove \"base\" r",
    "std.serialize 'Json {a = [%(a)d, {b = \"x\"}], c = null} |> std.deserialize 'Json",
    "std.array.sort (fun x y => if x < y then 'Lesser else if x > y then 'Greater else 'Equal) (std.array.generate (fun i => (i * %(a)d) %% 7) %(n)d)",
]


def gen_programs(rng, n):
    out = []
    for _ in range(n):
        t = rng.choice(PROG_TEMPLATES)
        params = dict(a=rng.below(9) + 1, b=rng.below(9) + 1, n=rng.choice([0, 1, 2, 5, 33, 40]),
                      big=rng.choice([3, 50, 400]), fib=rng.choice([2, 8, 14]))
        prog = t % params
        # the same program completes, fails, or is abandoned (budget) at different points
        fuel = rng.choice([0, 7, 40, 200, 1000, 5000, 2000000, 2000000])
        out.append("%d\t%s" % (fuel, prog.replace("\\", "\\\\").replace("\n", "\\n")))
    return out


def run_progs(ck, progs, label="prog"):
    exe_impl = core.harness_bin("c18")
    rc, outs, err = core.run_sharded(exe_impl, ["prog"], progs, timeout=1500)
    if rc:
        # a crash of the harness process itself (abort / segfault) is the property failing
        cands = crash_candidates(progs, outs)
        seen = 0
        for cand in cands[:8]:
            hit = find_crasher(exe_impl, ["prog"], [cand])
            if not hit:
                continue
            seen += 1
            fuel, prog = hit[0].split("\t", 1)
            sig = hit[1].strip().split("\n")[-1][:160] if hit[1].strip() else "killed by a signal"
            ck.violation("prog-abort:" + hashlib.sha1(prog.encode()).hexdigest()[:10],
                         "the process died (abort / signal, no structured error) while evaluating or abandoning a program: " + sig,
                         {"program": core_unescape(prog), "program_line": hit[0], "fuel": int(fuel), "stderr": hit[1][-2500:],
                          "how_to_replay": "./verif check C18 --replay <this file>"})
        if not seen:
            ck.violation("prog-abort", "the harness process died while evaluating generated programs (abort / signal); not reproduced on a single input",
                         {"stderr": err[-1500:]}, no_input=True)
    for p, o in zip(progs, outs):
        ck.case(key=label + ":" + p, nontrivial=True)
        cls = o.split(" ")[1] if o.startswith("ERR ") else o.split(" ")[0]
        ck.hist("program_outcome" if label == "prog" else label + "_program_outcome", cls)
        if o.startswith("ERR Panic"):
            fuel, prog = p.split("\t", 1)
            ck.violation("prog-panic:" + hashlib.sha1(prog.encode()).hexdigest()[:10], "panic (debug assertion / internal invariant) while evaluating or abandoning a program",
                         {"program": core_unescape(prog), "program_line": p, "fuel": int(fuel), "impl": o[:500],
                          "how_to_replay": "./verif check C18 --replay <this file>"})
    return outs


def core_unescape(s):
    return s.replace("\\n", "\n").replace("\\\\", "\\")


def thunk_eq_probe(ck):
    """`==` on two thunk values: PartialEq for NickelValue calls PartialEq for Thunk (derived), which
    compares the inner NickelValue again: unbounded recursion.  Run in a child process."""
    exe_impl = core.harness_bin("c18")
    try:
        p = subprocess.run([exe_impl, "thunkeq"], stdout=subprocess.PIPE, stderr=subprocess.PIPE, timeout=120)
        rc = p.returncode
    except subprocess.TimeoutExpired:
        rc = "timeout"
    ck.coverage["thunk_partial_eq_probe"] = "exit %s" % rc
    return rc


def drop_chain_probe(ck):
    """Drop for ValueBlockRc recurses through drop_in_place of the payload: a chain of N thunks (each
    held by the environment of the next) is dropped with native recursion depth N.  On an 8 MiB stack
    the debug build aborts well below N = 100000.  Not an invalid memory access (the guard page
    turns it into an abort) but a crash of the anchored code: recorded as a known finding."""
    exe_impl = core.harness_bin("c18")
    try:
        p = subprocess.run([exe_impl, "dropchain", "100000", "8192"], stdout=subprocess.PIPE, stderr=subprocess.PIPE,
                           timeout=300, text=True, errors="replace")
        rc, err = p.returncode, p.stderr
    except subprocess.TimeoutExpired:
        rc, err = "timeout", ""
    ck.coverage["drop_chain_probe"] = "exit %s" % rc
    if rc != 0:
        ck.violation("deep-drop-stack-overflow",
                     "dropping a chain of 100000 thunks on an 8 MiB stack aborts with a stack overflow (recursive Drop)",
                     {"how_to_replay": ".build/target/debug/c18 dropchain 100000 8192", "stderr": err[-500:],
                      "nickel_program": "let rec mk = fun n acc => if n == 0 then acc else mk (n - 1) (fun _ => acc) in let x = mk 10000 null in %seq% x 1"})


def run(ck):
    hook = have_hook()
    ck.coverage["hook_H7_present"] = hook
    # 1. translators (fail closed) and proof obligations
    g = pregen()
    ck.coverage["generated_tables"] = [
        {"file": "coq/Gen/StackTables.v", "source": "core/src/eval/stack.rs", "source_sha": g["stack_sha"]},
        {"file": "coq/Gen/UnsafeSites.v", "sites": len(g["sites"]), "source_sha": g["shas"]}]
    ck.obligation("translator: stack.rs pairings (impl StackItem, item_size, drop_top, guarded unchecked pops/reads) -> Gen/StackTables.v",
                  "translator", not g["problems"], "\n".join(g["problems"]))
    if ck.tier == "thorough":
        # rebuild this property's part of the development from scratch (only its own files)
        import glob
        with core.Lock("coq"):
            for pat in ("Mem/*.vo", "Mem/*.glob", "Mem/*.vok", "Mem/*.vos", "Props/C18*.vo", "Props/C18*.vok", "Props/C18*.vos",
                        "Gen/StackTables.vo", "Gen/UnsafeSites.vo"):
                for f in glob.glob(os.path.join(core.COQ, pat)):
                    os.remove(f)
    okc = ck.coq("Props.C18")
    if ck.tier == "thorough" and okc:
        t = time.time()
        rcc, outc = core.sh(["timeout", "1500", "coqchk", "-silent", "-o", "-Q", core.COQ, "NV", "NV.Props.C18"], cwd=core.COQ, timeout=1600)
        ck.coverage["coqchk_s"] = round(time.time() - t, 1)
        ck.obligation("coqchk NV.Props.C18", "coqchk", rcc == 0, outc[-1500:])
    # 2. builds.  A broken proof obligation does NOT stop here: the harness is still built against the
    #    working tree and everything below runs as the search for a concrete failing input.
    ok = build_harness(ck, hook)
    if not ok:
        return
    last_good = os.path.join(core.BUILD, "ocaml", "c18", "modelrun")
    had_model = os.path.exists(last_good)
    ck.model_exe = ck.model("C18.v")
    fresh_model = bool(ck.model_exe)
    if not ck.model_exe:
        if had_model:
            # the Coq file that fails is one the extraction needs: fall back to the last good extraction
            ck.model_exe = last_good
            ck.coverage["model"] = "last good extraction (the current Coq development does not extract)"
        else:
            ck.coverage["model"] = "none: direct oracles only (shadow copy, panics, process death)"
    rng = core.SplitMix64(ck.seed * 1000003 + 18)
    # 3. value-level histories: model vs implementation (+ shadow oracle inside the harness)
    cases = corpus()
    n = 1500 if ck.tier == "quick" else 30000
    for i in range(n):
        cases.append(gen_history(rng.fork(), 60 if rng.chance(1, 10) else 25))
    if ck.tier == "thorough":
        ex = exhaustive_small(3)
        ck.coverage["exhaustive_small_histories"] = len(ex)
        cases += ex
    impl_out, model_out = run_hist(ck, cases, hook, fresh_model)
    for c, a in list(zip(cases, impl_out))[:2]:
        ck.sample({"history": c[:300], "impl_trace": a[:400]})
    ck.coverage["histories"] = len(cases)
    # 4. stack scripts: model vs the real Stack through the replay hook
    if hook:
        scripts = [gen_script(rng.fork(), 60 if rng.chance(1, 8) else 20) for _ in range(1000 if ck.tier == "quick" else 20000)]
        run_stack(ck, scripts)
        ck.coverage["stack_scripts"] = len(scripts)
    else:
        ck.coverage["stack_scripts"] = "hook H7 absent: the stack model is tied by the generated tables and the site ledger only"
    # 5. whole programs: completing, failing, budget-exhausted (abandoned mid-evaluation)
    progs = gen_programs(rng.fork(), 300 if ck.tier == "quick" else 6000)
    outs = run_progs(ck, progs)
    ck.coverage["programs"] = len(progs)
    drop_chain_probe(ck)
    thunk_eq_probe(ck)
    if outs:
        ck.sample({"program": progs[0][:200], "outcome": outs[0][:120]})
    ck.coverage["rule"] = ("history = seeded random sequence of value-level operations (constructors of every block kind, "
                           "clone, drop, content_make_mut / content_mut + mutation, strong_clone, with_pos_idx, lens take/restore, "
                           "thunk <-> value conversions, thunk get/mk_update_frame/update/reset/lock/revert/build_cached/"
                           "into_closure/saturate/map); ~5% of slot references are stale on purpose; non-trivial = >= 6 ops with a clone/frame/revert. "
                           "stack script = random pushes of the 10 item kinds / typed pops / pop_arg / peek / clear_eqs / unwind / drop_top. "
                           "program = template x parameters x step budget in {0,7,40,200,1000,5000,unbounded}")
    ck.coverage["partial"] = ("proved: reference-count, unique-access, move-out, thunk-tag and stack-marker PROTOCOLS for every history of the modelled operations; "
                              "sampled only: layout, bit patterns, transmutes, provenance, allocator, the tag/type pairing of checked decodes, "
                              "and the evaluator's use of these APIs (whole programs under debug assertions; Miri / AddressSanitizer in the thorough tier)")
    ck.trusted += ["extraction: ExtrOcamlBasic + ExtrOcamlNativeString", "harness bin c18 (shadow oracle: plain-Rust value-semantics mirror)",
                   "hook H7 (verif_ref_count, stack_replay)" if hook else "no hook: counts observed as unique/shared only",
                   "translator checks/c18_translate.py (syntactic)", "generators checks/c18.py (SplitMix64, VERIF_SEED)"]
    ck.assumptions += ["the hand-written model of mod.rs / lens.rs / lazy.rs (tied by exact reference counts on generated histories)",
                       "std::rc::Rc, RefCell, Vec, HashMap, IndexMap, imbl-sized-chunks behave as documented",
                       "arrays of the histories have fewer than 32 elements (single-leaf vectors); environments of revertible thunks are empty"]
    # 6. targeted search when something is broken or a function of the representation changed
    foc, why = c18_search.focus(g)
    concrete = [v for v in ck.violations if not v["no_input"]]
    if (ck.broken or foc) and not concrete:
        c18_search.run(ck, sys.modules[__name__], g, foc, why, rng.fork(), hook, fresh_model)
    elif foc:
        ck.coverage["search_focus"] = sorted("%s::%s" % x for x in foc)
    if ck.tier == "thorough" or (os.environ.get("VERIF_C18_ASAN") and ck.broken and not [v for v in ck.violations if not v["no_input"]]):
        sanitizers(ck, rng, cases, progs)


def replay(ck, path):
    obj = json.load(open(path))
    hook = have_hook()
    pregen()
    ok = build_harness(ck, hook)
    if not ok:
        return
    last_good = os.path.join(core.BUILD, "ocaml", "c18", "modelrun")
    had_model = os.path.exists(last_good)
    ck.model_exe = ck.model("C18.v") or (last_good if had_model else None)
    if "case" in obj:
        run_hist(ck, [obj["case"]], hook)
    if "stack_script" in obj and hook:
        run_stack(ck, [obj["stack_script"]])
    if obj.get("program_line"):
        run_progs(ck, [obj["program_line"]])
    elif "program" in obj:
        run_progs(ck, ["%d\t%s" % (obj.get("fuel", 2000000), obj["program"].replace("\\", "\\\\").replace("\n", "\\n"))])
    if "cases" in obj:
        run_hist(ck, obj["cases"], hook)


# --------------------------------------------------------------------------- sanitizers (search only)

SAN_DIR = os.path.join(core.BUILD, "c18")


def find_crasher(exe, args, lines, env=None, timeout=300):
    """Which single input kills the process / makes the tool report?  Returns (line, stderr) or None."""
    for l in lines:
        try:
            p = subprocess.run([exe] + args, input=l + "\n", stdout=subprocess.PIPE, stderr=subprocess.PIPE,
                               text=True, errors="replace", timeout=timeout, env=env)
        except subprocess.TimeoutExpired:
            return l, "timeout"
        if p.returncode != 0:
            e = p.stderr
            return l, (e if len(e) < 9000 else e[:5000] + "\n[...]\n" + e[-3000:])
    return None


def miri_run(ck, lines, ignore_leaks, label):
    """The harness under Miri on a handful of tiny histories.  A report is a violation (with the
    input as replay); no report is NOT presented as the universal claim."""
    inp = os.path.join(SAN_DIR, "miri-%s.in" % label)
    os.makedirs(SAN_DIR, exist_ok=True)
    open(inp, "w").write("\n".join(lines) + "\n")
    flags = "-Zmiri-disable-isolation" + (" -Zmiri-ignore-leaks" if ignore_leaks else "")
    env = dict(os.environ, CARGO_TARGET_DIR=os.path.join(SAN_DIR, "miri-target"), MIRIFLAGS=flags, CARGO_NET_OFFLINE="true")
    feats = ["--features", "h7"] if have_hook() else []
    t = time.time()
    with core.Lock("c18-miri"):
        try:
            p = subprocess.run(["cargo", "+nightly", "miri", "run", "--offline", "--quiet", "--bin", "c18"] + feats + ["--", "hist"],
                               cwd=core.HARNESS, stdin=open(inp), stdout=subprocess.PIPE, stderr=subprocess.PIPE,
                               text=True, errors="replace", env=env, timeout=5400)
            rc, out, err = p.returncode, p.stdout, p.stderr
        except subprocess.TimeoutExpired:
            rc, out, err = 124, "", "timeout"
    return rc, out.split("\n"), err, round(time.time() - t, 1)


def sanitizers(ck, rng, cases, progs):
    san = {}
    # ---- Miri: value-level API only (loading the stdlib under Miri is far too slow)
    rcv, outv = core.sh(["cargo", "+nightly", "miri", "--version"], cwd=core.HARNESS, timeout=120)
    if rcv != 0:
        san["miri"] = "not available: " + outv.strip()[-200:]
    else:
        small = corpus() + [gen_history(rng.fork(), 10) for _ in range(60)]
        # the model says which histories leave unreachable cycles behind: leaks are checked on the others
        rcm, model_out, _ = core.run_lines(ck.model_exe, [], small)
        leaky = [c for c, o in zip(small, model_out) if not o.endswith("leak=0")]
        clean = [c for c, o in zip(small, model_out) if o.endswith("leak=0")]
        for label, lines, ign in (("clean", clean, False), ("cyclic", leaky, True)):
            if not lines:
                continue
            rc, out, err, secs = miri_run(ck, lines, ign, label)
            san["miri_" + label] = {"histories": len(lines), "rc": rc, "seconds": secs}
            ub = "Undefined Behavior" in err or "memory leaked" in err or (rc not in (0,) and "error" in err)
            if rc == 124:
                san["miri_" + label]["note"] = "timed out: no verdict"
            elif ub:
                ck.violation("miri:" + label, "Miri reports undefined behaviour / a leak the model does not predict while replaying value-level histories",
                             {"cases": lines, "miri_stderr": err[-3000:],
                              "how_to_replay": "cd harness && MIRIFLAGS=-Zmiri-disable-isolation cargo +nightly miri run --bin c18 --features h7 -- hist < cases"})
            else:
                # the traces under Miri are the same as natively
                exe_impl = core.harness_bin("c18")
                _, nat, _ = core.run_lines(exe_impl, ["hist"], lines)
                if [o for o in out if o] != [o for o in nat if o]:
                    ck.obligation("miri-vs-native trace", "correspondence", False, "the harness prints different traces under Miri")
    # ---- AddressSanitizer build: histories, stack scripts and whole programs
    env = dict(os.environ, CARGO_TARGET_DIR=os.path.join(SAN_DIR, "asan-target"), RUSTFLAGS="-Zsanitizer=address",
               CARGO_NET_OFFLINE="true")
    feats = ["--features", "h7"] if have_hook() else []
    t = time.time()
    with core.Lock("c18-asan"):
        rc, out = core.sh(["cargo", "+nightly", "build", "--offline", "--quiet", "--target", "x86_64-unknown-linux-gnu", "--bin", "c18"] + feats,
                          cwd=core.HARNESS, env=env, timeout=5400)
    san["asan_build_s"] = round(time.time() - t, 1)
    if rc != 0:
        san["asan"] = "build failed (no verdict): " + out[-400:]
    else:
        exe = os.path.join(SAN_DIR, "asan-target", "x86_64-unknown-linux-gnu", "debug", "c18")
        aenv = {"ASAN_OPTIONS": "detect_leaks=0:abort_on_error=0"}
        batches = [("hist", cases[:6000])]
        if have_hook():
            batches.append(("stack", [gen_script(rng.fork(), 40) for _ in range(3000)]))
        batches.append(("prog", progs[:1500]))
        for mode, lines in batches:
            rc, outs, err = core.run_sharded(exe, [mode], lines, env=aenv, timeout=3000)
            san["asan_" + mode] = {"inputs": len(lines), "rc": rc}
            if rc != 0 or "AddressSanitizer" in err:
                hit = find_crasher(exe, [mode], lines, env=dict(os.environ, **aenv))
                rep = (hit[1] if hit else err)
                if "stack-overflow" in rep and ("drop_in_place" in rep or "drop_slow" in rep):
                    # native recursion of Drop, already reported by the probe
                    ck.violation("deep-drop-stack-overflow", "AddressSanitizer: stack overflow in the recursive Drop of a long chain of thunks (abandoned diverging program)",
                                 {"program_line": hit[0] if hit else None, "stderr": rep[-1500:]})
                    continue
                ck.violation("asan:" + mode, "AddressSanitizer report / abnormal exit of the sanitized harness",
                             {("case" if mode == "hist" else "stack_script" if mode == "stack" else "program_line"): hit[0] if hit else None,
                              "stderr": (hit[1] if hit else err)[-3000:]})
    ck.coverage["sanitizers"] = san
    ck.coverage["sanitizers_note"] = ("Miri and AddressSanitizer runs are a search for counterexamples on the real code "
                                      "(layout, transmute, provenance, allocator are only covered this way); the absence of a report is not a proof")


def setup_gen():
    """called by `./verif setup` before the Coq build: regenerate coq/Gen/{StackTables,UnsafeSites}.v"""
    return pregen()
