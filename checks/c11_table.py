"""C11 translator: the seal-guard table.

Extracts the list of primitive operations from the *source* of /repo (the UnaryOp / BinaryOp / NAryOp
enums of core/src/term/mod.rs, their spellings from the Display impls, the `%name%` tokens from
parser/src/lexer.rs, the arities of NAryOp from `arity()`), builds one Nickel program per strict operand
position with a *sealed* value in that position (the value is sealed by the real polymorphic contract
`forall a. a -> Dyn`), plus the non-primop eliminators (application, if, match, interpolation, ...) and
the sealed-record-tail operations, runs them through nkeval and renders the observed outcome classes as
coq/Gen/SealTable.v.  Nothing here decides anything: the Coq theorem C11_seal_guard_generated does.

A primop that has neither a `%name%` token nor a hand-written source template below is emitted with
class Unexplored, which the theorem rejects (fail closed).
"""
import os
import re

from vlib import core

TERM_RS = "core/src/term/mod.rs"
LEXER_RS = "parser/src/lexer.rs"

# Source templates for operations that have no `%name%` spelling (operators and special syntax).
# X is the sealed value, F is a filler operand.  Keyed by (enum, variant-with-pattern as written in the
# Display impl).  One template per strict position.
TEMPLATES = {
    ("UnaryOp", "IfThenElse"): ["if X then 1 else 2"],
    ("UnaryOp", "BoolAnd"): ["X && true"],
    ("UnaryOp", "BoolOr"): ["X || true"],
    ("UnaryOp", "BoolNot"): ["!X"],
    ("UnaryOp", "Blame"): ["%blame% X"],
    ("UnaryOp", "EnumEmbed(_)"): ["%enum/embed% foo X"],
    ("UnaryOp", "TagsOnlyMatch { .. }"): ["X |> match { 'a => 1, 'b => 2 }"],
    ("UnaryOp", "RecordAccess(_)"): ["X.foo"],
    ("UnaryOp", "ChunksConcat"): ['"a%{X}b"'],
    ("UnaryOp", "StringIsMatchCompiled(_)"): ['(%string/is_match% "a") X'],
    ("UnaryOp", "StringFindCompiled(_)"): ['(%string/find% "a") X'],
    ("UnaryOp", "StringFindAllCompiled(_)"): ['(%string/find_all% "a") X'],
    ("UnaryOp", "Force { .. }"): ["%force% X"],
    # no source syntax; pushed by %contract/apply% / %contract/check% around the result of a custom contract
    ("UnaryOp", "ContractPostprocessResult"): ["1 | (%contract/custom% (fun l v => X))"],
    ("UnaryOp", "ContractAttachDefaultLabel"):
        ["1 | (%contract/custom% (fun l v => %contract/check% (%contract/custom% (fun l2 v2 => X)) l v))"],
    ("UnaryOp", "Seq"): ["%seq% X 2"],
    # the grammar productions of these two are commented out and eval_op1 has `unimplemented!()`:
    # the translator checks that the spelling is still rejected by the parser
    ("UnaryOp", "RecDefault"): ["UNREACHABLE:%rec_default% X"],
    ("UnaryOp", "RecForce"): ["UNREACHABLE:%rec_force% X"],
    # second operand of unseal with a real key cannot be written in source: use the contract's own unseal
    ("BinaryOp", "Unseal"): ["%unseal% X 1 2",
                             "PROGRAM:let f | forall a. forall b. a -> b = fun X => X in f 7"],
    ("BinaryOp", "Plus"): ["X + F", "F + X"],
    ("BinaryOp", "Sub"): ["X - F", "F - X"],
    ("BinaryOp", "Mult"): ["X * F", "F * X"],
    ("BinaryOp", "Div"): ["X / F", "F / X"],
    ("BinaryOp", "Modulo"): ["X % F", "F % X"],
    ("BinaryOp", "StringConcat"): ["X ++ F", "F ++ X"],
    ("BinaryOp", "Eq"): ["X == F", "F == X"],
    ("BinaryOp", "LessThan"): ["X < F", "F < X"],
    ("BinaryOp", "LessOrEq"): ["X <= F", "F <= X"],
    ("BinaryOp", "GreaterThan"): ["X > F", "F > X"],
    ("BinaryOp", "GreaterOrEq"): ["X >= F", "F >= X"],
    # pushed by contract/postprocess_result as `%blame% (%label/with_error_data% (%force% [.]) label)`;
    # the second operand is always the label built by the interpreter
    ("BinaryOp", "LabelWithErrorData"): ["1 | (%contract/custom% (fun l v => 'Error X))",
                                         "INTERNAL:operand is the label allocated by contract/apply"],
    ("BinaryOp", "RecordGet"): ['F."%{X}"', 'X."%{"foo"}"'],
    ("BinaryOp", "ArrayConcat"): ["X @ F", "F @ X"],
    ("BinaryOp", "Merge(_)"): ["X & F", "F & X"],
}

# Eliminators that are not (only) primops, and deep positions.  name -> program body using X.
SPECIAL = [
    ("application", "X 1"),
    ("application-arg-of-sealed-fun", "X X"),
    ("if-condition", "if X then 1 else 2"),
    ("match-enum", "X |> match { 'a => 1, _ => 2 }"),
    ("match-constant-pattern", "X |> match { 1 => 1, _ => 2 }"),
    ("match-record-pattern", "X |> match { {a} => 1, _ => 2 }"),
    ("match-array-pattern", "X |> match { [a] => 1, _ => 2 }"),
    ("match-or-pattern", "X |> match { 1 or 2 => 1, _ => 2 }"),
    ("match-guard", "X |> match { y if y => 1, _ => 2 }"),
    ("let-destructuring-record", "let {a} = X in a"),
    ("let-destructuring-array", "let [a] = X in a"),
    ("fun-destructuring", "(fun {a} => a) X"),
    ("string-interpolation", '"a%{X}b"'),
    ("multiline-string-interpolation", 'm%"a%{X}b"%'),
    ("equality-left", "X == 1"),
    ("equality-right", "1 == X"),
    ("equality-self", "X == X"),
    ("equality-inside-array", "[X] == [X]"),
    ("equality-inside-record", "{a = X} == {a = X}"),
    ("disequality", "X != 1"),
    ("serialize-json", "std.serialize 'Json X"),
    ("serialize-yaml", "std.serialize 'Yaml X"),
    ("serialize-toml-inside-record", "std.serialize 'Toml {a = X}"),
    ("serialize-inside-array", "std.serialize 'Json [X]"),
    ("export-toplevel", "X"),
    ("export-inside-array", "[X]"),
    ("export-inside-record", "{a = X}"),
    ("deep_seq-inside-array", "%deep_seq% [X] 1"),
    ("force-inside-record", "%force% {a = X}"),
    ("static-access", "X.foo"),
    ("dynamic-access", 'X."%{"foo"}"'),
    ("dynamic-field-name", '{ "%{X}" = 1 }'),
    ("contract-annotation-number", "X | Number"),
    ("contract-annotation-array", "X | Array Dyn"),
    ("contract-annotation-fun", "X | Dyn -> Dyn"),
    ("contract-annotation-record", "X | {a : Number}"),
    ("contract-annotation-dict", "X | {_ : Number}"),
    ("contract-annotation-enum", "X | [| 'a |]"),
    ("used-as-contract", "1 | X"),
    ("used-as-type-contract", "((fun y => y) | X -> Dyn) 1"),
    ("merge-left", "X & {a = 1}"),
    ("merge-right", "{a = 1} & X"),
    ("array-concat", "X @ [1]"),
    ("pipe-into-std-typeof", "std.typeof X"),
    ("std-is_number", "std.is_number X"),
    ("std-to_string", "std.to_string X"),
    ("std-array-length", "std.array.length X"),
    ("std-record-fields", "std.record.fields X"),
    ("std-array-fold-element", "std.array.fold_left (fun acc y => acc + y) 0 [X]"),
    ("std-array-elem", "std.array.elem X [1]"),
    ("std-array-sort-elements", "std.array.sort (fun a b => 'Lesser) [X, X]"),
    ("bool-and-right-then-if", "if true && X then 1 else 2"),
    ("unseal-wrong-position-key", "%unseal% X 1 2"),
    ("seal-key-position", "%seal% X 1 2"),
    ("arithmetic-negation", "-X"),
    ("typeof-then-compare", "%typeof% X == 'Number"),
]

# The operations that legitimately see a sealed value.  name -> (program, expected to be a value)
ALLOWED = [
    ("seq", "%seq% X 2"),
    ("seq-nested-seals", None),          # filled below: value sealed twice, then seq
    ("unseal-matching-key", None),       # identity under forall a. a -> a
]

# Sealed record tails.  The function receives R = the record {a = 1; <sealed tail>} obtained from the real
# contract `forall r. {a : Number; r} -> Dyn` applied to TAILS[i]; VISIBLE is what it may see.
TAIL_OPS = [
    # (name, body, must_guard)   must_guard: the operation targets the tail itself, TailAccess/Blame required
    ("static-access-tail-field", "R.b", True),
    ("dynamic-access-tail-field", 'R."%{"b"}"', True),
    ("record-get-tail-field", 'std.record.get "b" R', True),
    ("remove-tail-field", '%record/remove% "b" R', True),
    ("remove-with-opts-tail-field", '%record/remove_with_opts% "b" R', True),
    ("std-remove-tail-field", 'std.record.remove "b" R', True),
    ("map", "%record/map% R (fun k v => v)", True),
    ("std-map", "std.record.map (fun k v => v) R", True),
    ("freeze", "%record/freeze% R", True),
    ("merge-left", "R & {zz = 1}", True),
    ("merge-right", "{zz = 1} & R", True),
    ("merge-self", "R & R", True),
    ("std-insert-new-field", 'std.record.insert "zz" 1 R', True),
    ("std-insert-tail-field", 'std.record.insert "b" 1 R', True),
    ("std-update-tail-field", 'std.record.update "b" 1 R', True),
    ("std-remove-visible-field", 'std.record.remove "a" R', True),
    ("match-record-pattern-tail-field", "R |> match { {a, b} => b, _ => 0 }", False),
    ("destructuring-tail-field", "let {a, b} = R in b", False),
    ("destructuring-rest", "let {a, ..rest} = R in rest", False),
    ("access-visible-field", "R.a", False),
    ("access-absent-field", "R.zz", False),
    ("insert-new-field", '%record/insert% "zz" R 1', False),
    ("insert-tail-field", '%record/insert% "b" R 1', False),
    ("remove-visible-field", '%record/remove% "a" R', False),
    ("fields", "%record/fields% R", False),
    ("fields-with-opts", "%record/fields_with_opts% R", False),
    ("std-fields", "std.record.fields R", False),
    ("values", "%record/values% R", False),
    ("std-values", "std.record.values R", False),
    ("has-field-tail-field", '%record/has_field% "b" R', False),
    ("std-has-field-tail-field", 'std.record.has_field "b" R', False),
    ("field-is-defined-tail-field", '%record/field_is_defined% "b" R', False),
    ("length", "std.record.length R", False),
    ("to-array", "std.record.to_array R", False),
    ("equality-self", "R == R", False),
    ("equality-visible-part", "R == {a = 1}", False),
    ("equality-with-tail-fields", "R == {a = 1, b = 2}", False),
    ("serialize-json", "std.serialize 'Json R", False),
    ("to-string-interpolation", 'std.serialize \'Json {x = R}', False),
    ("export", "R", False),
    ("seq", "%seq% R 1", False),
    ("deep-seq", "%deep_seq% R 1", False),
    ("force", "%force% R", False),
    ("typeof", "%typeof% R", False),
    ("is-record", "std.is_record R", False),
    ("empty-with-tail", "%record/empty_with_tail% R", False),
    ("disjoint-merge", "%record/disjoint_merge% R {zz = 1}", False),
    ("split-pair", "(%record/split_pair% R {a = 1}).right_center", False),
    ("contract-closed-record", "R | {a : Number}", False),
    ("contract-open-record", "R | {a : Number; Dyn}", False),
    ("contract-dict", "R | {_ : Number}", False),
    ("contract-record-contract", "R | {a | Number}", True),
    ("array-of-record-fields", "[R.a]", False),
]
NESTED_FAMILIES = [
    ("nested-all-fields", "forall s. {a : Number; s} -> {a : Number; s}"),
    ("nested-no-field", "forall s. { ; s} -> { ; s}"),
]
# parametric round trips through nested / higher-rank row-polymorphic contracts: must evaluate to the value
ROUNDTRIPS = [
    ("row-roundtrip", "let f | forall r. {a : Number; r} -> {a : Number; r} = fun x => x in f {a = 1, b = 2}"),
    ("row-roundtrip-nested-all-fields",
     "let inner | forall s. {a : Number; s} -> {a : Number; s} = fun z => z in "
     "let f | forall r. {a : Number; r} -> {a : Number; r} = fun x => inner x in f {a = 1, b = 2}"),
    ("row-roundtrip-nested-no-field",
     "let inner | forall s. { ; s} -> { ; s} = fun z => z in "
     "let f | forall r. {a : Number; r} -> {a : Number; r} = fun x => inner x in f {a = 1, b = 2}"),
    ("row-roundtrip-nested-twice",
     "let inner | forall s. {a : Number; s} -> {a : Number; s} = fun z => z in "
     "let f | forall r. {a : Number; r} -> {a : Number; r} = fun x => inner (inner x) in f {a = 1, b = 2}"),
    ("row-roundtrip-higher-rank",
     "let f | forall r. (forall s. {a : Number; s} -> {a : Number; s}) -> {a : Number; r} -> {a : Number; r} "
     "= fun g x => g x in f (fun z => z) {a = 1, b = 2}"),
    ("row-roundtrip-nested-empty-outer-tail",
     "let inner | forall s. {a : Number; s} -> {a : Number; s} = fun z => z in "
     "let f | forall r. {a : Number; r} -> {a : Number; r} = fun x => inner x in f {a = 1}"),
    ("row-roundtrip-project-then-rebuild",
     "let inner | forall s. {a : Number; s} -> {a : Number; s} = fun z => z in "
     "let f | forall r. {a : Number, c : Number; r} -> {a : Number; r} = fun x => inner (%record/remove% \"c\" x) in f {a = 1, c = 3, b = 2}"),
]
TAILS = ["{a = 1, b = 2}", "{a = 1, b = 3, c = 4}"]
NO_TAIL = "{a = 1}"


def read(repo, rel):
    return open(os.path.join(repo, rel)).read()


def enum_variants(src, name):
    """Variants of `pub enum <name> { ... }`: (variant name, cfg-gated?)"""
    m = re.search(r"pub enum %s \{" % name, src)
    if not m:
        raise RuntimeError("enum %s not found in %s" % (name, TERM_RS))
    i = m.end()
    depth = 1
    j = i
    while depth:
        c = src[j]
        if c == "{":
            depth += 1
        elif c == "}":
            depth -= 1
        j += 1
    body = src[i:j - 1]
    out = []
    gated = False
    depth = 0
    for line in body.split("\n"):
        s = line.strip()
        if depth == 0:
            if s.startswith("#[cfg("):
                gated = True
                continue
            if s.startswith("//") or s.startswith("#[") or not s:
                continue
            m = re.match(r"([A-Z][A-Za-z0-9]*)\b", s)
            if m:
                out.append((m.group(1), gated))
                gated = False
        depth += s.count("{") + s.count("(") - s.count("}") - s.count(")")
    return out


def display_spellings(src, name):
    """[(pattern-as-written, variant name, spelling)] from `impl fmt::Display for <name>`."""
    m = re.search(r"impl fmt::Display for %s \{" % name, src)
    if not m:
        raise RuntimeError("Display impl for %s not found" % name)
    end = src.index("\n}\n", m.end())
    body = src[m.end():end]
    body = re.sub(r"#\[cfg\([^\]]*\)\]\s*[A-Za-z:]+\s*=>\s*write!\(f,\s*\"[^\"]*\"\),?", "", body)
    out = []
    for mm in re.finditer(r"((?:Self::)?[A-Z][A-Za-z0-9]*(?:\s*\([^=]*?\)|\s*\{[^=]*?\})?)\s*=>\s*\{?\s*write!\(\s*f,\s*\"([^\"]*)\"\s*\)", body, flags=re.S):
        pat = re.sub(r"\s+", " ", mm.group(1).replace("Self::", "")).strip()
        var = re.match(r"[A-Za-z0-9]+", pat).group(0)
        out.append((pat, var, mm.group(2)))
    return out


def nary_arities(src):
    m = re.search(r"impl NAryOp \{\s*pub fn arity\(&self\) -> usize \{\s*match self \{(.*?)\n        \}", src, flags=re.S)
    if not m:
        raise RuntimeError("NAryOp::arity not found")
    res = {}
    for mm in re.finditer(r"((?:\|?\s*NAryOp::[A-Za-z0-9]+\s*)+)=>\s*(\d+)", m.group(1)):
        for v in re.findall(r"NAryOp::([A-Za-z0-9]+)", mm.group(1)):
            res[v] = int(mm.group(2))
    return res


def lexer_tokens(src):
    return set(re.findall(r'#\[token\("(%[a-z_/0-9]+%)"\)\]', src))


def primop_entries(repo):
    """[(enum, pattern, spelling, arity, position (1-based), template or None)]"""
    term = read(repo, TERM_RS)
    toks = lexer_tokens(read(repo, LEXER_RS))
    arities = nary_arities(term)
    entries = []
    problems = []
    for enum, ar in (("UnaryOp", 1), ("BinaryOp", 2), ("NAryOp", None)):
        variants = enum_variants(term, enum)
        spell = display_spellings(term, enum)
        by_var = {}
        for pat, var, sp in spell:
            by_var.setdefault(var, []).append((pat, sp))
        for var, gated in variants:
            if gated:
                continue          # not compiled into the harness (feature off)
            if var not in by_var:
                problems.append("%s::%s has no Display spelling" % (enum, var))
                by_var[var] = [(var, "?")]
            n = ar if ar is not None else arities.get(var)
            if n is None:
                problems.append("NAryOp::%s has no arity" % var)
                n = 3
            for pat, sp in by_var[var]:
                tmpl = TEMPLATES.get((enum, pat))
                for pos in range(1, n + 1):
                    if tmpl is not None:
                        t = tmpl[pos - 1] if pos - 1 < len(tmpl) else None
                    elif "%" + sp + "%" in toks:
                        args = ["F"] * n
                        args[pos - 1] = "X"
                        t = "%" + sp + "% " + " ".join(args)
                    else:
                        t = None
                    entries.append((enum, pat, sp, n, pos, t))
    return entries, problems


SEAL1 = "let f | forall a. a -> Dyn = fun X => (%s) in f 1"
BARE1 = "let f = fun X => (%s) in f 1"


def programs(repo):
    """-> list of dicts {table, name, pos, src:[programs]}"""
    ents, problems = primop_entries(repo)
    progs = []
    for enum, pat, sp, n, pos, t in ents:
        name = "%s::%s %s" % (enum, pat, sp)
        if t is None:
            progs.append({"table": "primop", "name": name, "pos": pos, "src": []})
        elif t.startswith("INTERNAL:"):
            progs.append({"table": "primop", "name": name, "pos": pos, "src": [], "fixed": "Internal"})
        elif t.startswith("UNREACHABLE:"):
            progs.append({"table": "primop", "name": name, "pos": pos, "src": [SEAL1 % t[12:]], "unreachable": True})
        elif t.startswith("PROGRAM:"):
            progs.append({"table": "primop", "name": name, "pos": pos, "src": [t[8:]]})
        else:
            body = re.sub(r"\bF\b", "1", t)
            progs.append({"table": "primop", "name": name, "pos": pos, "src": [SEAL1 % body]})
    for name, body in SPECIAL:
        progs.append({"table": "special", "name": name, "pos": 0, "src": [SEAL1 % body]})
    progs.append({"table": "allowed", "name": "seq", "pos": 1, "src": [SEAL1 % "%seq% X 2"]})
    progs.append({"table": "allowed", "name": "seq-nested-seals", "pos": 1,
                  "src": ["let g | forall b. b -> Dyn = fun X => %seq% X 2 in let f | forall a. a -> Dyn = fun y => g y in f 1"]})
    progs.append({"table": "allowed", "name": "unseal-matching-key", "pos": 2,
                  "src": ["let f | forall a. a -> a = fun X => X in f 7"]})
    progs.append({"table": "special", "name": "unseal-other-key", "pos": 2,
                  "src": ["let f | forall a. forall b. a -> b = fun X => X in f 7"]})
    progs.append({"table": "special", "name": "unseal-not-sealed", "pos": 2,
                  "src": ["let f | forall a. Dyn -> a = fun X => X in f 7"]})
    for name, body, must in TAIL_OPS:
        tail_t = "let f | forall r. {a : Number; r} -> Dyn = fun R => (%s) in f %s"
        srcs = [tail_t % (body, t) for t in TAILS] + [tail_t % (body, NO_TAIL)]
        progs.append({"table": "tail", "name": name, "pos": 1 if must else 0, "src": srcs})
    # the same operations on a record whose sealed tail has been sealed a second time inside the tail of
    # ANOTHER row-polymorphic contract and given back (nested sealing): the inner contract lists all
    # the visible fields (so its own tail holds nothing but the outer sealed tail), or none of them
    for fam, inner_ty in NESTED_FAMILIES:
        for name, body, must in TAIL_OPS:
            tail_t = ("let inner | " + inner_ty + " = fun z => z in "
                      "let f | forall r. {a : Number; r} -> Dyn = fun R0 => let R = inner R0 in (%s) in f %s")
            srcs = [tail_t % (body, t) for t in TAILS] + [tail_t % (body, NO_TAIL)]
            progs.append({"table": "tail", "name": fam + ":" + name, "pos": 1 if must else 0, "src": srcs})
    for name, src in ROUNDTRIPS:
        progs.append({"table": "allowed", "name": name, "pos": 0, "src": [src]})
    return progs, problems


def klass_seal(outs):
    if not outs:
        return "Unexplored"
    o = outs[0]
    if o.startswith("OK"):
        return "Value"
    return {"ERR Blame+": "BlamePos", "ERR Blame-": "BlameNeg", "ERR TailAccess": "TailAccess",
            "ERR Panic": "Panic", "ERR Parse": "ParseError", "ERR Typecheck": "ParseError",
            "ERR Budget": "Budget"}.get(o, "OtherError")


def klass_tail(outs):
    """outs = [with tail 1, with tail 2, without tail].  Blind: the three outcomes are identical."""
    if not outs:
        return "Unexplored"
    a, b, c = outs
    if a == b == "ERR TailAccess":
        return "TailAccess"
    if a == b and a in ("ERR Blame+", "ERR Blame-"):
        return "BlamePos" if a.endswith("+") else "BlameNeg"
    if "ERR Panic" in outs:
        return "Panic"
    if a.startswith("ERR Parse") or a.startswith("ERR Typecheck"):
        return "ParseError"
    if a == b == c:
        return "Blind"
    return "Leak"


def coq_string(s):
    return '"' + s.replace('"', '""') + '"'


def render(rows, source_sha):
    """rows: [(table, name, pos, klass)]"""
    out = ["(* GENERATED by checks/c11_table.py from %s, %s and a run of nkeval on every program." % (TERM_RS, LEXER_RS),
           "   Source hash %s.  Never committed; regenerated on every check run. *)" % source_sha,
           "From Coq Require Import List String.",
           "From NV Require Import Seal.TableTypes.",
           "Import ListNotations.",
           "Open Scope string_scope.",
           ""]
    for table in ("primop", "special", "allowed", "tail"):
        out.append("Definition %s_table : list entry := [" % table)
        items = ["  MkEntry %s %d %s" % (coq_string(n), p, k) for (t, n, p, k) in rows if t == table]
        out.append(";\n".join(items))
        out.append("].")
        out.append("")
    return "\n".join(out)


def generate(ck, repo, nkeval_exe):
    """Runs everything and writes coq/Gen/SealTable.v.  Returns rows."""
    import hashlib
    progs, problems = programs(repo)
    for p in problems:
        ck.obligation("translator:" + p, "translator", False, p)
    lines = []
    for p in progs:
        for s in p["src"]:
            lines.append("\t" + s.replace("\\", "\\\\").replace("\n", "\\n"))
    rc, outs, err = core.run_sharded(nkeval_exe, [], lines)
    if rc:
        ck.obligation("translator:nkeval-run", "translator", False, "rc=%s %s" % (rc, err[-800:]))
    rows = []
    i = 0
    for p in progs:
        o = outs[i:i + len(p["src"])]
        i += len(p["src"])
        k = klass_tail(o) if p["table"] == "tail" else klass_seal(o)
        if p.get("fixed"):
            k = p["fixed"]
        if p.get("unreachable"):
            k = "Unreachable" if o == ["ERR Parse"] else ("Panic" if o == ["ERR Panic"] else "OtherError")
        p["out"] = o
        p["klass"] = k
        rows.append((p["table"], p["name"], p["pos"], k))
    sha = hashlib.sha1((read(repo, TERM_RS) + read(repo, LEXER_RS)).encode()).hexdigest()[:16]
    gen = os.path.join(core.COQ, "Gen")
    os.makedirs(gen, exist_ok=True)
    text = render(rows, sha)
    path = os.path.join(gen, "SealTable.v")
    old = open(path).read() if os.path.exists(path) else None
    if old != text:
        open(path, "w").write(text)
    return progs, rows
