"""C11 generator: polymorphic contracts x implementations classified by construction.

A case is a model term (S-expression understood by ocaml/c11/driver.ml) of the shape
    ((impl | T) arg1 ... argn)
where T = forall ... over type and record-row variables (prenex, nested, higher-rank; arrays, records and
callbacks in the signature), `impl` is synthesised *from the type* so that it only passes values of
quantified types around (class `parametric`), and the other classes are obtained from it by one edit:
    inspect   : a value of quantified type (reached through a chosen path: argument, record field, array
                element, callback result) is put in a strict position of a chosen primitive
    fabricate : a constant is returned where a value of quantified type is expected
    tail-*    : a field of a quantified record tail is read / removed, the record is mapped / frozen, a
                field is added before returning at a type with that tail, or the tail is dropped
    ctx-inspect: (higher-rank) the *caller's* polymorphic argument inspects -> the context is blamed
All randomness comes from the SplitMix64 passed in.
"""

FIELDS = ["fa", "fb", "fc", "fd"]
TAILF = ["ta", "tb", "tc"]


# ------------------------------------------------------------------ types

def tv(x):
    return ("tv", x)


def fun(a, b):
    return ("fun", a, b)


NUM, BOOL, STR, DYN = ("num",), ("bool",), ("str",), ("dyn",)


def ty_sx(t):
    k = t[0]
    if k in ("num", "bool", "str", "dyn"):
        return k
    if k == "fun":
        return "(-> %s %s)" % (ty_sx(t[1]), ty_sx(t[2]))
    if k == "arr":
        return "(arr %s)" % ty_sx(t[1])
    if k == "rec":
        tail = "-" if t[2] is None else t[2]
        return "(rect %s%s)" % (tail, "".join(" (%s %s)" % (l, ty_sx(s)) for l, s in t[1]))
    if k == "forall":
        return "(forall %s %s %s)" % (t[1], t[2], ty_sx(t[3]))
    if k == "tv":
        return "(tv %s)" % t[1]
    if k == "alias":
        return "(alias %s)" % ty_sx(t[1])
    raise ValueError(t)


def subst(t, m):
    """substitute type variables (m: name -> type); row variables: m[name] = ('row', [(l, ty)...])"""
    k = t[0]
    if k in ("num", "bool", "str", "dyn"):
        return t
    if k == "fun":
        return ("fun", subst(t[1], m), subst(t[2], m))
    if k == "arr":
        return ("arr", subst(t[1], m))
    if k == "rec":
        fs = [(l, subst(s, m)) for l, s in t[1]]
        tail = t[2]
        if tail in m and tail is not None and tail != "dyn":
            if m[tail][0] == "tailvar":
                tail = m[tail][1]
            else:
                fs = fs + list(m[tail][1])
                tail = None
        return ("rec", fs, tail)
    if k == "forall":
        m2 = {a: b for a, b in m.items() if a != t[1]}
        return ("forall", t[1], t[2], subst(t[3], m2))
    if k == "tv":
        return m.get(t[1], t)
    if k == "alias":
        return t
    raise ValueError(t)


def has_arrow(t):
    k = t[0]
    if k == "fun":
        return True
    if k == "arr":
        return has_arrow(t[1])
    if k == "rec":
        return any(has_arrow(s) for _, s in t[1])
    if k == "forall":
        return has_arrow(t[3])
    return False


def mentions_var(t):
    k = t[0]
    if k == "tv":
        return True
    if k == "fun":
        return mentions_var(t[1]) or mentions_var(t[2])
    if k == "arr":
        return mentions_var(t[1])
    if k == "rec":
        return (t[2] not in (None, "dyn")) or any(mentions_var(s) for _, s in t[1])
    if k == "forall":
        return mentions_var(t[3])
    return False


# ------------------------------------------------------------------ the generator

class Gen:
    def __init__(self, rng):
        self.rng = rng
        self.fresh = 0
        self.atom_log = []

    def var(self, p="x"):
        self.fresh += 1
        return "%s%d" % (p, self.fresh)

    # ---- signatures
    def gen_inner(self, tvars, rvars, depth, allow_fun, allow_forall=True):
        """a type built from the variables in scope"""
        rng = self.rng
        opts = []
        if tvars:
            opts += [("var", 5)]
        opts += [("base", 2)]
        if depth > 0:
            opts += [("arr", 2), ("rec", 2)]
            if rvars:
                opts += [("rowrec", 3)]
            if allow_fun:
                opts += [("fun", 3)]
                if allow_forall:
                    opts += [("rank", 1), ("rowrank", 1)]
        c = rng.weighted(opts)
        if c == "var":
            return tv(rng.choice(tvars))
        if c == "base":
            return rng.choice([NUM, NUM, BOOL, STR])
        if c == "arr":
            return ("arr", self.gen_inner(tvars, rvars, depth - 1, False))
        if c == "rec":
            n = rng.range(1, 2)
            ls = rng.shuffle(FIELDS)[:n]
            return ("rec", [(l, self.gen_inner(tvars, rvars, depth - 1, False)) for l in sorted(ls)], None)
        if c == "rowrec":
            n = rng.range(0, 2)
            ls = rng.shuffle(FIELDS)[:n]
            return ("rec", [(l, self.gen_inner(tvars, rvars, depth - 1, False)) for l in sorted(ls)],
                    rng.choice(rvars))
        if c == "fun":
            return fun(self.gen_inner(tvars, rvars, depth - 1, False), self.gen_inner(tvars, rvars, depth - 1, False))
        if c == "rowrank":
            # a row-polymorphic function supplied by the caller: forall s. {fs; s} -> {fs; s}
            sv = self.var("s")
            ls = rng.shuffle(FIELDS)[:rng.range(0, 2)]
            rt = ("rec", [(l, self.gen_inner(tvars, rvars, depth - 1, False)) for l in sorted(ls)], sv)
            return ("forall", sv, "r", fun(rt, rt))
        if c == "rank":
            b = self.var("b")
            body = fun(self.gen_inner(tvars + [b], rvars, depth - 1, False), self.gen_inner(tvars + [b], rvars, depth - 1, False))
            return ("forall", b, "t", body)
        raise ValueError(c)

    def gen_sig(self):
        """-> (quantified type T as nested forall/arrows, spine) where spine = list of ('q', var, kind) | ('a', type), result type"""
        rng = self.rng
        ntv = rng.weighted([(1, 5), (2, 3), (0, 1)])
        nrv = rng.weighted([(0, 5), (1, 3)])
        if ntv == 0 and nrv == 0:
            ntv = 1
        tvars = [self.var("a") for _ in range(ntv)]
        rvars = [self.var("r") for _ in range(nrv)]
        nargs = rng.range(1, 3)
        spine = [("q", v, "t") for v in tvars] + [("q", v, "r") for v in rvars]
        args = [self.gen_inner(tvars, rvars, 2, True) for _ in range(nargs)]
        # a quantifier in the middle of the spine (forall a. a -> (forall b. b -> ...))
        late = []
        tvars_pre = list(tvars)
        if rng.chance(1, 5):
            b = self.var("a")
            late = [("q", b, "t"), ("a", self.gen_inner(tvars + [b], rvars, 1, True, False))]
            tvars = tvars + [b]
        res = self.gen_inner(tvars, rvars, 2, False)
        if rvars and rng.chance(1, 2):
            # a result that mentions the row variable, and an argument that provides it
            r = rng.choice(rvars)
            ls = rng.shuffle(FIELDS)[:rng.range(0, 2)]
            res = ("rec", [(l, self.gen_inner(tvars, rvars, 1, False)) for l in sorted(ls)], r)
            if not any(a[0] == "rec" and a[2] == r for a in args):
                ls = rng.shuffle(FIELDS)[:rng.range(0, 2)]
                args[rng.below(len(args))] = ("rec", [(l, self.gen_inner(tvars_pre, rvars, 1, False)) for l in sorted(ls)], r)
        spine = spine + [("a", a) for a in args] + late
        return spine, res

    @staticmethod
    def build_type(spine, res):
        t = res
        for item in reversed(spine):
            if item[0] == "q":
                t = ("forall", item[1], item[2], t)
            else:
                t = ("fun", item[1], t)
        return t

    # ---- parametric synthesis
    def paths(self, expr, t, depth, env, nonempty):
        """all (expr, type) reachable from an expression of type t without inspecting quantified values"""
        out = [(expr, t)]
        if depth <= 0:
            return out
        k = t[0]
        if k == "rec":
            for l, s in t[1]:
                out += self.paths("(getf %s %s)" % (l, expr), s, depth - 1, env, nonempty)
        elif k == "arr" and nonempty:
            out += self.paths("(o2 at %s (n 0))" % expr, t[1], depth - 1, env, nonempty)
        elif k == "fun":
            a = self.synth(env, t[1], 1, use_paths=False)
            if a is not None:
                out += self.paths("(app %s %s)" % (expr, a), t[2], depth - 1, env, False)
        elif k == "forall":
            # use the polymorphic argument at one instance: a type variable of the scope, or Number
            if t[2] == "r":
                # a row-polymorphic argument: use it at the row variable of a record in scope, or at no tail
                tails = [("row", [])]
                for _, s, _ in env:
                    tails += [("tailvar", r) for r in _tails_of(s)]
                out += self.paths(expr, subst(t[3], {t[1]: self.rng.choice(tails)}), depth, env, nonempty)
            else:
                insts = [NUM]
                for _, s, _ in env:
                    insts += _tvars_of(s)
                out += self.paths(expr, subst(t[3], {t[1]: self.rng.choice(insts)}), depth, env, nonempty)
        return out

    def atoms(self, env):
        out = []
        for x, t, nonempty in env:
            out += self.paths("(v %s)" % x, t, 2, [e for e in env if e[0] != x], nonempty)
        return out

    def synth(self, env, t, depth, use_paths=True):
        """a term of type t that only passes values of quantified types around, or None"""
        rng = self.rng
        k = t[0]
        cands = self.atoms(env) if use_paths else [("(v %s)" % x, s) for x, s, _ in env]
        same = [e for e, s in cands if s == t]
        if k == "tv":
            if not same:
                return None
            return self.decorate(rng.choice(same), env, depth)
        if k == "forall":
            return self.synth(env, t[3], depth, use_paths)
        if k == "fun":
            x = self.var("y")
            b = self.synth(env + [(x, t[1], False)], t[2], depth, use_paths)
            return None if b is None else "(lam %s %s)" % (x, b)
        if same and rng.chance(2, 3):
            return self.decorate(rng.choice(same), env, depth, ty=t)
        if k == "num":
            nums = [e for e, s in cands if s == NUM]
            lens = [e for e, s in cands if s[0] == "arr"]
            c = rng.below(4)
            if c == 0 and nums:
                return "(o2 add %s (n %d))" % (rng.choice(nums), rng.range(0, 9))
            if c == 1 and lens:
                return "(o1 length %s)" % rng.choice(lens)
            return "(n %d)" % rng.range(-3, 20)
        if k == "bool":
            return "(b %s)" % rng.choice("tf")
        if k == "str":
            strs = [e for e, s in cands if s == STR]
            if strs and rng.chance(1, 2):
                return "(o2 cat %s (s k))" % rng.choice(strs)
            return "(s %s)" % rng.choice(["p", "q", "zz"])
        if k == "dyn":
            return "(n 0)"
        if k == "arr":
            # map a function over an available array, or a literal
            srcs = [(e, s) for e, s in cands if s[0] == "arr"]
            if srcs and depth > 0 and rng.chance(1, 2):
                e, s = rng.choice(srcs)
                f = self.synth(env, fun(s[1], t[1]), depth - 1, use_paths)
                if f is not None:
                    return "(amap %s %s)" % (f, e)
            n = rng.range(1, 3)
            es = [self.synth(env, t[1], depth - 1, use_paths) for _ in range(n)]
            if any(e is None for e in es):
                return None
            return "(arr %s)" % " ".join(es)
        if k == "rec":
            if t[2] is None:
                fs = []
                for l, s in t[1]:
                    e = self.synth(env, s, depth - 1, use_paths)
                    if e is None:
                        return None
                    fs.append("(%s %s)" % (l, e))
                return "(rec %s)" % " ".join(fs)
            # a record with a quantified tail: start from an available record with the same tail
            srcs = [(e, s) for e, s in cands if s[0] == "rec" and s[2] == t[2]]
            if not srcs:
                return None
            e, s = rng.choice(srcs)
            have = dict(s[1])
            want = dict(t[1])
            for l in have:
                if l not in want or (have[l] != want[l]) or rng.chance(1, 4):
                    e = "(remove %s %s)" % (l, e)
                    have = {a: b for a, b in have.items() if a != l}
            for l, sl in t[1]:
                if l not in have:
                    v = self.synth(env, sl, depth - 1, use_paths)
                    if v is None:
                        return None
                    e = "(ins %s %s %s)" % (l, e, v)
            if rng.chance(1, 2):
                e = self.nest(e, [l for l, _ in t[1]])
            return e
        return None

    def nest(self, e, visible):
        """pass a record that carries a quantified tail through ANOTHER row-polymorphic contract (an
        annotated identity) that lists all, some or none of its visible fields: the outer sealed tail gets
        sealed again inside the inner tail and must come back intact"""
        rng = self.rng
        names = sorted(visible)
        c = rng.below(4)
        if c <= 1:
            listed = names
        elif c == 2:
            listed = []
        else:
            listed = sorted(rng.shuffle(names)[:rng.range(0, len(names))])
        sv, z = self.var("s"), self.var("z")
        rt = "(rect %s%s)" % (sv, "".join(" (%s dyn)" % l for l in listed))
        return "(app (ann (forall %s r (-> %s %s)) (lam %s (v %s))) %s)" % (sv, rt, rt, z, z, e)

    def decorate(self, e, env, depth, ty=None):
        """wrappers that do not look at the value"""
        rng = self.rng
        if ty is not None and ty[0] == "rec" and ty[2] not in (None, "dyn") and rng.chance(1, 2):
            return self.nest(e, [l for l, _ in ty[1]])
        if ty is not None and is_container(ty) and rng.chance(1, 3):
            return through_contract(self, e, ty, rng.range(1, 2))
        c = rng.below(10)
        if c == 0:
            y = self.var("z")
            return "(let %s %s (v %s))" % (y, e, y)
        if c == 1:
            return "(if (b t) %s %s)" % (e, e)
        if c == 2:
            y = self.var("z")
            return "(app (lam %s (v %s)) %s)" % (y, y, e)
        if c == 3:
            return "(seq %s %s)" % (e, e)
        if c == 4:
            # through another polymorphic contract (its key collides with the outer one: nested seals)
            y = self.var("z")
            b = self.var("b")
            return "(app (ann (forall %s t (-> (tv %s) (tv %s))) (lam %s (v %s))) %s)" % (b, b, b, y, y, e)
        if c == 5:
            y = self.var("z")
            b = self.var("b")
            return "(getf fa (app (ann (forall %s t (-> (tv %s) (rect - (fa (tv %s))))) (lam %s (rec (fa (v %s))))) %s))" % (b, b, b, y, y, e)
        return e

    # ---- closed values of instantiated (ground) types
    def value(self, t, depth, inspecting=False):
        rng = self.rng
        k = t[0]
        if k == "num":
            return "(n %d)" % rng.range(-5, 30)
        if k == "bool":
            return "(b %s)" % rng.choice("tf")
        if k == "str":
            return "(s %s)" % rng.choice(["u", "vv", "w1"])
        if k == "dyn":
            return "(n 7)"
        if k == "arr":
            return "(arr %s)" % " ".join(self.value(t[1], depth - 1) for _ in range(rng.range(1, 3)))
        if k == "rec":
            return "(rec %s)" % " ".join("(%s %s)" % (l, self.value(s, depth - 1)) for l, s in t[1])
        if k == "fun":
            x = self.var("c")
            return "(lam %s %s)" % (x, self.concrete_body([(x, t[1])], t[2], depth))
        if k == "forall":
            # the caller must supply a polymorphic function: synthesise it parametrically
            e = self.synth([], t, 2)
            return e
        raise ValueError(t)

    def concrete_body(self, env, t, depth):
        """body of a caller-side callback: concrete types, free to inspect its arguments"""
        rng = self.rng
        k = t[0]
        same = [x for x, s in env if s == t]
        if k == "num":
            nums = [x for x, s in env if s == NUM]
            if nums:
                return "(o2 %s (v %s) (n %d))" % (rng.choice(["add", "mul", "sub"]), rng.choice(nums), rng.range(1, 5))
            strs = [x for x, s in env if s == STR]
            if strs:
                return "(if (o2 eq (v %s) (s u)) (n 1) (n 2))" % rng.choice(strs)
            arrs = [x for x, s in env if s[0] == "arr"]
            if arrs:
                return "(o1 length (v %s))" % rng.choice(arrs)
            return "(n %d)" % rng.range(0, 9)
        if k == "str":
            strs = [x for x, s in env if s == STR]
            if strs:
                return "(o2 cat (v %s) (s x))" % rng.choice(strs)
            nums = [x for x, s in env if s == NUM]
            if nums:
                return "(o1 tostr (v %s))" % rng.choice(nums)
            return "(s cb)"
        if k == "bool":
            bools = [x for x, s in env if s == BOOL]
            if bools:
                return "(o1 not (v %s))" % rng.choice(bools)
            nums = [x for x, s in env if s == NUM]
            if nums:
                return "(o2 lt (v %s) (n 3))" % rng.choice(nums)
            return "(b t)"
        if same and rng.chance(1, 2):
            return "(v %s)" % rng.choice(same)
        if k == "arr":
            arrs = [(x, s) for x, s in env if s[0] == "arr"]
            if arrs and arrs[0][1] == t:
                return "(v %s)" % arrs[0][0]
            return "(arr %s)" % " ".join(self.concrete_body(env, t[1], depth - 1) for _ in range(rng.range(1, 2)))
        if k == "rec":
            return "(rec %s)" % " ".join("(%s %s)" % (l, self.concrete_body(env, s, depth - 1)) for l, s in t[1])
        if k == "fun":
            x = self.var("c")
            return "(lam %s %s)" % (x, self.concrete_body(env + [(x, t[1])], t[2], depth - 1))
        if k == "dyn":
            return "(n 7)"
        raise ValueError(t)

    # ---- a whole case
    def instantiate(self, spine):
        rng = self.rng
        m = {}
        for item in spine:
            if item[0] == "q":
                if item[2] == "t":
                    m[item[1]] = rng.choice([NUM, NUM, STR, BOOL, ("arr", NUM), ("rec", [("p", NUM)], None)])
                else:
                    n = rng.range(0, 2)
                    ls = rng.shuffle(TAILF)[:n]
                    m[item[1]] = ("row", [(l, rng.choice([NUM, STR])) for l in sorted(ls)])
        return m

    def case(self):
        """-> dict(sx, klass, detail) or None"""
        rng = self.rng
        for _ in range(20):
            spine, res = self.gen_sig()
            T = self.build_type(spine, res)
            env = []
            xs = []
            for item in spine:
                if item[0] == "a":
                    x = self.var("x")
                    xs.append(x)
                    env.append((x, item[1], True))
            body = self.synth(env, res, 2)
            if body is None:
                continue
            m = self.instantiate(spine)
            args = []
            ok = True
            for item in spine:
                if item[0] == "a":
                    v = self.value(subst(item[1], m), 2)
                    if v is None:
                        ok = False
                    args.append(v)
            if not ok:
                continue
            return {"spine": spine, "res": res, "T": T, "env": env, "xs": xs, "body": body, "args": args, "m": m}
        return None

    @staticmethod
    def assemble(c, body, T=None, args=None):
        f = body
        for x in reversed(c["xs"]):
            f = "(lam %s %s)" % (x, f)
        e = "(ann %s %s)" % (ty_sx(T or c["T"]), f)
        for a in (args or c["args"]):
            e = "(app %s %s)" % (e, a)
        return e


INSPECTORS = [
    # name, template over E (the value of quantified type); every one puts E in a strict position
    ("isnum", "(o1 isnum E)"), ("isstr", "(o1 isstr E)"), ("isbool", "(o1 isbool E)"),
    ("isfun", "(o1 isfun E)"), ("isarr", "(o1 isarr E)"), ("isrec", "(o1 isrec E)"),
    ("add", "(o2 add E (n 1))"), ("add-right", "(o2 add (n 1) E)"), ("mul", "(o2 mul E (n 2))"),
    ("eq", "(o2 eq E (n 1))"), ("eq-self", "(o2 eq E E)"), ("eq-in-array", "(o2 eq (arr E) (arr E))"),
    ("eq-in-array-last", "(o2 eq (arr (n 1) E) (arr (n 2) E))"), ("eq-in-record-first", "(o2 eq (rec (fa E) (fb (n 1))) (rec (fa E) (fb (n 2))))"),
    ("lt", "(o2 lt E (n 1))"), ("cat", "(o2 cat E (s a))"), ("tostr", "(o1 tostr E)"),
    ("if", "(if E (n 1) (n 2))"), ("apply", "(app E (n 1))"), ("not", "(o1 not E)"),
    ("length", "(o1 length E)"), ("at", "(o2 at E (n 0))"), ("at-index", "(o2 at (arr (n 1)) E)"),
    ("getf", "(getf fa E)"), ("fields", "(o1 fields E)"), ("hasf", "(hasf fa E)"), ("remove", "(remove fa E)"),
    ("insert", "(ins fz E (n 1))"), ("amap", "(amap (lam q (v q)) E)"), ("rmap", "(rmap (lam q (lam w (v w))) E)"),
    ("freeze", "(o1 freeze E)"),
    # `seq` first (allowed), then inspect the same value again: the forced thunk must still hold the seal
    ("seq-then-add", "(seq E (o2 add E (n 1)))"), ("seq-then-isnum", "(seq E (o1 isnum E))"),
    ("let-seq-then-eq", "(let sq E (seq (v sq) (o2 eq (v sq) (n 1))))"),
    ("chk-num", "(ann num E)"), ("chk-fun", "(ann (-> dyn dyn) E)"), ("chk-arr", "(ann (arr dyn) E)"),
    ("chk-rec", "(ann (rect dyn) E)"),
]
# `seq` is the one primitive that may force a sealed value
NON_INSPECTORS = [("seq", "(seq E (n 0))"), ("eq-short-circuit-array", "(o2 eq (arr E (n 1)) (arr E (n 2)))"),
                  ("eq-short-circuit-record", "(o2 eq (rec (fa (n 1)) (fb E)) (rec (fa (n 2)) (fb E)))"), ("pass-to-id", "(app (lam q (v q)) E)"), ("in-array", "(o1 length (arr E))"),
                  ("in-record", "(hasf fa (rec (fa E)))"), ("let", "(let q E (n 0))")]
# laundering through another contract that shares the sealing key (known finding cross-contract-key)
LAUNDER = "(app (ann (forall zb t (-> dyn (tv zb))) (lam zq (v zq))) E)"

TAIL_INSPECTORS = [
    ("tail-getf", "(getf L E)"), ("tail-remove", "(remove L E)"), ("tail-rmap", "(rmap (lam q (lam w (v w))) E)"),
    ("tail-freeze", "(o1 freeze E)"),
]


def features(T):
    """which constructs a signature exercises (for the evidence histograms)"""
    f = set()

    def go(t, neg, top):
        k = t[0]
        if k == "forall":
            f.add("row-var" if t[2] == "r" else "type-var")
            if neg:
                f.add("higher-rank")
            elif not top:
                f.add("mid-spine-forall")
            go(t[3], neg, top)
        elif k == "fun":
            if neg:
                f.add("callback")
            go(t[1], not neg, False)
            go(t[2], neg, False)
        elif k == "arr":
            f.add("array")
            go(t[1], neg, False)
        elif k == "rec":
            f.add("record-tail" if t[2] not in (None, "dyn") else "record")
            for _, s in t[1]:
                go(s, neg, False)
        elif k == "alias":
            f.add("alias")
            go(t[1], neg, False)
    go(T, False, True)
    return sorted(f)


CTX_TEMPLATES = [
    # (type with a higher-rank argument, impl that certainly calls it, extra args)
    ("(-> (forall b t (-> (tv b) (tv b))) (-> S S))", "(lam g (lam x (app (v g) (v x))))"),
    ("(-> (forall b t (-> (tv b) (arr (tv b)))) (-> S (arr S)))", "(lam g (lam x (app (v g) (v x))))"),
    ("(forall a t (-> (forall b t (-> (tv b) (-> (tv a) (tv b)))) (-> (tv a) (-> S S))))", "(lam g (lam y (lam x (app (app (v g) (v x)) (v y)))))"),
]


def ctx_case(rng, g):
    """the caller supplies, for a higher-rank argument, a function that inspects or fabricates: Blame-"""
    ty, impl = rng.choice(CTX_TEMPLATES)
    S, val = rng.choice([("num", "(n 3)"), ("str", "(s u)"), ("bool", "(b t)"), ("(arr num)", "(arr (n 1))")])
    ty = ty.replace("S", S)
    y = g.var("c")
    mode = rng.choice(["inspect", "inspect", "fabricate"])
    if mode == "inspect":
        name, tmpl = rng.choice(INSPECTORS)
        body = "(seq %s (v %s))" % (tmpl.replace("E", "(v %s)" % y), y)
    else:
        name, body = "const", val
    if "(arr (tv b))" in ty:
        body = "(arr %s)" % body if mode == "fabricate" else "(seq %s (arr (v %s)))" % (tmpl.replace("E", "(v %s)" % y), y)
    if ty.startswith("(forall a"):
        garg = "(lam %s (lam cz %s))" % (y, body)
        args = [garg, val, val]
    else:
        args = ["(lam %s %s)" % (y, body), val]
    e = "(ann %s %s)" % (ty, impl)
    for a in args:
        e = "(app %s %s)" % (e, a)
    return {"sx": e, "klass": "ctx-" + mode, "prim": name, "feat": ["higher-rank", "type-var"]}


# ------------------------------------------------------------------ re-applied container contracts

def close_over(g, t):
    """the same shape as t with every outer type / row variable replaced by a variable quantified here:
    -> closed type (nested forall ... t')"""
    ren = {}

    def go(u):
        k = u[0]
        if k == "tv":
            if u[1] not in ren:
                ren[u[1]] = (g.var("zb"), "t")
            return ("tv", ren[u[1]][0])
        if k == "fun":
            return ("fun", go(u[1]), go(u[2]))
        if k == "arr":
            return ("arr", go(u[1]))
        if k == "rec":
            tail = u[2]
            if tail not in (None, "dyn"):
                if tail not in ren:
                    ren[tail] = (g.var("zs"), "r")
                tail = ren[tail][0]
            return ("rec", [(l, go(x)) for l, x in u[1]], tail)
        return u
    body = go(t)
    T = ("fun", body, body)
    for old, (new, kind) in ren.items():
        T = ("forall", new, kind, T)
    return T


def is_container(t):
    """a container type whose elements mention a quantified variable (and no function inside)"""
    return t[0] in ("arr", "rec") and mentions_var(t) and not has_arrow(t) and not _has_forall(t)


def _has_forall(t):
    k = t[0]
    if k == "forall":
        return True
    if k == "fun":
        return _has_forall(t[1]) or _has_forall(t[2])
    if k == "arr":
        return _has_forall(t[1])
    if k == "rec":
        return any(_has_forall(x) for _, x in t[1])
    return False


def through_contract(g, e, t, times=1):
    """e passed `times` times through an annotated identity whose type has the shape of t: the container
    contracts (Array _, record fields) of that annotation are applied again to a value that already carries
    the outer ones"""
    T = ty_sx(close_over(g, t))
    z = g.var("z")
    idf = "(ann %s (lam %s (v %s)))" % (T, z, z)
    if times == 1:
        return "(app %s %s)" % (idf, e)
    f = g.var("w")
    out = e
    for _ in range(times):
        out = "(app (v %s) %s)" % (f, out)
    return "(let %s %s %s)" % (f, idf, out)


TWICE_SHAPES = [
    lambda a, r: ("arr", tv(a)),
    lambda a, r: ("arr", ("arr", tv(a))),
    lambda a, r: ("rec", [("fa", ("arr", tv(a))), ("fb", NUM)], None),
    lambda a, r: ("arr", ("rec", [("fa", tv(a))], None)),
    lambda a, r: ("rec", [("fa", ("arr", tv(a)))], r),
    lambda a, r: ("rec", [("fa", tv(a)), ("fc", ("arr", ("arr", tv(a))))], None),
]


def twice_case(rng, g):
    """one contracted function, applied to its own result (the same contract occurrences are applied again
    to a value that already carries them): `f true (f true x)` is parametric, `f false (f true x)` inspects an
    element in the outer call and must be blamed"""
    a, r = g.var("a"), g.var("r")
    shape = rng.choice(TWICE_SHAPES)
    CT = shape(a, r)
    uses_row = CT[0] == "rec" and CT[2] == r
    extra = rng.chance(1, 3)
    spine = [("q", a, "t")] + ([("q", r, "r")] if uses_row else []) + [("a", BOOL)] + ([("a", NUM)] if extra else []) + [("a", CT)]
    T = Gen.build_type(spine, CT)
    b, x = g.var("x"), g.var("x")
    n = g.var("x")
    env = [(x, CT, True)]
    body = g.synth(env, CT, 2)
    if body is None:
        return None
    atoms = [(e, s) for e, s in g.atoms(env) if s[0] == "tv"]
    if not atoms:
        return None
    m = {a: rng.choice([NUM, STR, BOOL])}
    if uses_row:
        m[r] = ("row", [("ta", NUM)])
    val = g.value(subst(CT, m), 2)
    mode = rng.weighted([("inspect", 3), ("parametric", 2)])
    if mode == "inspect":
        e, _ = rng.choice(atoms)
        name, tmpl = rng.choice(INSPECTORS)
        other = "(seq %s %s)" % (tmpl.replace("E", e), body)
    else:
        name, other = "-", body
    impl = "(lam %s %s(lam %s (if (v %s) %s %s))%s)" % (b, "(lam %s " % n if extra else "", x, b, body, other, ")" if extra else "")
    f = g.var("f")
    num = " (n 3)" if extra else ""

    def call(flag, arg):
        e = "(app (v %s) (b %s))" % (f, flag)
        if extra:
            e = "(app %s (n 3))" % e
        return "(app %s %s)" % (e, arg)
    depth = rng.range(1, 2)
    inner = val
    for _ in range(depth):
        inner = call("t", inner)
    prog = "(let %s (ann %s %s) %s)" % (f, ty_sx(T), impl, call("f" if mode == "inspect" else "t", inner))
    return {"sx": prog, "klass": "inspect" if mode == "inspect" else "parametric",
            "prim": ("reapplied+" + name) if mode == "inspect" else "reapplied", "feat": features(T) + ["reapplied-contract"]}



def make_cases(rng, n, want_alias=False):
    """-> list of dict(sx, klass, prim, note)"""
    out = []
    g = Gen(rng)
    while len(out) < n:
        if rng.chance(1, 25):
            out.append(ctx_case(rng, g))
            continue
        if rng.chance(1, 12):
            tc = twice_case(rng, g)
            if tc is not None:
                out.append(tc)
            continue
        c = g.case()
        if c is None:
            continue
        nout = len(out)
        base = g.assemble(c, c["body"])
        atoms = g.atoms(c["env"])
        var_atoms = [(e, s) for e, s in atoms if s[0] == "tv"]
        row_atoms = [(e, s) for e, s in atoms if s[0] == "rec" and s[2] not in (None, "dyn")]
        cont_atoms = [(e, s) for e, s in atoms if is_container(s)]
        kind = rng.weighted([("parametric", 5), ("inspect", 6), ("noninspect", 2), ("fabricate", 3),
                             ("tail", 5), ("launder", 1), ("alias", 3), ("recontract", 3)])
        if kind == "parametric":
            out.append({"sx": base, "klass": "parametric", "prim": "-"})
        elif kind == "recontract" and cont_atoms:
            # a container that already carries the outer contract goes (once or twice) through another
            # annotated identity of the same shape; then an element is inspected / only its spine is used
            e, s = rng.choice(cont_atoms)
            w = through_contract(g, e, s, rng.range(1, 2))
            elems = [(pe, ps) for pe, ps in g.paths(w, s, 3, c["env"], True) if ps[0] == "tv"]
            if elems and rng.chance(2, 3):
                pe, _ = rng.choice(elems)
                name, tmpl = rng.choice(INSPECTORS)
                body = "(seq %s %s)" % (tmpl.replace("E", pe), c["body"])
                out.append({"sx": g.assemble(c, body), "klass": "inspect", "prim": "recontract+" + name})
            else:
                use = "(o1 length %s)" % w if s[0] == "arr" else "(o1 fields %s)" % w
                body = "(seq %s %s)" % (use, c["body"])
                out.append({"sx": g.assemble(c, body), "klass": "parametric", "prim": "recontract"})
        elif kind == "inspect" and var_atoms:
            e, s = rng.choice(var_atoms)
            name, tmpl = rng.choice(INSPECTORS)
            body = "(seq %s %s)" % (tmpl.replace("E", e), c["body"])
            out.append({"sx": g.assemble(c, body), "klass": "inspect", "prim": name})
        elif kind == "noninspect" and var_atoms:
            e, s = rng.choice(var_atoms)
            name, tmpl = rng.choice(NON_INSPECTORS)
            body = "(seq %s %s)" % (tmpl.replace("E", e), c["body"])
            out.append({"sx": g.assemble(c, body), "klass": "parametric", "prim": name})
        elif kind == "launder" and var_atoms:
            e, s = rng.choice(var_atoms)
            name, tmpl = rng.choice(INSPECTORS[:8])
            body = "(seq %s %s)" % (tmpl.replace("E", LAUNDER.replace("E", e)), c["body"])
            out.append({"sx": g.assemble(c, body), "klass": "inspect", "prim": "launder+" + name})
        elif kind == "fabricate" and c["res"][0] == "tv" and rng.chance(1, 2) and [e for e, t in var_atoms if t != c["res"]]:
            # a value of another quantified type where this one is expected: unseal with the wrong key
            e = rng.choice([e for e, t in var_atoms if t != c["res"]])
            out.append({"sx": g.assemble(c, e), "klass": "fabricate", "prim": "other-variable"})
        elif kind == "fabricate" and c["res"][0] == "tv":
            out.append({"sx": g.assemble(c, rng.choice(["(n 42)", "(s fab)", "(arr)", "(rec)"])), "klass": "fabricate", "prim": "const"})
        elif kind == "tail" and row_atoms:
            e, s = rng.choice(row_atoms)
            row = c["m"][s[2]][1]
            sub = rng.below(6)
            if c["res"][0] == "rec" and c["res"][2] not in (None, "dyn") and rng.chance(1, 2):
                sub = rng.range(4, 5)
            if sub <= 3 and (row or sub >= 2):
                name, tmpl = TAIL_INSPECTORS[sub]
                lab = row[0][0] if row else "ta"
                if rng.chance(1, 2):
                    # first through another row-polymorphic contract: still the outer tail that is touched
                    e = g.nest(e, [l for l, _ in s[1]])
                    name = "nested+" + name
                body = "(seq %s %s)" % (tmpl.replace("E", e).replace("L", lab), c["body"])
                # reading a field that is not in the tail is a plain missing-field error, not a tail access
                klass = "tail-inspect"
                out.append({"sx": g.assemble(c, body), "klass": klass, "prim": name})
            elif sub == 4 and c["res"][0] == "rec" and c["res"][2] == s[2]:
                # add a field that the result type does not list
                body = "(ins fz %s (n 1))" % c["body"]
                out.append({"sx": g.assemble(c, body), "klass": "tail-add", "prim": "insert"})
            elif sub == 5 and c["res"][0] == "rec" and c["res"][2] not in (None, "dyn"):
                fs = " ".join("(%s %s)" % (l, "(n 1)") for l, sl in c["res"][1])
                # fabricate the whole record: no tail to unseal  (field types may be wrong too: still blame)
                out.append({"sx": g.assemble(c, "(rec %s)" % fs), "klass": "tail-fabricate", "prim": "literal"})
        elif kind == "alias":
            # a closed higher-rank argument type used through a let-bound alias
            spine = c["spine"]
            idx = [i for i, it in enumerate(spine) if it[0] == "a" and it[1][0] in ("forall", "fun", "rec", "arr") and not _free(it[1])]
            if idx:
                i = rng.choice(idx)
                sp2 = list(spine)
                sp2[i] = ("a", ("alias", spine[i][1]))
                T2 = Gen.build_type(sp2, c["res"])
                out.append({"sx": g.assemble(c, c["body"], T=T2), "klass": "parametric-alias", "prim": "alias"})
                out[-1]["feat"] = features(T2)
        if len(out) > nout and "feat" not in out[-1]:
            out[-1]["feat"] = features(c["T"])
    return out


def _tails_of(t):
    k = t[0]
    if k == "fun":
        return _tails_of(t[1]) + _tails_of(t[2])
    if k == "arr":
        return _tails_of(t[1])
    if k == "rec":
        here = [t[2]] if t[2] not in (None, "dyn") else []
        return here + [v for _, s in t[1] for v in _tails_of(s)]
    return []


def _tvars_of(t):
    k = t[0]
    if k == "tv":
        return [t]
    if k == "fun":
        return _tvars_of(t[1]) + _tvars_of(t[2])
    if k == "arr":
        return _tvars_of(t[1])
    if k == "rec":
        return [v for _, s in t[1] for v in _tvars_of(s)]
    return []


def _free(t, bound=()):
    k = t[0]
    if k == "tv":
        return t[1] not in bound
    if k == "fun":
        return _free(t[1], bound) or _free(t[2], bound)
    if k == "arr":
        return _free(t[1], bound)
    if k == "rec":
        return (t[2] not in (None, "dyn") and t[2] not in bound) or any(_free(s, bound) for _, s in t[1])
    if k == "forall":
        return _free(t[3], tuple(bound) + (t[1],))
    return False


# ------------------------------------------------------------------ free-form stream (model fidelity only)

FREE_TYPES = [
    "(forall a t (-> (tv a) (tv a)))", "(forall a t (-> (tv a) dyn))", "(forall a t (-> dyn (tv a)))",
    "(forall a t (-> (arr (tv a)) (arr (tv a))))", "(forall a t (-> (arr (tv a)) (tv a)))",
    "(forall a t (-> (tv a) (arr (tv a))))", "(forall a t (forall b t (-> (tv a) (-> (tv b) (tv a)))))",
    "(forall a t (forall b t (-> (-> (tv a) (tv b)) (-> (tv a) (tv b)))))",
    "(forall r r (-> (rect r (fa num)) (rect r (fa num))))", "(forall r r (-> (rect r (fa num)) dyn))",
    "(forall r r (-> (rect r) (rect r (fb num))))", "(forall a t (-> (rect - (fa (tv a))) (tv a)))",
    "(forall a t (forall r r (-> (rect r (fa (tv a))) (tv a))))",
    "(-> (forall a t (-> (tv a) (tv a))) num)", "(-> num num)", "(-> dyn dyn)", "(arr num)", "num", "dyn",
    "(rect - (fa num))", "(rect dyn (fa num))", "(-> (rect dyn (fa num)) num)",
]


class Free:
    """random closed terms of the model language with polymorphic contracts sprinkled in; mostly ill-typed"""

    def __init__(self, rng):
        self.rng = rng
        self.n = 0

    def var(self):
        self.n += 1
        return "u%d" % self.n

    def lit(self):
        rng = self.rng
        return rng.choice(["(n %d)" % rng.range(-2, 9), "(b t)", "(b f)", "(s a)", "(s bc)",
                           "(arr (n 1) (n 2))", "(rec (fa (n 1)) (fb (s x)))", "(rec (fa (n 2)))", "(rec)", "(arr)"])

    def term(self, d, vs):
        rng = self.rng
        if d <= 0 or rng.chance(1, 6):
            if vs and rng.chance(2, 3):
                return "(v %s)" % rng.choice(vs)
            return self.lit()
        c = rng.below(20)
        t = lambda: self.term(d - 1, vs)
        if c == 0:
            x = self.var()
            return "(lam %s %s)" % (x, self.term(d - 1, vs + [x]))
        if c in (1, 2):
            x = self.var()
            return "(app (lam %s %s) %s)" % (x, self.term(d - 1, vs + [x]), t())
        if c == 3:
            x = self.var()
            return "(let %s %s %s)" % (x, t(), self.term(d - 1, vs + [x]))
        if c == 4:
            return "(if %s %s %s)" % (rng.choice(["(b t)", "(b f)", t()]), t(), t())
        if c == 5:
            return "(o1 %s %s)" % (rng.choice(["isnum", "isbool", "isstr", "isfun", "isarr", "isrec", "not", "length", "fields", "freeze", "tostr"]), t())
        if c == 6:
            return "(o2 %s %s %s)" % (rng.choice(["add", "sub", "mul", "eq", "eq", "lt", "cat", "at"]), t(), t())
        if c == 7:
            return "(arr %s)" % " ".join(t() for _ in range(rng.range(0, 3)))
        if c == 8:
            x = self.var()
            return "(amap (lam %s %s) %s)" % (x, self.term(d - 1, vs + [x]), t())
        if c == 9:
            ls = rng.shuffle(["fa", "fb", "fc"])[:rng.range(0, 3)]
            return "(rec %s)" % " ".join("(%s %s)" % (l, t()) for l in ls)
        if c == 10:
            return "(getf %s %s)" % (rng.choice(["fa", "fb", "fc"]), t())
        if c == 11:
            return "(ins %s %s %s)" % (rng.choice(["fa", "fb", "fc"]), t(), t())
        if c == 12:
            return "(%s %s %s)" % (rng.choice(["remove", "hasf"]), rng.choice(["fa", "fb", "fc"]), t())
        if c == 13:
            x, y = self.var(), self.var()
            return "(rmap (lam %s (lam %s %s)) %s)" % (x, y, self.term(d - 1, vs + [x, y]), t())
        if c == 14:
            return "(seq %s %s)" % (t(), t())
        if c in (15, 16, 17):
            # a contracted function applied to arguments
            ty = rng.choice(FREE_TYPES)
            x = self.var()
            f = "(lam %s %s)" % (x, self.term(d - 1, vs + [x]))
            if "(-> " in ty and rng.chance(1, 2):
                y = self.var()
                f = "(lam %s (lam %s %s))" % (x, y, self.term(d - 1, vs + [x, y]))
            e = "(app (ann %s %s) %s)" % (ty, f, t())
            if rng.chance(1, 3):
                e = "(app %s %s)" % (e, t())
            return e
        if c == 18:
            return "(ann %s %s)" % (rng.choice(FREE_TYPES), t())
        return "(app %s %s)" % (t(), t())


def free_cases(rng, n):
    g = Free(rng)
    out = []
    for _ in range(n):
        out.append({"sx": g.term(rng.range(2, 4), []), "klass": "free", "prim": "-", "feat": ["free-form"]})
    return out


# ------------------------------------------------------------------ raw Nickel stream (direct oracle only)
# Constructs outside the model language: `let rec` (a contracted function that calls itself, so the same
# contract occurrences are re-applied to values that already carry them) and dictionary types.

RAW_CONTAINERS = [
    # (type over the variable α, value, element path over L, spine-only use over L)
    ("Array α", "[1, 2]", "(%array/at% L 0)", "(%array/length% L)"),
    ("Array (Array α)", "[[1, 2], [3]]", "(%array/at% (%array/at% L 0) 0)", "(%array/length% L)"),
    ("{_ : α}", "{k = 1, j = 2}", "(L.k)", "(%record/fields% L)"),
    ("{fa : Array α, fb : Number}", "{fa = [1, 2], fb = 3}", "(%array/at% L.fa 0)", "(%array/length% L.fa)"),
    ("Array {_ : α}", "[{k = 1}, {k = 2}]", "((%array/at% L 0).k)", "(%array/length% L)"),
    ("{_ : Array α}", "{k = [1, 2]}", "(%array/at% L.k 0)", "(%record/fields% L)"),
    ("{fa : {_ : α}}", "{fa = {k = 1}}", "(L.fa.k)", "(%record/fields% L.fa)"),
    ("Array {fa : α}", "[{fa = 1}, {fa = 2}]", "((%array/at% L 0).fa)", "(%array/length% L)"),
    # (`{_ | a}` with a type variable is rejected by the typechecker: not in the quantifier)
]
RAW_INSPECTORS = [
    ("eq", "(E == 1)"), ("add", "(E + 1)"), ("typeof", "(%typeof% E == 'Number)"), ("interp", '"%{E}"'),
    ("lt", "(E < 2)"), ("if", "(if E == 1 then 1 else 2)"), ("to_string", "(std.to_string E)"),
]
RAW_SHAPES = [
    # name, program over @T (type with a), @TB (same with b), @V, @EL(x), @INSP(e); ⟦..} is the annotation
    ("rec-reentrant",
     "let rec f ⟦forall a. Bool -> @T -> @T⟧ = fun b l => if b then l else let r = f true l in %seq% @I(r) r in f false @V"),
    ("rec-countdown",
     "let rec f ⟦forall a. Number -> @T -> @T⟧ = fun n l => if n == 0 then %seq% @I(l) l else f (n - 1) l in f 2 @V"),
    ("rec-inspect-then-recurse",
     "let rec f ⟦forall a. Number -> @T -> @T⟧ = fun n l => if n == 0 then l else %seq% @I(l) (f (n - 1) l) in f 1 (f 0 @V)"),
    ("own-result",
     "let f ⟦forall a. Bool -> @T -> @T⟧ = fun b l => if b then l else %seq% @I(l) l in f false (f true @V)"),
    ("own-result-twice",
     "let f ⟦forall a. Bool -> @T -> @T⟧ = fun b l => if b then l else %seq% @I(l) l in f false (f true (f true @V))"),
    ("other-function-inside",
     "let id ⟦forall b. @TB -> @TB⟧ = fun l => l in let g ⟦forall a. @T -> Dyn⟧ = fun l => @I((id l)) in g @V"),
    ("other-function-outside",
     "let id ⟦forall b. @TB -> @TB⟧ = fun l => l in let g ⟦forall a. @T -> Dyn⟧ = fun l => @I(l) in g (id (id @V))"),
    ("mutual",
     "let rec f ⟦forall a. Bool -> @T -> @T⟧ = fun b l => if b then l else g l, g ⟦forall a. @T -> @T⟧ = fun l => let r = f true l in %seq% @I(r) r in f false @V"),
]


def raw_cases(rng, n):
    out = []
    for _ in range(n):
        ct, val, el, spine = rng.choice(RAW_CONTAINERS)
        sname, shape = rng.choice(RAW_SHAPES)
        parametric = rng.chance(1, 3)
        if parametric:
            iname, use = "spine", spine
        else:
            iname, itmpl = rng.choice(RAW_INSPECTORS)
            use = itmpl.replace("E", el)
        prog = shape.replace("@TB", ct.replace("α", "b")).replace("@T", ct.replace("α", "a")).replace("@V", val)
        # @I(x): the use applied to x
        import re as _re
        prog = _re.sub(r"@I\(((?:[^()]|\([^()]*\))*)\)", lambda m: use.replace("L", m.group(1)), prog)
        contracted = _re.sub(r"⟦([^⟧]*)⟧", lambda m: "| " + m.group(1), prog)
        bare = _re.sub(r"⟦([^⟧]*)⟧", "", prog)
        out.append({"raw": contracted, "raw_bare": bare, "sx": contracted,
                    "klass": "parametric" if parametric else "inspect",
                    "prim": "raw:%s:%s:%s" % (sname, ct.replace(" ", "").replace("α", "a"), iname),
                    "feat": ["raw-nickel", "reapplied-contract", "let-rec" if "rec" in shape[:8] else "let"]})
    return out
