"""Rich merge streams for C05 (laws) and C15 (written order): records with RECURSIVE fields.

Model-free: every oracle compares results of the interpreter with results of the interpreter.

A case is a small group of record literals ("operands") over one shared *plan*:

  plan     = field names (from POOL, the single pool every name of the program is drawn from) -> type
             (num | str | arr | tag | rec(plan)); the fixed order of POOL is the dependency order: the value of a
             field only refers to fields with a smaller name (of its own record or of an enclosing one), so the
             merged record has no cycle.
  operand  = record literal defining a subset of the plan; a name it uses but does not define is declared
             without definition (`x`, `x | Number`), another operand defines it.
  priority = the definers of a field are grouped by priority level; definers of one level share ONE expression
             (so that their merge succeeds), different levels have unrelated expressions (overriding).
  rec      = nested literals / piecewise definitions (`s.u = ..`, `s = {..}` several times, mixed), inner names
             drawn from the same pool (they shadow the outer fields), with a chosen relation between the sets
             of outer siblings the operands' definitions depend on.
  aliases  = operands under `let Ca = <contract> in {..}`: one name, per-operand definitions, on constant fields.
  arrays   = of records with field metadata, written with different metadata by different operands (known finding
             array-merge-keeps-right-metadata: see ARRAY_KEY).
  values   = constants, references, arithmetic, interpolation, arrays, std.array.{map,fold_left,generate},
             applied lambdas, let (plain / pattern / several bindings), match (record, variant, array patterns),
             if, projections of literals; every binder name comes from POOL, preferably one that shadows a field
             visible at that point.
"""
import json
from vlib import core
from checks import mergelib as m

POOL = ["a", "b", "c", "d", "e", "f"]
ORD = {n: i for i, n in enumerate(POOL)}
LOCAL = "local"


# ===================================================================== printer

def show(e):
    t = e[0]
    if t == "num":
        return str(e[1]) if e[1] >= 0 else "(%d)" % e[1]
    if t == "str":
        return json.dumps(e[1])
    if t == "tag":
        return "'" + e[1]
    if t == "bool":
        return "true" if e[1] else "false"
    if t == "ref":
        return e[1]
    if t == "proj":
        return "%s.%s" % (show(e[1]), e[2])
    if t == "bin":
        return "(%s %s %s)" % (show(e[2]), e[1], show(e[3]))
    if t == "interp":
        return '"' + "".join(p if isinstance(p, str) else "%{" + show(p) + "}" for p in e[1]) + '"'
    if t == "arr":
        return "[%s]" % ", ".join(show(x) for x in e[1])
    if t == "call":
        return "(%s %s)" % (e[1], " ".join(show(x) for x in e[2]))
    if t == "fun":
        return "(fun %s => %s)" % (" ".join(pat(p) for p in e[1]), show(e[2]))
    if t == "app":
        return "(%s %s)" % (show(e[1]), " ".join(show(x) for x in e[2]))
    if t == "let":
        return "(let %s in %s)" % (", ".join("%s = %s" % (pat(p), show(v)) for p, v in e[1]), show(e[2]))
    if t == "if":
        return "(if %s then %s else %s)" % (show(e[1]), show(e[2]), show(e[3]))
    if t == "match":
        return "(%s |> match { %s })" % (show(e[1]), ", ".join("%s => %s" % (pat(p), show(b)) for p, b in e[2]))
    if t == "lit":
        return "{ %s }" % ", ".join(entry(x) for x in e[1]) if e[1] else "{}"
    if t == "merge":
        return "(%s & %s)" % (show(e[1]), show(e[2]))
    if t == "wrap":          # outer lets binding pool names: what a field reference must NOT be confused with
        return "".join("let %s = %d in " % (x, v) for x, v in e[1]) + show(e[2])
    if t == "src":           # verbatim source (corpus)
        return e[1]
    if t == "clet":          # operand-local contract aliases: let Ca = <contract> in { .. }
        return "(%s%s)" % ("".join("let %s = %s in " % (n, c) for n, c in e[1]), show(e[2]))
    raise ValueError(e)


def pat(p):
    t = p[0]
    if t == "pv":
        return p[1]
    if t == "pany":
        return "_"
    if t == "prec":
        fs = [f if al is None else "%s = %s" % (f, al) for f, al in p[1]]
        return "{ %s }" % ", ".join(fs + ([".."] if p[2] else []))
    if t == "penum":
        return "'%s %s" % (p[1], pat(p[2]))
    if t == "parr":
        return "[%s]" % ", ".join([x for x in p[1]] + ([".." + p[2]] if p[2] else []))
    raise ValueError(p)


def entry(en):
    path, ann, val = en
    s = ".".join(path)
    prio = ann.get("prio")
    if prio == "default":
        s += " | default"
    elif prio == "force":
        s += " | force"
    elif isinstance(prio, int):
        s += " | priority %d" % prio
    if ann.get("opt"):
        s += " | optional"
    if ann.get("hid"):
        s += " | not_exported"
    for c in ann.get("ctr", ()):
        s += " | " + c
    if val is not None:
        s += " = " + show(val)
    return s


# ===================================================================== traversals

def mapsub(e, f):
    """rebuild `e` with f applied to its direct sub-expressions"""
    t = e[0]
    if t in ("num", "str", "tag", "bool", "ref", "src"):
        return e
    if t == "proj":
        return ("proj", f(e[1]), e[2])
    if t == "bin":
        return ("bin", e[1], f(e[2]), f(e[3]))
    if t == "interp":
        return ("interp", [p if isinstance(p, str) else f(p) for p in e[1]])
    if t == "arr":
        return ("arr", [f(x) for x in e[1]])
    if t == "call":
        return ("call", e[1], [f(x) for x in e[2]])
    if t == "fun":
        return ("fun", e[1], f(e[2]))
    if t == "app":
        return ("app", f(e[1]), [f(x) for x in e[2]])
    if t == "let":
        return ("let", [(p, f(v)) for p, v in e[1]], f(e[2]))
    if t == "if":
        return ("if", f(e[1]), f(e[2]), f(e[3]))
    if t == "match":
        return ("match", f(e[1]), [(p, f(b)) for p, b in e[2]])
    if t == "lit":
        return ("lit", [(p, a, f(v) if v is not None else None) for p, a, v in e[1]])
    if t == "merge":
        return ("merge", f(e[1]), f(e[2]))
    if t == "wrap":
        return ("wrap", e[1], f(e[2]))
    if t == "clet":
        return ("clet", e[1], f(e[2]))
    raise ValueError(e)


def permute(rng, e):
    """every record literal of the program (operands, nested literals, pieces of piecewise definitions, literals
    inside expressions) with its fields written in another order"""
    e = mapsub(e, lambda x: permute(rng, x))
    if e[0] == "lit" and len(e[1]) > 1:
        return ("lit", rng.shuffle(e[1]))
    return e


def mirror(e):
    """operands of every merge swapped"""
    e = mapsub(e, mirror)
    if e[0] == "merge":
        return ("merge", e[2], e[1])
    return e


def forms(e, acc):
    t = e[0]
    if t == "call":
        acc[e[1]] = acc.get(e[1], 0) + 1
    elif t == "let":
        k = "let" + ("-pattern" if any(p[0] != "pv" for p, _ in e[1]) else "") + ("-multi" if len(e[1]) > 1 else "")
        acc[k] = acc.get(k, 0) + 1
    elif t == "match":
        k = "match-" + e[2][0][0][0]
        acc[k] = acc.get(k, 0) + 1
    elif t == "fun":
        k = "fun" + ("-pattern" if any(p[0] != "pv" for p in e[1]) else "")
        acc[k] = acc.get(k, 0) + 1
    elif t == "lit":
        for p, a, v in e[1]:
            k = "field:" + ("piece(path)" if len(p) > 1 else "plain") if v is not None else "field:declared-only"
            acc[k] = acc.get(k, 0) + 1
            for x in ("prio", "opt", "hid", "ctr"):
                if a.get(x):
                    kk = "ann:" + (x if x != "prio" else "prio=" + str(a[x]))
                    acc[kk] = acc.get(kk, 0) + 1
    elif t == "clet":
        acc["operand under local contract aliases"] = acc.get("operand under local contract aliases", 0) + 1
    elif t not in ("merge", "wrap", "src"):
        acc[t] = acc.get(t, 0) + 1
    if t == "arr" and any(x[0] == "lit" and any(k != "_ty" and k != "_id" for en in x[1] for k in en[1]) for x in e[1]):
        acc["array of records with field metadata"] = acc.get("array of records with field metadata", 0) + 1
    mapsub(e, lambda x: (forms(x, acc), x)[1])


# ===================================================================== plans

class Plan:
    """names of one record (all nesting levels use the same pool) and their types"""
    def __init__(self, uid, names, ty, ghost):
        self.uid, self.names, self.ty, self.ghost = uid, names, ty, ghost   # ghost: `| optional`, never defined


class Site:
    """one written record literal (or one path piece `s.u = ..`, which is the literal `{u = ..}` of `s`)"""
    def __init__(self, plan, form, outer, defined, declared):
        self.plan, self.form, self.outer = plan, form, outer
        self.defined, self.declared = defined, declared
        self.entries = []
        self.refs = set()         # (plan uid, name) of every record field referred to from inside this literal

    def env(self, n):
        """what a name means inside the value of field `n` of this literal: the literal's own fields shadow
        everything else; only smaller ones may be used (no cycles)"""
        env = {x: v for x, v in self.outer.items() if x not in self.declared}
        for x in self.declared:
            if x in self.plan.ty and ORD[x] < ORD[n]:
                env[x] = (self.plan.ty[x], (self.plan.uid, x))
        return env


# contracts an operand may bind to a local alias, with the python reading of which numbers they accept
PREDS = [
    ("std.contract.from_predicate (fun x => x > 0)", lambda v: v > 0),
    ("std.contract.from_predicate (fun x => x > 4)", lambda v: v > 4),
    ("std.contract.from_predicate (fun x => x < 3)", lambda v: v < 3),
    ("std.contract.from_predicate (fun x => x % 2 == 0)", lambda v: v % 2 == 0),
    ("std.contract.from_validator (fun x => if x < 7 then 'Ok else 'Error { message = \"big\" })", lambda v: v < 7),
    ("Number", lambda v: True),
    ("std.contract.from_predicate (fun x => std.is_number x)", lambda v: True),
    ("String", lambda v: False),
]


class Gen:
    def __init__(self, rng):
        self.rng = rng
        self.uid = 0
        self.shadow = {}          # kinds of shadowing that occurred
        self.rel = {}             # dependency-set relations between operands' definitions of a record field
        self.over = {}            # overriding
        self.alias = None         # contract aliases of the current case: {name: [index into PREDS, one per operand]}

    def note(self, k):
        self.shadow[k] = self.shadow.get(k, 0) + 1

    def note_conflict(self):
        self.over["cases with a deliberately conflicting definition"] = self.over.get("cases with a deliberately conflicting definition", 0) + 1

    def fresh(self):
        self.uid += 1
        return self.uid

    # ------------------------------------------------------------- expressions
    def binder(self, env, avoid=()):
        """a bound-variable name: from the same pool as the fields; preferably one that hides a visible field"""
        rng = self.rng
        hide = [x for x, (_, lid) in env.items() if lid != LOCAL and x not in avoid]
        if hide and rng.chance(3, 5):
            x = rng.choice(sorted(hide))
        else:
            x = rng.choice([p for p in POOL if p not in avoid])
        if x in env:
            self.note("binder hides a visible field" if env[x][1] != LOCAL else "binder hides an outer binder")
        return x

    def names_of(self, env, ty):
        return sorted(x for x, (t, _) in env.items() if t == ty or (ty == "num" and t == "cnum"))

    def ref(self, env, x, refs):
        if env[x][1] != LOCAL:
            refs.add(env[x][1])
        return ("ref", x)

    def projections(self, env):
        """(expression, type) for every projectable inner field of the visible record-typed fields"""
        out = []
        for x, (t, lid) in sorted(env.items()):
            if isinstance(t, tuple):
                stack = [(("ref", x), t[1])]
                while stack:
                    base, pl = stack.pop()
                    for n in pl.names:
                        e = ("proj", base, n)
                        if isinstance(pl.ty[n], tuple):
                            stack.append((e, pl.ty[n][1]))
                        else:
                            out.append((e, pl.ty[n], lid))
        return out

    def base(self, ty, env, refs):
        rng = self.rng
        if ty == "cnum":          # a number that local contract aliases are going to judge
            ok = [v for v in range(9) if all(PREDS[i][1](v) for idx in self.alias.values() for i in idx)] if self.alias else []
            return ("num", rng.choice(ok) if ok and rng.chance(11, 20) else rng.below(9))
        if ty == "rarr":
            return self.rarr_value(env, refs)
        cands = [("r", x) for x in self.names_of(env, ty)]
        cands += [("p", e, lid) for e, t, lid in self.projections(env) if t == ty]
        if ty == "num":
            cands += [("len", x) for x in self.names_of(env, "arr") + self.names_of(env, "rarr")] + [("slen", x) for x in self.names_of(env, "str")]
        if cands and rng.chance(5, 6):
            c = rng.choice(cands)
            if c[0] == "r":
                return self.ref(env, c[1], refs)
            if c[0] == "p":
                refs.add(c[2])
                return c[1]
            if c[0] == "len":
                return ("call", "std.array.length", [self.ref(env, c[1], refs)])
            return ("call", "std.string.length", [self.ref(env, c[1], refs)])
        if ty == "num":
            return ("num", rng.choice([0, 1, 2, 3, 5, 7, -1]))
        if ty == "str":
            if rng.chance(1, 3):
                return ("call", "std.to_string", [self.base("num", env, refs)])
            return ("str", rng.choice(["s", "t", "", "xy"]))
        if ty == "arr":
            return ("arr", [self.base("num", env, refs) for _ in range(rng.range(1, 2))])
        if ty == "tag":
            return ("tag", rng.choice(["Ta", "Tb"]))
        raise ValueError(ty)

    def cond(self, env, d, refs):
        rng = self.rng
        c = rng.below(3)
        if c == 0:
            return ("bin", ">", self.expr("num", env, d - 1, refs), ("num", rng.choice([0, 1, 2])))
        if c == 1:
            return ("bin", "==", self.expr("num", env, d - 1, refs), self.expr("num", env, d - 1, refs))
        return ("call", "std.is_number", [self.base("num", env, refs)])

    def expr(self, ty, env, d, refs):
        rng = self.rng
        if d <= 0 or rng.chance(1, 4) or ty in ("cnum", "rarr"):
            return self.base(ty, env, refs)
        if ty == "tag" or rng.chance(2, 5):
            return self.wrapper(ty, env, d, refs)
        return self.composite(ty, env, d, refs)

    def rarr_value(self, env, refs, depth=0):
        """an array whose elements are records (or arrays of records); the field metadata is added per operand
        by `decorate`, so that operands write the same data with different metadata"""
        rng = self.rng
        elems = []
        for _ in range(rng.range(1, 2 if depth else 3)):
            if depth == 0 and rng.chance(1, 7):
                elems.append(self.rarr_value(env, refs, depth + 1))
                continue
            pool = rng.shuffle(POOL)
            names = sorted(pool[:rng.range(1, 3)], key=lambda x: ORD[x])
            ghost = pool[-1]      # may be declared `| optional` by some operands: nothing refers to it
            env2 = {k: v for k, v in env.items() if k not in names and k != ghost}
            ents = [([ghost], {"_ghost": True, "opt": True}, None)]
            for x in names:
                c = rng.below(10)
                if c < 5:
                    t, v = "num", (("num", rng.choice([0, 1, 2, 5])) if rng.chance(2, 3) else self.base("num", env2, refs))
                elif c < 7:
                    t, v = "str", ("str", rng.choice(["s", "t"]))
                elif c < 8:
                    t, v = "arr", ("arr", [("num", 1), ("num", 2)][:rng.range(1, 2)])
                elif depth < 1:
                    t, v = "rarr", self.rarr_value(env2, refs, depth + 1)
                else:
                    t, v = "num", ("num", 3)
                ents.append(([x], {"_ty": t}, v))
            elems.append(("lit", ents))
        return ("arr", elems)

    def decorate(self, e, inside=False):
        """the same array with field metadata on its elements' fields"""
        rng = self.rng
        if e[0] == "arr":
            return ("arr", [self.decorate(x, True) for x in e[1]])
        if e[0] == "lit" and inside:
            out = []
            for p, a, v in e[1]:
                if a.get("_ghost"):
                    if rng.chance(1, 4):
                        out.append((p, {"opt": True}, None))
                    continue
                a2 = {"_ty": a.get("_ty")}
                c = rng.below(100)
                if c < 24:
                    a2["hid"] = True
                elif c < 32:
                    a2["opt"] = True
                elif c < 40:
                    a2["prio"] = "default"
                elif c < 45:
                    a2["prio"] = rng.choice(["force", 3])
                elif c < 57:
                    good = {"num": "Number", "str": "String", "arr": "Array Number", "rarr": "Array Dyn"}[a2["_ty"]]
                    a2["ctr"] = [good if rng.chance(9, 10) else ("String" if good != "String" else "Number")]
                out.append((p, a2, self.decorate(v, True)))
            return ("lit", rng.shuffle(out))
        return e

    def undecorated(self, e, inside=False):
        if e[0] == "arr":
            return ("arr", [self.undecorated(x, True) for x in e[1]])
        if e[0] == "lit" and inside:
            return ("lit", [(p, a, self.undecorated(v, True)) for p, a, v in e[1] if not a.get("_ghost")])
        return e

    def mini_literal(self, env, d, refs, n=2):
        """a literal inside an expression, `{x = .., y = ..}`, with field names from the pool (they are in scope
        in its own values: only the smaller ones are used); returns (literal, [(name, type)])"""
        rng = self.rng
        names = sorted(rng.shuffle(POOL)[:n], key=lambda x: ORD[x])
        tys = [rng.choice(["num", "num", "num", "str", "arr"]) for _ in names]
        for x in names:
            if x in env and env[x][1] != LOCAL:
                self.note("field of an inner literal hides an outer field")
        ents = []
        for i, (x, t) in enumerate(zip(names, tys)):
            env2 = {k: v for k, v in env.items() if k not in names}
            for y, ty2 in list(zip(names, tys))[:i]:
                env2[y] = (ty2, LOCAL)
            ents.append(([x], {}, self.expr(t, env2, d - 1, refs)))
        return ("lit", ents), list(zip(names, tys))

    def with_binders(self, env, binds):
        env2 = dict(env)
        for x, t in binds:
            env2[x] = (t, LOCAL)
        return env2

    def composite(self, ty, env, d, refs):
        rng = self.rng
        if ty == "num":
            c = rng.below(10)
            if c < 4:
                return ("bin", rng.choice(["+", "+", "+", "-"]), self.expr("num", env, d - 1, refs), self.expr("num", env, d - 1, refs))
            if c < 5:
                return ("bin", "*", self.expr("num", env, d - 1, refs), ("num", rng.choice([2, 3])))
            if c < 7:
                p = self.binder(env)
                q = self.binder(env, avoid=(p,))
                env2 = self.with_binders(env, [(p, "num"), (q, "num")])
                body = ("bin", "+", ("ref", p), self.expr("num", env2, d - 1, refs))
                return ("call", "std.array.fold_left", [("fun", [("pv", p), ("pv", q)], body), self.base("num", env, refs), self.expr("arr", env, d - 1, refs)])
            if c < 8:
                return ("call", "std.array.length", [self.expr("arr", env, d - 1, refs)])
            lit, fs = self.mini_literal(env, d, refs)
            nums = [x for x, t in fs if t == "num"]
            if nums:
                return ("proj", lit, rng.choice(nums))
            return ("call", "std.array.length", [("call", "std.record.fields", [lit])])
        if ty == "str":
            parts = []
            for _ in range(rng.range(1, 3)):
                if rng.chance(1, 3):
                    parts.append(rng.choice(["-", "p", ":", " "]))
                if rng.chance(1, 2):
                    parts.append(self.expr("str", env, d - 1, refs))
                else:
                    parts.append(("call", "std.to_string", [self.expr("num", env, d - 1, refs)]))
            return ("interp", parts)
        if ty == "arr":
            c = rng.below(10)
            if c < 4:
                x = self.binder(env)
                body = self.expr("num", self.with_binders(env, [(x, "num")]), d - 1, refs)
                return ("call", "std.array.map", [("fun", [("pv", x)], body), self.expr("arr", env, d - 1, refs)])
            if c < 7:
                return ("arr", [self.expr("num", env, d - 1, refs) for _ in range(rng.range(1, 3))])
            if c < 8:
                return ("bin", "@", self.expr("arr", env, d - 1, refs), self.expr("arr", env, d - 1, refs))
            x = self.binder(env)
            body = self.expr("num", self.with_binders(env, [(x, "num")]), d - 1, refs)
            return ("call", "std.array.generate", [("fun", [("pv", x)], body), ("num", rng.range(1, 3))])
        return self.wrapper(ty, env, d, refs)

    def wrapper(self, ty, env, d, refs):
        """binding forms around an expression of any type"""
        rng = self.rng
        c = rng.below(10)
        if c < 2:        # let (one or two bindings)
            x = self.binder(env)
            tx = rng.choice(["num", "num", "str", "arr"])
            binds = [(x, tx)]
            defs = [(("pv", x), self.expr(tx, env, d - 1, refs))]
            if rng.chance(1, 3):
                y = self.binder(env, avoid=(x,))
                binds.append((y, "num"))
                defs.append((("pv", y), self.expr("num", env, d - 1, refs)))
            return ("let", defs, self.expr(ty, self.with_binders(env, binds), d - 1, refs))
        if c < 4:        # applied lambda (one or two parameters)
            x = self.binder(env)
            tx = rng.choice(["num", "num", "str", "arr"])
            binds, args = [(x, tx)], [self.expr(tx, env, d - 1, refs)]
            if rng.chance(1, 3):
                y = self.binder(env, avoid=(x,))
                binds.append((y, "num"))
                args.append(self.expr("num", env, d - 1, refs))
            return ("app", ("fun", [("pv", b) for b, _ in binds], self.expr(ty, self.with_binders(env, binds), d - 1, refs)), args)
        if c < 5:
            return ("if", self.cond(env, d, refs), self.expr(ty, env, d - 1, refs), self.expr(ty, env, d - 1, refs))
        if c < 8:        # record pattern: match / let / fun
            lit, fs = self.mini_literal(env, d, refs)
            binds, pf = [], []
            for x, t in fs:
                if rng.chance(1, 3):
                    al = self.binder(env, avoid=tuple(b for b, _ in binds) + tuple(f for f, _ in fs))
                    binds.append((al, t))
                    pf.append((x, al))
                else:
                    if x in env and env[x][1] != LOCAL:
                        self.note("pattern variable hides a visible field")
                    binds.append((x, t))
                    pf.append((x, None))
            p = ("prec", pf, rng.chance(1, 4))
            body = self.expr(ty, self.with_binders(env, binds), d - 1, refs)
            k = rng.below(3)
            if k == 0:
                return ("match", lit, [(p, body)])
            if k == 1:
                return ("let", [(p, lit)], body)
            return ("app", ("fun", [p], body), [lit])
        if c < 9:        # enum variant pattern
            x = self.binder(env)
            tx = rng.choice(["num", "num", "str", "arr"])
            body = self.expr(ty, self.with_binders(env, [(x, tx)]), d - 1, refs)
            scrut = ("app", ("tag", "V"), [self.expr(tx, env, d - 1, refs)])
            return ("match", scrut, [(("penum", "V", ("pv", x)), body), (("pany",), self.base(ty, env, refs))])
        x = self.binder(env)   # array pattern
        y = self.binder(env, avoid=(x,))
        body = self.expr(ty, self.with_binders(env, [(x, "num"), (y, "arr")]), d - 1, refs)
        scrut = ("arr", [self.expr("num", env, d - 1, refs) for _ in range(rng.range(1, 3))])
        return ("match", scrut, [(("parr", [x], y), body), (("pany",), self.base(ty, env, refs))])

    # ------------------------------------------------------------- plans
    def plan(self, depth, top=False):
        rng = self.rng
        n = rng.choice([3, 4, 4, 5, 5]) if top else rng.range(2, 3 if depth > 1 else 4)
        names = sorted(rng.shuffle(POOL)[:n], key=lambda x: ORD[x])
        wrec = [33, 18, 0][min(depth, 2)]
        ty = {}
        for i, x in enumerate(names):
            t = rng.weighted([("num", 42), ("str", 10), ("arr", 10), ("tag", 5), ("rec", 0 if top and i == 0 else wrec),
                              ("rarr", 7 if depth < 2 else 0), ("cnum", 22 if self.alias else 0)])
            ty[x] = t
        if top and self.alias and not any(t == "cnum" for t in ty.values()):
            ty[rng.choice(names[:-1])] = "cnum"
        if top and rng.chance(9, 10) and not any(ty[x] == "rec" for x in names[-2:]):
            ty[rng.choice(names[-2:])] = "rec"         # late in the order: it has siblings to depend on
        for x in names:
            if ty[x] == "rec":
                ty[x] = ("rec", self.plan(depth + 1))
        rest = [p for p in POOL if p not in names]
        ghost = [rng.choice(rest)] if rest and rng.chance(1, 6) else []
        return Plan(self.fresh(), names, ty, ghost)

    def assign_defs(self, plan, k, top=False):
        """which of k literals defines which names: every name at least once (a record field of the operands:
        usually several times, that is where dependency sets are united)"""
        rng = self.rng
        sets = [set() for _ in range(k)]
        for x in plan.names:
            if top and isinstance(plan.ty[x], tuple) and rng.chance(4, 5):
                who = rng.shuffle(list(range(k)))[:max(2, k - rng.below(2))]
            else:
                who = [i for i in range(k) if rng.chance(1, 2)] or [rng.below(k)]
            for i in who:
                sets[i].add(x)
        return sets

    def new_site(self, plan, form, outer, defined, top=False):
        rng = self.rng
        declared = set(defined)
        if top and rng.chance(5, 6):
            declared |= set(plan.names)
        elif form == "lit":
            for x in plan.names:
                if x not in declared and rng.chance(2, 5):
                    declared.add(x)
        if form == "lit":
            for x in plan.ghost:          # `x | optional`, defined nowhere: it still hides an outer x
                if rng.chance(1, 2):
                    declared.add(x)
        hidden = [x for x in declared if x in outer and outer[x][1] != LOCAL]
        if hidden:
            self.note("field of a nested literal hides an outer field")
        if any(x in outer and outer[x][1] == LOCAL for x in declared):
            self.note("field hides an outer let")
        return Site(plan, form, outer, set(defined), declared)

    def ann(self, ty, level, bare=False):
        rng = self.rng
        a = {}
        if level is not None:
            a["prio"] = level
        if rng.chance(1, 16):
            a["opt"] = True
        if rng.chance(1, 14):
            a["hid"] = True
        if ty == "cnum":
            if self.alias and rng.chance(3, 4):
                a["ctr"] = [rng.choice(sorted(self.alias))]
                if rng.chance(1, 6):
                    a["ctr"].append(rng.choice(sorted(self.alias) + ["Number"]))
            return a
        if rng.chance(1, 4 if bare else 6):
            c = {"num": "Number", "str": "String", "arr": "Array Number", "tag": "[| 'Ta, 'Tb |]", "rarr": "Array Dyn"}.get(ty)
            if c:
                a["ctr"] = [c]
            elif rng.chance(1, 2):
                a["ctr"] = ["{ .. }"]
        return a

    def levels(self, k, mostly_same=False):
        """priority level of each of the k definers of one field"""
        rng = self.rng
        if k == 1 or rng.chance(11, 20) or (mostly_same and rng.chance(1, 2)):
            lv = rng.weighted([(None, 75), ("default", 10), ("force", 7), (3, 8)])
            return [lv] * k
        return [rng.weighted([("default", 3), (-1, 1), (None, 4), (3, 1), ("force", 2)]) for _ in range(k)]

    def split_pieces(self, names, lit_only):
        """one operand's share of a record field -> pieces (`s = {..}` literals and `s.u = ..` paths)"""
        rng = self.rng
        names = rng.shuffle(sorted(names))
        if lit_only and rng.chance(2, 3) or not names or rng.chance(2, 5):
            return [("lit", set(names))]
        pieces = []
        for x in names:
            lits = [p for p in pieces if p[0] == "lit"]
            c = rng.below(10)
            if c < 5 and not lit_only:
                pieces.append(("path", {x}))
            elif c < 8 and lits:
                rng.choice(lits)[1].add(x)
            else:
                pieces.append(("lit", {x}))
        return rng.shuffle(pieces)

    def fill(self, plan, sites, d, top=False):
        """write the fields of all the literals `sites` that are going to be merged into one record of `plan`"""
        rng = self.rng
        for x in plan.names:
            definers = [s for s in sites if x in s.defined]
            ty = plan.ty[x]
            lv = self.levels(len(definers), mostly_same=top and isinstance(ty, tuple))
            groups = {}
            for s, l in zip(definers, lv):
                groups.setdefault(l, []).append(s)
            for l, grp in sorted(groups.items(), key=lambda kv: str(kv[0])):
                if isinstance(ty, tuple):
                    self.fill_rec(x, ty[1], l, grp, d, top)
                    continue
                envs = [s.env(x) for s in grp]
                env = {k: v for k, v in envs[0].items() if all(k in e and e[k][1] == v[1] for e in envs[1:])}
                refs = set()
                val = self.expr(ty, env, d, refs)
                odd = rng.below(len(grp)) if len(grp) > 1 and rng.chance(1, 25) else None
                for gi, s in enumerate(grp):
                    if gi == odd:     # rarely: an unrelated definition at the same priority (a conflict, unless overridden:
                        r2 = set()    # every order must then fail)
                        v2 = self.expr(ty, s.env(x), d, r2)
                        s.entries.append(([x], self.ann(ty, l), self.decorate(v2) if ty == "rarr" else v2))
                        s.refs |= r2
                        self.note_conflict()
                        continue
                    s.refs |= refs
                    mine = val if ty != "rarr" else self.undecorated(val) if rng.chance(1, 3) else self.decorate(val)
                    s.entries.append(([x], self.ann(ty, l), mine))
                    if s.form == "lit" and rng.chance(1, 25):      # the same field written twice
                        s.entries.append(([x], self.ann(ty, l), mine if ty != "rarr" or rng.chance(1, 2) else self.decorate(val)))
        for s in sites:
            if s.form != "lit":
                continue
            for x in sorted(s.declared - s.defined):
                if x in plan.ghost:
                    s.entries.append(([x], {"opt": True}, None))
                    continue
                t = plan.ty[x]
                # now and then a priority on a field without value (it must not change which definition wins)
                lv = rng.choice(["default", "force", 3, -1]) if rng.chance(1, 8) else None
                s.entries.append(([x], self.ann(t if not isinstance(t, tuple) else "rec", lv, bare=True), None))
            s.entries = rng.shuffle(s.entries)

    def fill_rec(self, x, ip, level, grp, d, top):
        rng = self.rng
        shares = self.assign_defs(ip, len(grp))
        for sh in shares:
            if not sh and rng.chance(4, 5):
                sh.add(rng.choice(ip.names))
        envs = [s.env(x) for s in grp]
        # chosen relation between the sets of outer siblings the operands' definitions depend on
        want = [None] * len(grp)
        if top and len(grp) >= 2:
            common = sorted(k for k, v in envs[0].items() if v[1] != LOCAL and all(k in e and e[k][1] == v[1] for e in envs[1:]))
            rel = rng.choice((["equal", "one-empty"] if common else []) + (["disjoint", "subset", "superset", "chain"] if len(common) >= 2 else [])
                             + (["overlap"] * 3 if len(common) >= 3 else []) + (["free"] if not common or rng.chance(1, 2) else ["equal"]))
            common = rng.shuffle(common)
            if rel == "equal" and common:
                dd = set(common[:rng.range(1, min(2, len(common)))])
                want = [set(dd) for _ in grp]
            elif rel == "one-empty":
                want = [set(), {common[0]}, set(common[:2])][:len(grp)]
                want = rng.shuffle(want)
            elif rel == "disjoint" and len(common) >= 2:
                want = [{common[i]} if i < len(common) else set() for i in range(len(grp))]
            elif rel in ("subset", "superset", "chain") and len(common) >= 2:
                chain = [set(common[:i + 1]) for i in range(min(len(common), 3))]
                if rel == "superset":
                    chain = chain[::-1]
                if rel == "chain":
                    chain = rng.shuffle(chain)
                want = [set(chain[min(i, len(chain) - 1)]) for i in range(len(grp))]
                if len(grp) == 3 and rel != "chain" and rng.chance(1, 2):
                    want[2] = {common[-1]}
            elif rel == "overlap" and len(common) >= 3:
                want = [{common[0], common[1]}, {common[1], common[2]}, {common[0], common[2]}][:len(grp)]
        inner_all = []
        per_site = []
        for s, share, env, w in zip(grp, shares, envs, want):
            if w is not None:
                env = {k: v for k, v in env.items() if v[1] == LOCAL or v[1][0] != s.plan.uid or k in w}
            a = self.ann("rec", level)
            lit_only = bool(a)
            pieces = []
            for form, names in self.split_pieces(share, lit_only):
                pieces.append(self.new_site(ip, form, env, names))
            inner_all += pieces
            per_site.append((s, a, pieces, w))
        self.fill(ip, inner_all, d - 1 if d > 1 else 1)
        for s, a, pieces, w in per_site:
            mine = set()
            for p in pieces:
                mine |= p.refs
            if w is not None:       # make the definition depend on exactly the chosen siblings
                for k in sorted(w):
                    lid = (s.plan.uid, k)
                    if lid in mine:
                        continue
                    spots = [(p, i) for p in pieces if k not in p.declared for i, en in enumerate(p.entries)
                             if en[2] is not None and en[2][0] != "lit" and len(en[0]) == 1]
                    if not spots:
                        continue
                    p, i = rng.choice(spots)
                    path, an, val = p.entries[i]
                    # (without changing the value: other operands may define the same field with the same expression)
                    if s.plan.ty[k] == "num" and ip.ty.get(path[0]) == "num" and rng.chance(1, 2):
                        val = ("bin", "+", val, ("bin", "-", ("ref", k), ("ref", k)))
                    else:
                        val = ("call", "std.seq", [("ref", k), val])
                    # the same name may be written twice (duplicate entry): patch all copies alike
                    p.entries = [(pp, aa, val) if pp == path and vv is not None else (pp, aa, vv) for pp, aa, vv in p.entries]
                    p.refs.add(lid)
                    mine.add(lid)
            s.refs |= mine
            s.dep_sets = getattr(s, "dep_sets", {})
            s.dep_sets[x] = set(k for (u, k) in mine if u == s.plan.uid)
            for p in pieces:
                if p.form == "lit":
                    s.entries.append(([x], dict(a), ("lit", p.entries)))
                else:
                    for path, an, val in p.entries:
                        s.entries.append(([x] + path, an, val))
        if top and len(grp) >= 2:
            for i in range(len(grp)):
                for j in range(i + 1, len(grp)):
                    self.rel_note(grp[i].dep_sets[x], grp[j].dep_sets[x])

    def rel_note(self, a, b):
        if not a or not b:
            k = "one side empty" if (a or b) else "both empty"
        elif a == b:
            k = "equal"
        elif a < b or b < a:
            k = "strictly included"
        elif a & b:
            k = "overlapping"
        else:
            k = "disjoint"
        self.rel[k] = self.rel.get(k, 0) + 1

    # ------------------------------------------------------------- cases
    def case(self, k):
        """k operands over one plan + the outer lets; returns (lets, [operand literal])"""
        rng = self.rng
        lets = []
        if rng.chance(1, 2):
            lets = [(x, 101 + ORD[x]) for x in POOL if rng.chance(3, 5)]
        outer = {x: ("num", LOCAL) for x, _ in lets}
        self.alias = None
        if rng.chance(3, 10):      # operands under `let Ca = <contract> in`: same names, per operand definitions
            self.alias = {}
            for nm in ["Ca", "Cb"][:rng.range(1, 2)]:
                first = rng.below(len(PREDS))
                self.alias[nm] = [first if rng.chance(2, 5) else rng.below(len(PREDS)) for _ in range(k)]
        plan = self.plan(0, top=True)
        sites = [self.new_site(plan, "lit", outer, defs, top=True) for defs in self.assign_defs(plan, k, top=True)]
        self.fill(plan, sites, rng.range(2, 3), top=True)
        used = set()
        for s in sites:
            used |= s.refs
        over = [x for x in plan.names
                if len({str(a.get("prio")) for s in sites for p, a, v in s.entries if p[0] == x and v is not None}) > 1]
        k = ("overridden field that other fields depend on" if any((plan.uid, x) in used for x in over)
             else "overridden field nothing depends on" if over else "no field defined with two priorities")
        self.over[k] = self.over.get(k, 0) + 1
        ops = [("lit", s.entries) for s in sites]
        if self.alias:
            ops = [("clet", [(nm, PREDS[idx[i]][0]) for nm, idx in sorted(self.alias.items())], o) for i, o in enumerate(ops)]
            kinds = "same name, different definitions" if any(len(set(idx)) > 1 for idx in self.alias.values()) else "same definitions"
            self.over["contract aliases: " + kinds] = self.over.get("contract aliases: " + kinds, 0) + 1
        return lets, ops


# ===================================================================== running

EMPTY = ("lit", [])


def mk(lets, body):
    return show(("wrap", lets, body))


def run_progs(ck, nk, flags, srcs, what):
    rc, out, err = core.run_sharded(nk, [], ["%s\t%s" % (flags, m.esc(s)) for s in srcs])
    if rc:
        ck.obligation("run:rich-" + what, "internal", False, err[-500:])
    return out


def agree(rs):
    """the oracle: every program of the group exports the same bytes, or none exports"""
    ok = [r for r in rs if r.startswith("OK")]
    return not ok or (len(ok) == len(rs) and len(set(rs)) == 1)


ORDERS = [(0, 1, 2), (0, 2, 1), (1, 0, 2), (1, 2, 0), (2, 0, 1), (2, 1, 0)]
NM = "abc"


class Case:
    """named programs (`roots`) under common outer lets + the function that lists the groups of sources which
    must agree: [(law, {label: source})]"""
    def __init__(self, descr, lets, roots, groups_of):
        self.descr, self.lets, self.roots, self.groups_of = descr, lets, roots, groups_of

    def groups(self):
        return self.groups_of(self.lets, self.roots)


def law_groups(one):
    """programs of the C05 oracles for one triple; unit / idempotence on the whole merge and on operand `one`"""
    def groups_of(lets, roots):
        ops = [roots[x] for x in NM]
        g1 = {}
        for (i, j, k) in ORDERS:
            g1["(%s & %s) & %s" % (NM[i], NM[j], NM[k])] = mk(lets, ("merge", ("merge", ops[i], ops[j]), ops[k]))
            g1["%s & (%s & %s)" % (NM[i], NM[j], NM[k])] = mk(lets, ("merge", ops[i], ("merge", ops[j], ops[k])))
        groups = [("comm-assoc", g1)]
        whole = ("merge", ("merge", ops[0], ops[1]), ops[2])
        for nm, x in [(NM[one], ops[one]), ("(a & b) & c", whole)]:
            groups.append(("unit", {nm: mk(lets, x), nm + " & {}": mk(lets, ("merge", x, EMPTY)), "{} & " + nm: mk(lets, ("merge", EMPTY, x))}))
            groups.append(("idem", {nm: mk(lets, x), "(%s) & (%s)" % (nm, nm): mk(lets, ("merge", x, x))}))
        return groups
    return groups_of


def order_groups(wrap=None):
    def groups_of(lets, roots):
        return [("order", {nm: (wrap or (lambda x: x))(mk(lets, p)) for nm, p in roots.items()})]
    return groups_of


def failing_pair(law, labels, rs):
    """(law name, label, label) of two programs of a disagreeing group that disagree with each other"""
    res = dict(zip(labels, rs))
    if law == "comm-assoc":
        for (i, j, k) in ORDERS:
            l1, l2 = "(%s & %s) & %s" % (NM[i], NM[j], NM[k]), "%s & (%s & %s)" % (NM[i], NM[j], NM[k])
            if not agree([res[l1], res[l2]]):
                return "assoc", (l1, l2)
        law = "comm"
    for l1 in labels:
        for l2 in labels:
            if res[l1].startswith("OK") and res[l2] != res[l1]:
                return law, (l1, l2) if labels.index(l1) < labels.index(l2) else (l2, l1)
    return law, (labels[0], labels[-1])


# --------------------------------------------------------------------- shrinking a witness
def tag_ids(e, ctr):
    """give every written field of every literal an identity that survives permutation / mirroring"""
    e = mapsub(e, lambda x: tag_ids(x, ctr))
    if e[0] == "lit":
        out = []
        for p, a, v in e[1]:
            ctr[0] += 1
            out.append((p, dict(a, _id=ctr[0]), v))
        return ("lit", out)
    return e


def edit(e, fid, f):
    """apply f to the field with identity fid (f returns the new field or None to delete it)"""
    e = mapsub(e, lambda x: edit(x, fid, f))
    if e[0] == "lit":
        out = []
        for en in e[1]:
            if en[1].get("_id") == fid:
                en = f(en)
                if en is None:
                    continue
            out.append(en)
        return ("lit", out)
    return e


def fields_of(e, acc):
    if e[0] == "lit":
        for en in e[1]:
            if "_id" in en[1]:
                acc[en[1]["_id"]] = en
    mapsub(e, lambda x: (fields_of(x, acc), x)[1])
    return acc


def children(e):
    acc = []
    mapsub(e, lambda x: (acc.append(x), x)[1])
    return acc


def shrink(nk, flags, case, gi, l1, l2, max_runs=260, seconds=40):
    """greedy reduction of a disagreeing case: delete fields, replace values by constants or by their own
    sub-expressions, drop annotations and outer lets, as long as the two programs still disagree"""
    import time
    t0, runs = time.time(), [0]

    def still_bad(lets, roots):
        if runs[0] >= max_runs or time.time() - t0 > seconds:
            return False
        runs[0] += 1
        try:
            g = case.groups_of(lets, roots)[gi][1]
            srcs = [g[l1], g[l2]]
        except Exception:
            return False
        rc, rs, err = core.run_sharded(nk, [], ["%s\t%s" % (flags, m.esc(x)) for x in srcs], shards=2)
        return rc == 0 and len(rs) == 2 and not agree(rs) and not any(m.crashed(r) or r.startswith("ERR Budget") for r in rs)

    lets, roots = list(case.lets), dict(case.roots)

    def attempt(new_lets, new_roots):
        nonlocal lets, roots
        if still_bad(new_lets, new_roots):
            lets, roots = new_lets, new_roots
            return True
        return False

    def on_all(fid, f):
        return {k: edit(v, fid, f) for k, v in roots.items()}

    changed = True
    while changed and runs[0] < max_runs:
        changed = False
        if lets and attempt([], roots):
            changed = True
        for i in range(len(lets) - 1, -1, -1):
            if i < len(lets) and attempt(lets[:i] + lets[i + 1:], roots):
                changed = True
        ids = {}
        for r in roots.values():
            fields_of(r, ids)
        for fid in sorted(ids, reverse=True):
            cur = {}
            for r in roots.values():
                fields_of(r, cur)
            if fid not in cur:
                continue
            path, an, val = cur[fid]
            if attempt(lets, on_all(fid, lambda en: None)):
                changed = True
                continue
            if val is not None and val[0] != "lit":
                cands = [c for c in children(val) if c[0] != "lit"]
                if val[0] not in ("num", "str", "tag"):
                    cands += [("num", 1), ("str", "s"), ("arr", [("num", 1)]), ("tag", "Ta")]
                for c in cands:
                    if attempt(lets, on_all(fid, lambda en, c=c: (en[0], en[1], c))):
                        changed = True
                        break
            bare = {k: v for k, v in an.items() if k == "_id"}
            if len(an) > len(bare) and attempt(lets, on_all(fid, lambda en: (en[0], bare, en[2]))):
                changed = True
    return Case(case.descr, lets, roots, case.groups_of), runs[0]


LAW_TEXT = {"comm": "merge is not commutative", "assoc": "merge is not associative", "unit": "{} is not a unit of merge", "idem": "merge is not idempotent",
            "order": "the output depends on the written order"}


def known_key(ck, key):
    return key in [v["key"] for v in ck.violations] or any(k["property"] == ck.pid and k["key"] == key for k in ck.known)


# --------------------------------------------------------------------- the array-merge finding
# `a1 & a2` on arrays is `a2 | std.contract.Equal a1`: the result is the RIGHT operand's array, so the metadata of
# the fields of its elements (not_exported, contracts, ...) depends on the operand order, while Equal only compares
# values.  Recorded in known_findings.txt under this key; recognised by: the case has field metadata inside array
# elements, the group agrees once that metadata is erased, and (JSON, all programs exporting) the exports are equal
# after removing, from records inside arrays, the fields that carry metadata in some operand.
ARRAY_KEY = "array-merge-keeps-right-metadata"


def meta_in_arrays(e, inside=False, acc=None):
    """names of the fields that carry metadata (or have no value) inside array elements"""
    acc = set() if acc is None else acc
    t = e[0]
    if t == "arr":
        for x in e[1]:
            meta_in_arrays(x, True, acc)
    elif t == "lit":
        for p, a, v in e[1]:
            if inside and (v is None or any(k not in ("_ty", "_id") for k in a)):
                acc.add(p[0])
            if v is not None:
                meta_in_arrays(v, inside, acc)
    else:
        mapsub(e, lambda x: (meta_in_arrays(x, inside, acc), x)[1])
    return acc


def erase_array_meta(e, inside=False):
    t = e[0]
    if t == "arr":
        return ("arr", [erase_array_meta(x, True) for x in e[1]])
    if t == "lit":
        out = []
        for p, a, v in e[1]:
            if inside and v is None:
                continue
            a2 = {k: x for k, x in a.items() if k == "_id"} if inside else a
            out.append((p, a2, erase_array_meta(v, inside) if v is not None else None))
        return ("lit", out)
    return mapsub(e, lambda x: erase_array_meta(x, inside))


def strip_keys(j, keys, inside=False):
    if isinstance(j, list):
        return [strip_keys(x, keys, True) for x in j]
    if isinstance(j, dict):
        return {k: strip_keys(v, keys, inside) for k, v in j.items() if not (inside and k in keys)}
    return j


def array_shape(flags, rs, keys):
    """do the results differ the way the array-merge finding makes them differ?"""
    ok = [r for r in rs if r.startswith("OK")]
    if len(ok) < len(rs):      # a contract on an element's field, kept in one order only
        return all(r.startswith("OK") or r.startswith("ERR Blame") for r in rs)
    if flags != "fmt=json":
        return True
    try:
        docs = [strip_keys(json.loads(json.loads(r[3:])), keys) for r in rs]
    except ValueError:
        return False
    return all(d == docs[0] for d in docs)


def report(ck, nk, flags, prefix, c, gi, law, progs, labels, rs, note=None):
    """a disagreeing group of case c: reduce it and report it as a violation of the property"""
    how = "feed `<flags><TAB><program>` lines to .build/target/debug/nkeval (newlines escaped): all programs of a group must print the same OK line, or all ERR"
    rep = {"rich": True, "descr": c.descr, "how_to_replay": how,
           "groups": [{"law": law, "flags": flags, "programs": progs, "results": dict(zip(labels, rs))}]}
    if note:
        rep["note"] = note
    k, (l1, l2) = failing_pair(law, labels, rs)
    key = "%s:%s" % (prefix, k)
    if known_key(ck, key):
        ck.violation(key, "", rep)      # counts a known finding as reproduced / a second witness of a reported key
        return
    small, runs = shrink(nk, flags, c, gi, l1, l2)
    sg = small.groups()[gi][1]
    rs2 = run_progs(ck, nk, flags, [sg[l1], sg[l2]], prefix)
    rep["original_case"] = rep.pop("groups")
    rep["groups"] = [{"law": k, "flags": flags, "programs": {l1: sg[l1], l2: sg[l2]}, "results": {l1: rs2[0], l2: rs2[1]}}]
    rep["reduced"] = {"lets": small.lets, "programs": {nm: show(r) for nm, r in small.roots.items()}, "interpreter_runs": runs}
    if agree(rs2):      # cannot happen (every accepted step was checked); keep the original then
        rep["groups"] = rep["original_case"]
        sg, rs2 = progs, [dict(zip(labels, rs))[l1], dict(zip(labels, rs))[l2]]
    shown = "; ".join("%s = %s" % (nm, show(r)) for nm, r in small.roots.items()) if law != "order" else sg[l1]
    if small.lets and law != "order":
        shown = "under " + " ".join("let %s = %d in" % x for x in small.lets) + " " + shown
    text = "%s on recursive records: `%s` gives %s but `%s` gives %s;  %s" % (LAW_TEXT.get(k, k), l1, rs2[0][:40], l2, rs2[1][:40], shown)
    if law == "order":
        text += "   VS `%s`:   %s" % (l2, sg[l2])
    ck.violation(key, text[:1500], rep)


def check_cases(ck, nk, cases, flags="fmt=json", prefix="rich"):
    """evaluates every distinct program once, applies the oracle to each group of each case; a disagreeing case
    is reduced before it is reported; returns per case the result of its first program"""
    srcs, seen, allg = [], {}, []
    for c in cases:
        groups = c.groups()
        allg.append(groups)
        for _, progs in groups:
            for s in progs.values():
                if s not in seen:
                    seen[s] = len(srcs)
                    srcs.append(s)
    out = run_progs(ck, nk, flags, srcs, prefix)
    firsts, suspects = [], []
    for c, groups in zip(cases, allg):
        firsts.append(out[seen[list(groups[0][1].values())[0]]])
        for gi, (law, progs) in enumerate(groups):
            labels = list(progs.keys())
            rs = [out[seen[s]] for s in progs.values()]
            for r in rs:
                if m.crashed(r):
                    ck.violation(prefix + ":crash", "interpreter crashed on a merge of recursive records: %s" % r[:80],
                                 {"rich": True, "descr": c.descr, "groups": [{"law": law, "flags": flags, "programs": progs, "results": dict(zip(labels, rs))}]})
            if agree(rs):
                continue
            keys = set()
            for r in c.roots.values():
                meta_in_arrays(r, acc=keys)
            if keys:
                suspects.append((c, gi, law, progs, labels, rs, keys))
            else:
                report(ck, nk, flags, prefix, c, gi, law, progs, labels, rs)
    if suspects:
        # the same groups with the field metadata inside array elements erased, evaluated in one go
        erased = [Case(c.descr, c.lets, {nm: erase_array_meta(r) for nm, r in c.roots.items()}, c.groups_of) for c, *_ in suspects]
        eg = [e.groups()[sp[1]][1] for e, sp in zip(erased, suspects)]
        esrcs = sorted(set(s for g in eg for s in g.values()))
        eout = dict(zip(esrcs, run_progs(ck, nk, flags, esrcs, prefix + "-erased")))
        for (c, gi, law, progs, labels, rs, keys), e, g in zip(suspects, erased, eg):
            ers = [eout[s] for s in g.values()]
            if agree(ers) and array_shape(flags, rs, keys):
                ck.hist(prefix + " known finding reproduced", ARRAY_KEY)
                ck.violation(ARRAY_KEY, "merging arrays keeps the metadata of the right operand's elements: %s differ only by fields carrying metadata inside array elements: %s" % (
                    " / ".join(labels[:3]), list(progs.values())[0][:600]),
                    {"rich": True, "descr": c.descr, "groups": [{"law": law, "flags": flags, "programs": progs, "results": dict(zip(labels, rs))}]})
            elif not agree(ers):
                # something else: it survives without the array metadata, reduce and report that version
                report(ck, nk, flags, prefix, e, gi, law, g, list(g.keys()), ers, note="field metadata inside array elements erased first (array-merge finding excluded)")
            else:
                report(ck, nk, flags, prefix, c, gi, law, progs, labels, rs)
    return firsts


def corpus_lines(pid):
    import glob
    import os
    out = []
    if os.environ.get("VERIF_RICH_NOCORPUS"):      # to measure what the generated stream finds on its own
        return out
    for p in sorted(glob.glob(os.path.join(core.ROOT, "corpus", pid, "rich*.case"))):
        for line in open(p):
            line = line.strip()
            if line and not line.startswith("#"):
                out.append(json.loads(line))
    return out


def record_gen_stats(ck, gen, fcount, tag):
    for k, v in sorted(fcount.items()):
        ck.hist(tag + " value forms", k, v)
    for k, v in sorted(gen.rel.items()):
        ck.hist(tag + " dependency sets of two operands' definitions of one record field", k, v)
    for k, v in sorted(gen.shadow.items()):
        ck.hist(tag + " shadowing", k, v)
    for k, v in sorted(gen.over.items()):
        ck.hist(tag + " overriding (per case)", k, v)


BATCH = 500      # cases evaluated at a time (bounds memory in the thorough tier)


def run_laws(ck, nk):
    """C05: 6 operand orders x 2 bracketings of a triple agree; {} is a unit; a & a = a"""
    rng = core.SplitMix64(ck.seed * 104729 + 505)
    n = 400 if ck.tier == "quick" else 8000
    gen = Gen(rng)
    cases = []
    for c in corpus_lines("C05"):
        cases.append(Case({"corpus": c.get("name", "")}, [tuple(x) for x in c.get("lets", [])],
                          {nm: ("src", s) for nm, s in zip(NM, c["operands"])}, law_groups(0)))
    fcount = {}
    shadowed = nok = total = done = per = 0
    ctr = [0]
    while done < n or cases:
        first_generated = len(cases)
        for i in range(done, min(n, done + BATCH)):
            before = sum(gen.shadow.values())
            lets, ops = gen.case(3)
            shadowed += sum(gen.shadow.values()) > before
            for o in ops:
                forms(o, fcount)
            cases.append(Case({"triple": i}, lets, {nm: tag_ids(o, ctr) for nm, o in zip(NM, ops)}, law_groups(i % 3)))
        firsts = check_cases(ck, nk, cases, "fmt=json", "rich")
        for c, r in zip(cases, firsts):
            ck.case(key="rich:" + "".join(show(x) for x in c.roots.values()), nontrivial=True)
            ck.hist("rich outcome (a & b) & c", m.outcome_class(r))
            nok += r.startswith("OK")
        if done == 0:
            for c, r in list(zip(cases, firsts))[first_generated:first_generated + 2]:
                ck.sample({"rich triple": {nm: show(x) for nm, x in c.roots.items()}, "lets": c.lets, "(a & b) & c": r[:300]})
        per = len(set(s for _, p in cases[-1].groups() for s in p.values()))
        total += len(cases)
        done = min(n, done + BATCH)
        cases = []
    record_gen_stats(ck, gen, fcount, "rich")
    ck.coverage["rich_triples"] = total
    ck.coverage["rich_programs_per_triple"] = per
    ck.coverage["rich_triples_exporting"] = "%d of %d (%.0f%%)" % (nok, total, 100.0 * nok / max(1, total))
    ck.coverage["rich_triples_with_shadowing"] = shadowed
    ck.coverage["rich_rule"] = RULE + " C05 oracles per triple: the 12 programs (6 operand orders x 2 bracketings) agree; x, x & {}, {} & x agree and x, x & x agree for x = one operand (in turn) and x = the whole merge."
    ck.log("rich laws: %d triples, %d export (%.0f%%)" % (total, nok, 100.0 * nok / max(1, total)))
    if nok < 0.6 * total:
        ck.obligation("generator:rich-triples-mostly-export", "internal", False, "only %d of %d triples export: the both-fail escape makes the oracle vacuous" % (nok, total))


VARIANTS = ["as written", "fields permuted", "operands swapped", "operands swapped and fields permuted"]


def order_variants(rng, prog):
    return dict(zip(VARIANTS, [prog, permute(rng, prog), mirror(prog), permute(rng, mirror(prog))]))


def listing(src):
    return ("let r = %s in { fields = std.record.fields r, values = std.record.values r, pairs = std.record.to_array r, "
            "opts = std.record.fields_with_opts r }" % src)


def run_order(ck, nk):
    """C15: fields of every literal permuted / operands swapped: same exported bytes, same listings"""
    rng = core.SplitMix64(ck.seed * 1299709 + 1515)
    n = 300 if ck.tier == "quick" else 6000
    gen = Gen(rng)
    cases = []
    for c in corpus_lines("C15"):
        cases.append(Case({"corpus": c.get("name", "")}, [], {nm: ("src", s) for nm, s in c["variants"].items()}, order_groups()))
    fcount = {}
    ctr = [0]
    nok = total = done = nlist = noklist = 0
    while done < n or cases:
        ncorpus = len(cases)
        for i in range(done, min(n, done + BATCH)):
            k = rng.weighted([(1, 3), (2, 4), (3, 3)])
            lets, ops = gen.case(k)
            body = ops[0]
            if k == 2:
                body = ("merge", ops[0], ops[1])
            elif k == 3:
                body = ("merge", ("merge", ops[0], ops[1]), ops[2]) if rng.chance(1, 2) else ("merge", ops[0], ("merge", ops[1], ops[2]))
            forms(body, fcount)
            cases.append(Case({"program": i, "operands": k}, lets, order_variants(rng.fork(), tag_ids(body, ctr)), order_groups()))
        sub = [c for i, c in enumerate(cases) if i < ncorpus or (i - ncorpus) % 3 == 0]
        firsts = check_cases(ck, nk, cases, "fmt=json", "rich-order-json")
        check_cases(ck, nk, sub, "fmt=yaml", "rich-order-yaml")
        check_cases(ck, nk, sub, "fmt=toml", "rich-order-toml")
        lf = check_cases(ck, nk, [Case(c.descr, c.lets, c.roots, order_groups(listing)) for c in sub], "full", "rich-order-listing")
        nlist += len(lf)
        noklist += sum(r.startswith("OK") for r in lf)
        for c, r in zip(cases, firsts):
            ck.case(key="rich-order:" + "".join(show(x) for x in c.roots.values()), nontrivial=True)
            ck.hist("rich-order outcome", m.outcome_class(r))
            nok += r.startswith("OK")
        if done == 0:
            for c, r in list(zip(cases, firsts))[ncorpus:ncorpus + 2]:
                g = c.groups()[0][1]
                ck.sample({"rich-order program": g[VARIANTS[0]][:800], "fields permuted": g[VARIANTS[1]][:800], "json": r[:300]})
        total += len(cases)
        done = min(n, done + BATCH)
        cases = []
    record_gen_stats(ck, gen, fcount, "rich-order")
    ck.coverage["rich_order_programs"] = "%d x 4 variants (json), every third also yaml, toml, listing" % total
    ck.coverage["rich_order_programs_exporting"] = "%d of %d (%.0f%%); listings evaluating: %d of %d" % (nok, total, 100.0 * nok / max(1, total), noklist, nlist)
    ck.coverage["rich_order_rule"] = RULE + " C15 oracles per program (1-3 operands): as written / the fields of every record literal (operands, nested literals, pieces of piecewise definitions, literals inside expressions) permuted / operands of every merge swapped / both: same JSON bytes (all), same YAML, TOML and std.record.{fields,values,to_array,fields_with_opts} (every third)."
    ck.log("rich order: %d programs, %d export (%.0f%%)" % (total, nok, 100.0 * nok / max(1, total)))
    if nok < 0.6 * total:
        ck.obligation("generator:rich-order-programs-mostly-export", "internal", False, "only %d of %d programs export" % (nok, total))


RULE = ("Recursive-record stream (direct oracle on the interpreter, no model): operands are record literals over one plan "
        "(3-5 top-level names out of a pool of 6 shared with nested fields, lambda parameters, let and pattern variables); "
        "field values are constants, references to smaller-named siblings (own or enclosing record), arithmetic, interpolation, "
        "arrays, std.array.{map,fold_left,generate,length}, applied lambdas, let (plain, pattern, multiple), match on record / "
        "variant / array patterns, if, projections; nested record fields as literals and piecewise (`s.u = ..`, `s = {..}` several "
        "times, mixed with plain fields) with inner names shadowing outer ones and a chosen relation (equal / disjoint / included / "
        "overlapping) between the outer siblings used by the operands' definitions of the same field; fields declared without "
        "definition (`x`, `x | Number`) defined by another operand; priority levels default / -1 / none / 3 / force (definers of one "
        "level share their expression, higher levels override fields other fields depend on; 1 group in 25 gets a deliberately "
        "conflicting definition, which every order must reject unless it is overridden); now and then a priority on a declaration "
        "without value; optional (also never defined), not_exported, contracts Number / String / Array Number / enum / { .. }; "
        "half of the programs under outer lets binding the same names; 3 cases in 10 put every operand under `let Ca = <contract> "
        "in {..}` (aliases of the same names bound per operand to the same or to different predicates / validators / types, whose "
        "verdict on a number is known to the generator) and annotate constant number fields with them, the constants chosen to "
        "satisfy every definition (11 in 20) or at random (so that one operand's definition accepts what another's rejects); "
        "arrays of records / nested arrays whose elements' fields carry metadata (not_exported, optional with / without value, "
        "default, force, priority, contracts right and wrong), the same array written by the operands with different metadata or "
        "none (the disagreements this causes are the known finding array-merge-keeps-right-metadata, recognised by erasing that "
        "metadata). A disagreeing case is reduced (fields deleted, values "
        "replaced by sub-expressions / constants, annotations and lets dropped) before it is reported.")


def replay(ck, obj):
    nk = core.harness_bin("nkeval")
    for grp in obj["groups"]:
        labels = list(grp["programs"].keys())
        rc, rs, err = core.run_lines(nk, [], ["%s\t%s" % (grp["flags"], m.esc(s)) for s in grp["programs"].values()])
        ck.case(key=str(grp["programs"]))
        rep = dict(obj, groups=[dict(grp, results=dict(zip(labels, rs)))])
        if any(m.crashed(r) for r in rs):
            ck.violation(obj.get("key", "rich:crash"), "interpreter crashed", rep)
        if not agree(rs):
            ck.violation(obj.get("key", "rich:" + grp["law"]), "%s: %s" % (LAW_TEXT.get(grp["law"], grp["law"]), " | ".join(sorted(set(r[:90] for r in rs)))), rep)
